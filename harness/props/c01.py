"""C01 — immutable upload/download round-trip (sizes, share layout, pipeline, end-to-end on the in-process grid)."""
ID = "C01"
LEAN_PROPS = "Tahoe.Props.C01"
DRIVER = "C01"
GENERATED = ["immutable"]
SOURCES = ["src/allmydata/immutable/upload.py", "src/allmydata/immutable/encode.py", "src/allmydata/immutable/layout.py",
           "src/allmydata/immutable/downloader/node.py", "src/allmydata/immutable/downloader/share.py",
           "src/allmydata/immutable/downloader/segmentation.py", "src/allmydata/immutable/filenode.py",
           "src/allmydata/codec.py"]
DESIGN_REF = "DESIGN.md §2 C01"
TECHNIQUE = ("Lean 4 theorems over an executable model of the immutable data path: size arithmetic of uploader, Encoder and "
             "DownloadNode._calculate_sizes (agreement for all size/k/segsize incl. the exceptions raised), share layout "
             "(_create_offsets v1/v2, header bytes, reader parse, block locations, write-order contiguity), what the uploader "
             "asks of an IUploadable (size, read in any piece sizes, two get_encryption_key calls around close()) and the "
             "pipeline encrypt -> segment -> pad -> chop -> encode -> place -> fetch -> decode -> trim -> join -> decrypt; the "
             "erasure code is instantiated with C36's transcription of zfec's Reed-Solomon code (rs256, MDS law proved there), "
             "AES-CTR is a parameter (keystream xor). Differential correspondence against the real BaseUploadable / "
             "EncryptAnUploadable / Encoder / WriteBucketProxy(_v2) / ReadBucketProxy / downloader Share / DownloadNode methods "
             "and end-to-end uploads and downloads on an in-process grid (seeded delivery order, sources Data / FileHandle / "
             "FileName / piece lists, convergent and random keys, varied CHUNKSIZE): UEB numbers, header bytes, all N share "
             "data sections (zfec output vs rs256), round trip. A fixed corpus (one case per known mechanism) runs first; "
             "implementation-side monitor: bytes read back through the cap the upload returned = uploaded bytes; downloader "
             "numbers = encoder numbers; reader's table = writer's table")
LEVEL_TEXT = ("roundtrip_rs256 / roundtrip_rs256_any_source: upload then download returns the plaintext for every non-empty "
              "plaintext, 1 <= k <= n <= 256, maxSeg, key, keystream, every per-segment choice of k distinct shares and every "
              "uploadable keeping the IUploadable contract (Supplies + StableKey), with zfec's code and NO assumption on the "
              "erasure code (C36 rs256_mds); codec-parametric upload_download / upload_download_any_source kept; "
              "stale_key_breaks_roundtrip shows key stability is necessary; sizes_agree / sizes_consistent / "
              "offsets_wellformed (v1 and v2) / layout_constants proved for all inputs.  Tied to the code by comparing every "
              "derived number, header bytes, parsed tables, block extents, write sequences, read(pos,len) calls and all N "
              "share data sections of real uploads.")
LEVEL_NOTE = ("Lean kernel + standard axioms (the rs256 corollaries inherit C36's use of single Mathlib modules in lemma files; "
              "models and drivers are Mathlib-free). Not verified, exercised only: that zfec's C code computes the rs256 model "
              "(byte-exact correspondence here and in C36), AES-CTR = xor with a keystream, the Twisted/foolscap plumbing that "
              "decides which k shares answer first (model: every choice `pick`), server selection (C06/C07); hash trees and the "
              "UEB hash are C02/C35.")
RULE = ("fixed corpus first (21 end-to-end cases: k=N with out-of-order block completion, tails that are mostly padding, random "
        "keys and FileName sources; independent of VERIF_SEED; VERIF_CORPUS_ONLY=1 stops here), then (a) seeded "
        "(size,k,n,maxSeg|segsize) tuples concentrated on size = 0,+-1 mod segsize, size<k, maxSeg<k, k=n, k=1, plus a malformed "
        "stream (k=0, segsize=0, segsize%k!=0, sizes around 2^32/2^64): one case = one tuple run through the real "
        "BaseUploadable/Encoder/_calculate_sizes/WriteBucketProxy(_v2)/ReadBucketProxy/Share methods; non-trivial = the "
        "encoder accepted the parameters; (b) one case = one file uploaded to and downloaded from an in-process grid (1..N+3 "
        "servers, seeded random/fifo delivery) through a seeded choice of source (Data / FileHandle / FileName / piece lists), "
        "key mode (convergence secret / None = random key) and EncryptAnUploadable.CHUNKSIZE, read back through the cap that "
        "very upload returned, plus two further source x key-mode combinations of the same bytes (and 55/56/57-byte prefixes); "
        "distinct = distinct (size,k,n,maxSeg,servers,seed,source,key mode). The encryption key is a parameter of the model "
        "(theorems quantify over all keys): the harness feeds the keystream of the key found in the returned cap")
TRUSTED = ["lean/Tahoe/Immutable/{Sizes,Layout,Pipeline,Uploadable}.lean are hand transcriptions of upload.py/encode.py/"
           "layout.py/downloader/{node,share,segmentation}.py/filenode.py (sequential read_encrypted modelled as take/drop on "
           "the remaining ciphertext; the put_* calls of one share modelled as an (offset,length) sequence)",
           "lean/Tahoe/Codec/Model.lean rs256 (C36's transcription of zfec; imported, tied to zfec byte-exactly by C36 and by "
           "the all-shares comparison here)",
           "harness/grid.py (in-process grid, seeded scheduler)"]
ASSUMPTIONS = ["the encryption key (convergent hash or os.urandom output) is an arbitrary input of the model; the round-trip "
               "theorems hold for every key, and the cap carries the key returned by the second get_encryption_key() call "
               "(hypothesis StableKey; checked on every end-to-end case by reading back through the returned cap)",
               "uploadables keep the IUploadable contract (hypothesis Supplies: get_size() is the byte count, read(length) "
               "returns the next bytes, fewer only at EOF)",
               "delivery orders are those of a fair scheduler (seeded random choice among pending messages, or FIFO): a LIFO "
               "scheduler starves old messages forever, which no network that eventually delivers every message can do; "
               "termination is C03/C46",
               "zfec's C implementation computes the rs256 model (the MDS law itself is a theorem: C36 rs256_mds)",
               "AES-CTR encryption is xor with a keystream determined by (key, counter block) (sampled end-to-end)",
               "file sizes, k, n, segment sizes are non-negative ints; files of <= 55 bytes take the LIT path (C05)",
               "servers honest and available (faults are C02/C03)"]

import os
import struct

from common import hx

EXC = {"ZeroDivisionError": "ZeroDivisionError", "AssertionError": "AssertionError",
       "FileTooLargeError": "FileTooLargeError", "LayoutInvalid": "LayoutInvalid",
       "ShareVersionIncompatible": "LayoutInvalid", "RidiculouslyLargeURIExtensionBlock": "LayoutInvalid"}


def exc_name(e):
    return EXC.get(type(e).__name__, "other:" + type(e).__name__)


def fired(d):
    """result of an already-fired Deferred (value, or the exception instance)"""
    box = []
    d.addBoth(box.append)
    assert box, "Deferred did not fire synchronously"
    from twisted.python.failure import Failure
    r = box[0]
    if isinstance(r, Failure):
        return r.value
    return r


# ----------------------------------------------------------------------------- (a) numbers

def real_segsize(size, k, n, max_seg):
    from twisted.internet import defer
    from allmydata.immutable import upload

    class Sized(upload.BaseUploadable):
        def get_size(self):
            return defer.succeed(size)
    u = Sized()
    u.set_default_encoding_parameters({"k": k, "happy": 1, "n": n, "max_segment_size": max_seg})
    r = fired(u.get_all_encoding_parameters())
    if isinstance(r, Exception):
        return r
    assert r[0] == k and r[2] == n
    return r[3]


def real_encoder(size, k, n, segsize):
    """(numbers, ueb dict) of the real Encoder, or the exception"""
    from allmydata.immutable import encode
    e = encode.Encoder()
    e.file_size = size
    try:
        e._got_all_encoding_parameters((k, 1, n, segsize))
    except Exception as ex:
        return ex, None
    nums = [e.segment_size, e.num_segments, e._get_share_size(), e._tail_codec.data_size,
            e._codec.get_block_size(), e._tail_codec.get_block_size()]
    return nums, dict(e.uri_extension_data)


class StubNode:
    segment_size = None

    def __init__(self, size, k, n):
        from allmydata import uri
        from allmydata.immutable.downloader.node import DownloadNode
        self._verifycap = uri.CHKFileVerifierURI(b"s" * 16, b"u" * 32, k, n, size)
        self._calc = DownloadNode._calculate_sizes
        self._guess = DownloadNode._build_guessed_tables
        self.default_max_segment_size = DownloadNode.default_max_segment_size

    def _calculate_sizes(self, segsize):
        return self._calc(self, segsize)


def real_calc(size, k, n, segsize):
    node = StubNode(size, k, n)
    try:
        r = node._calculate_sizes(segsize)
    except Exception as ex:
        return ex
    return [r["tail_segment_size"], r["tail_segment_padded"], r["num_segments"], r["block_size"], r["tail_block_size"]]


def fmt(x):
    if isinstance(x, Exception):
        return exc_name(x)
    return ",".join(str(v) for v in x)


def drop_tail(model_enc):
    """the encoder does not keep tail_size (a local): drop the 4th number of the model's line"""
    p = model_enc.split(",")
    if len(p) == 7:
        return ",".join(p[:3] + p[4:])
    return model_enc


def gen_tuple(rng, thorough):
    """(size, k, n, maxSeg) concentrated on the boundary classes named in the RULE"""
    r = rng.random()
    kmax = 16 if rng.random() < 0.85 else 256
    k = rng.choice([1, 1, 2, 3, 3, 4, 5, 7, 8, 13, 16, rng.randrange(1, kmax + 1)])
    n = k if rng.random() < 0.25 else rng.randrange(k, min(256, max(k, kmax)) + 1)
    max_seg = rng.choice([1, 2, 3, 5, 16, 55, 56, 64, 100, 128, 1000, 1024, 4096, 131072, 1048576,
                          rng.randrange(1, 70), rng.randrange(1, 5000)])
    if r < 0.12:
        max_seg = rng.randrange(1, k + 1)                       # maxSeg < k (or = k)
    seg = -(-min(max_seg, 10 ** 9) // k) * k
    c = rng.random()
    if c < 0.45:                                                # size ≡ 0, ±1 (mod segsize), also mod k
        m = rng.choice([1, 1, 2, 3, 4, 7, 10, rng.randrange(1, 40)])
        size = max(0, m * seg + rng.choice([-1, 0, 1, -k, k, -k + 1, k - 1]))
    elif c < 0.60:
        size = rng.randrange(0, k + 2)                          # size < k
    elif c < 0.70:
        size = rng.choice([0, 1, 55, 56, 57])
    elif c < 0.95:
        size = rng.randrange(0, 400000 if not thorough else 3000000)
    else:
        size = rng.choice([2 ** 32, 2 ** 32 - 1, 2 ** 40 + 7, 12 * 2 ** 30, 3 * 2 ** 32 - 1, 2 ** 33 + 1]) + rng.randrange(-3, 4)
    return size, k, n, max_seg


def num_share_hashes(n):
    from allmydata import hashtree
    return len(hashtree.IncompleteHashTree(n).needed_hashes(0, include_leaf=True))


def run_numbers(ctx):
    """(a): every derived number of the real classes vs the driver; model-independent monitors."""
    from allmydata.immutable import layout
    from allmydata.interfaces import FileTooLargeError
    thorough = ctx.tier == "thorough"
    cases = []
    if ctx.replay and ctx.replay.get("case", {}).get("kind") == "numbers":
        cases.append(tuple(ctx.replay["case"]["t"]))
    elif not ctx.replay:
        cases += [(0, 3, 10, 10), (1, 3, 10, 10), (55, 3, 10, 128), (56, 3, 10, 128), (56, 3, 10, 21), (57, 3, 10, 21),
                  (25, 3, 10, 10), (24, 3, 3, 12), (2, 3, 10, 1048576), (5, 7, 7, 3), (1048576, 3, 10, 1048576),
                  (1048577, 3, 10, 1048576), (3 * 1048576 - 1, 1, 1, 1048576), (2 ** 32 + 5, 1, 1, 1048576),
                  (100, 256, 256, 1), (12 * 2 ** 30, 3, 10, 131072)]
        for _ in range(ctx.budget(1500, 20000)):
            cases.append(gen_tuple(ctx.rng, thorough))
    lines, impl, metas = [], [], []
    for (size, k, n, max_seg) in cases:
        case = {"kind": "numbers", "t": [size, k, n, max_seg]}
        seg = real_segsize(size, k, n, max_seg)
        out = ["seg=" + (exc_name(seg) if isinstance(seg, Exception) else str(seg))]
        accepted = False
        if not isinstance(seg, Exception):
            enc, ueb = real_encoder(size, k, n, seg)
            dl = real_calc(size, k, n, seg)
            out.append("enc=" + fmt(enc))
            out.append("dl=" + fmt(dl))
            if not isinstance(enc, Exception):
                accepted = True
                # --- monitors written from the statement (no model involved)
                if isinstance(dl, Exception) or [dl[1], dl[2], dl[3], dl[4]] != [enc[3], enc[1], enc[4], enc[5]]:
                    ctx.violation("DownloadNode._calculate_sizes disagrees with the Encoder's numbers", case,
                                  "sizes-disagree-" + cls_of(size, k, seg), {"enc": fmt(enc), "dl": fmt(dl)})
                if size > 0 and (enc[1] - 1) * enc[4] + enc[5] != enc[2]:
                    ctx.violation("blocks of one share do not add up to share_size", case, "share-size-" + cls_of(size, k, seg))
                if not isinstance(dl, Exception) and size > 0 and (dl[2] - 1) * seg + dl[0] != size:
                    ctx.violation("segments do not tile the file", case, "segments-tile-" + cls_of(size, k, seg))
                if ueb["segment_size"] != seg or ueb["size"] != size or ueb["num_segments"] != enc[1] or \
                        ueb["codec_params"] != b"%d-%d-%d" % (seg, k, n) or ueb["tail_codec_params"] != b"%d-%d-%d" % (enc[3], k, n):
                    ctx.violation("UEB fields differ from the encoder's numbers", case, "ueb-fields")
                ctx.count("numbers:nseg=" + ("1" if enc[1] == 1 else "2" if enc[1] == 2 else "3+"))
                ctx.count("numbers:tail=" + ("full" if size % seg == 0 else "short"))
                ctx.count("numbers:padded" if enc[3] != (size % seg or seg) else "numbers:unpadded")
        lines.append("sizes %d %d %d" % (size, k, max_seg))
        impl.append(";".join(out))
        metas.append(case)
        ctx.case(("N", size, k, n, max_seg) if accepted else None)
        ctx.count("numbers:" + ("accepted" if accepted else "rejected"))
    model = ctx.model(lines)
    if model is not None:
        model = [";".join(drop_tail(f) if f.startswith("enc=") else f for f in m.split(";")) for m in model]
        ctx.compare("uploader segsize / Encoder numbers / _calculate_sizes numbers", metas, impl, model)
    ctx.sample({"numbers": metas[0], "impl": impl[0]} if metas else {})
    run_direct(ctx)
    run_layout(ctx, cases)


def cls_of(size, k, seg):
    if seg == 0:
        return "segsize0"
    if size < k:
        return "size-lt-k"
    r = size % seg
    return "tail-full" if r == 0 else "tail-1" if r == 1 else "tail-seg-1" if r == seg - 1 else "tail-other"


def run_direct(ctx):
    """encoder / downloader on directly chosen segment sizes (incl. the malformed stream) + guessed tables"""
    if ctx.replay:
        return
    rng = ctx.rng
    lines, impl, metas = [], [], []
    for _ in range(ctx.budget(500, 6000)):
        k = rng.choice([0, 1, 2, 3, 5, 8, 16])
        n = max(k, 1) if rng.random() < 0.3 else rng.randrange(max(k, 1), 20)
        seg = rng.choice([0, 0, k, 2 * k, 3 * k, 7 * k + (1 if rng.random() < 0.3 else 0), rng.randrange(0, 200)])
        size = rng.choice([0, 1, seg, seg + 1, max(0, seg - 1), 2 * seg, rng.randrange(0, 1000)])
        enc, _ = real_encoder(size, k, n, seg)
        dl = real_calc(size, k, n, seg) if k >= 1 else ZeroDivisionError()
        if k == 0:
            # CHKFileVerifierURI accepts k=0; run the real method too
            dl = real_calc(size, k, max(n, 1), seg)
        lines += ["enc %d %d %d" % (size, k, seg), "dl %d %d %d" % (size, k, seg)]
        impl += [fmt(enc), fmt(dl)]
        metas += [{"kind": "enc", "t": [size, k, n, seg]}, {"kind": "dl", "t": [size, k, n, seg]}]
        ctx.case(None)
        ctx.count("direct:" + (fmt(enc) if isinstance(enc, Exception) else "ok"))
        if isinstance(enc, Exception) != isinstance(dl, Exception):
            ctx.violation("Encoder and _calculate_sizes accept different (size,k,segsize)", metas[-1], "sizes-accept-differ")
    for _ in range(ctx.budget(200, 2000)):
        k = rng.randrange(1, 17)
        size = rng.choice([0, 1, 56, 1048575, 1048576, 1048577, 1048576 + k, rng.randrange(0, 5000000)])
        node = StubNode(size, k, k + 3)
        if size == 0:
            continue
        node._guess(node, node.default_max_segment_size)
        lines.append("guess %d %d %d" % (size, k, node.default_max_segment_size))
        impl.append(str(node.guessed_segment_size))
        metas.append({"kind": "guess", "t": [size, k]})
        ctx.case(None)
    model = ctx.model(lines)
    if model is not None:
        model = [drop_tail(m) if ln.startswith("enc ") else m for ln, m in zip(lines, model)]
        ctx.compare("Encoder._got_all_encoding_parameters / _calculate_sizes / guessed segment size on direct inputs",
                    metas, impl, model)


def show_offsets(o):
    return ",".join(str(o[f]) for f in ("data", "plaintext_hash_tree", "crypttext_hash_tree", "block_hashes",
                                         "share_hashes", "uri_extension"))


class Rec:
    def __init__(self):
        self.l = []

    def pop(self, a, b):
        self.l.append((a, b))
        return None


class FakeRref:
    def __init__(self):
        self.writes = []

    def callRemote(self, meth, *a):
        from twisted.internet import defer
        if meth == "write":
            self.writes.append((a[0], len(a[1])))
        return defer.succeed(None)


class Srv:
    def get_name(self):
        return b"x"

    def get_version(self):
        return {b"http://allmydata.org/tahoe/protocols/storage/v1": {b"tolerates-immutable-read-overrun": True}}

    def get_serverid(self):
        return b"y" * 20


def run_layout(ctx, cases):
    """WriteBucketProxy(_v2) offsets/header, make_write_bucket_proxy, reader parses, block extents, write sequence"""
    from allmydata.immutable import layout
    from allmydata.immutable.downloader.share import Share, CommonShare
    from allmydata.immutable.downloader.status import DownloadStatus
    from allmydata.util.spans import DataSpans
    rng = ctx.rng
    lines, impl, metas = [], [], []
    todo = []
    if ctx.replay and ctx.replay.get("case", {}).get("kind") == "layout":
        todo.append(tuple(ctx.replay["case"]["t"]))
    elif not ctx.replay:
        for (size, k, n, max_seg) in cases[: ctx.budget(700, 8000)]:
            if k < 1:
                continue
            seg = real_segsize(size, k, n, max_seg)
            if isinstance(seg, Exception):
                continue
            enc, _ = real_encoder(size, k, n, seg)
            if isinstance(enc, Exception):
                continue
            todo.append((size, k, n, seg, enc[2], enc[4], enc[1], num_share_hashes(n), rng.choice([0, 1, 308, 419, 1999])))
        for _ in range(ctx.budget(300, 3000)):      # free parameters incl. the v1/v2 limits
            big = rng.choice([2 ** 32, 2 ** 32 - 1, 2 ** 32 - 40, 2 ** 64, 2 ** 64 - 1, 2 ** 64 - 200, 2 ** 31, 2 ** 33])
            ds = rng.choice([0, 1, 19, big, big - rng.randrange(0, 600), rng.randrange(0, 10 ** 6)])
            bs = rng.choice([0, 1, 7, big, rng.randrange(0, 10 ** 4)])
            todo.append((None, None, None, None, ds, bs, rng.choice([1, 1, 2, 3, 4, 5, 8, 9, 1000]), rng.randrange(0, 10),
                         rng.randrange(0, 2000)))
    for t in todo:
        (size, k, n, seg, ds, bs, nseg, nsh, ueb) = t
        case = {"kind": "layout", "t": list(t)}
        for ver, cls in (("1", layout.WriteBucketProxy), ("2", layout.WriteBucketProxy_v2), ("a", None)):
            try:
                w = cls(None, None, ds, bs, nseg, nsh, ueb) if cls else \
                    layout.make_write_bucket_proxy(None, None, ds, bs, nseg, nsh, ueb)
                vname = "v1" if w.fieldsize == 4 else "v2"
                out = "%s;%s;%d;%s" % (vname, show_offsets(w._offsets), w.get_allocated_size(), hx(w._offset_data))
            except Exception as ex:
                w, out = None, exc_name(ex)
            lines.append("offsets %s %d %d %d %d %d" % (ver, ds, bs, nseg, nsh, ueb))
            impl.append(out)
            metas.append(case)
            ctx.count("layout:" + (out.split(";")[0] if w else out))
            if w is None or ver == "a":
                continue
            # --- the reader's view of the writer's header (monitor: reader's table = writer's table)
            hdr = w._offset_data
            rbp = layout.ReadBucketProxy(None, None, b"si")
            try:
                got = show_offsets(rbp._parse_offsets(hdr + b"\x00" * rng.randrange(0, 40)))
                pout = "%s;%s" % ("v%d" % rbp._version, got)
            except Exception as ex:
                got, pout = None, exc_name(ex)
            if got != show_offsets(w._offsets):
                ctx.violation("ReadBucketProxy parses a different table than the writer wrote", case, "parse-mismatch-rbp-v" + ver)
            lines.append("parse " + hx(hdr))
            impl.append(pout)
            metas.append(case)
            ctx.case(("L", ver, ds, bs, nseg, nsh))
        if size is None or size == 0 or nseg > 3000:
            continue
        # --- the new downloader's Share: guessed offsets, actual offsets, block extents
        node = StubNode(size, k, n)
        node._guess(node, node.default_max_segment_size)
        cs = CommonShare(node.guessed_num_segments, "si", 0, None)
        sh = Share(None, Srv(), node._verifycap, cs, node, DownloadStatus(b"s" * 16, size), 0, 0.0, None)
        gr = node._calculate_sizes(node.guessed_segment_size)
        lines.append("offsets a %d %d %d %d 0" % (-(-size // k), gr["block_size"], gr["num_segments"], nsh))
        vname = "v1" if sh._fieldsize == 4 else "v2"
        w0 = layout.make_write_bucket_proxy(None, None, -(-size // k), gr["block_size"], gr["num_segments"], nsh, 0)
        impl.append("%s;%s;%d;%s" % (vname, show_offsets(sh.guessed_offsets), w0.get_allocated_size(), hx(w0._offset_data)))
        metas.append(case)
        w = layout.make_write_bucket_proxy(None, None, ds, bs, nseg, nsh, ueb)
        sh._received = DataSpans()
        sh._received.add(0, w._offset_data + b"\x00" * 8)
        ok = sh._satisfy_offsets()
        if not ok or show_offsets(sh.actual_offsets) != show_offsets(w._offsets):
            ctx.violation("Share._satisfy_offsets parses a different table than the writer wrote", case, "parse-mismatch-share")
        r = node._calculate_sizes(seg)
        node.num_segments, node.block_size, node.tail_block_size = r["num_segments"], r["block_size"], r["tail_block_size"]
        rec = Rec()
        sh._received = rec
        show_n = list(range(nseg)) if nseg <= 40 else list(range(20)) + list(range(nseg - 20, nseg))
        for s in range(nseg) if nseg <= 40 else []:
            sh._satisfy_data_block(s, [])
        if nseg <= 40:
            lines.append("blocks %d %d %d %d" % (size, k, seg, w._offsets["data"]))
            impl.append(",".join("%d+%d" % x for x in rec.l))
            metas.append(case)
            # monitor: the reader's extents are exactly what put_block accepts, back to back, ending at the data section's end
            pos = w._offsets["data"]
            for s, (a, ln) in enumerate(rec.l):
                want_len = bs if s < nseg - 1 else ds - bs * (nseg - 1)
                if a != pos or ln != want_len:
                    ctx.violation("reader block extent differs from the writer's put_block extent", case,
                                  "block-extent-" + cls_of(size, k, seg), {"segnum": s, "reader": [a, ln], "writer": [pos, want_len]})
                    break
                pos += ln
            else:
                if pos != w._offsets["plaintext_hash_tree"]:
                    ctx.violation("blocks do not end at the end of the data section", case, "block-end-" + cls_of(size, k, seg))
        # --- the writer's own put_* sequence on a fake bucket (assertions = contiguity), small shares only
        if ds <= 200000 and nseg <= 40:
            fr = FakeRref()
            wb = layout.make_write_bucket_proxy(fr, Srv(), ds, bs, nseg, nsh, ueb)
            wb._write_buffer._batch_size = 1      # flush every write so that (offset, length) is observable
            try:
                fired(wb.put_header())
                for s in range(nseg):
                    fired(wb.put_block(s, b"\x00" * (bs if s < nseg - 1 else ds - bs * (nseg - 1))))
                fired(wb.put_crypttext_hashes([b"\x00" * 32] * (wb._segment_hash_size // 32)))
                fired(wb.put_block_hashes([b"\x00" * 32] * (wb._segment_hash_size // 32)))
                fired(wb.put_share_hashes([(i, b"\x00" * 32) for i in range(nsh)]))
                fired(wb.put_uri_extension(b"\x00" * ueb))
                fired(wb.close())
                seq = list(fr.writes)
                # put_uri_extension writes length field + data in one write; the zero-filled plaintext hash tree is its own write
                out = ",".join("%d+%d" % x for x in seq) + ";%d" % (seq[-1][0] + seq[-1][1])
                if seq[-1][0] + seq[-1][1] != wb.get_allocated_size():
                    ctx.violation("share does not end at get_allocated_size()", case, "allocated-size")
            except AssertionError as ex:
                out = "AssertionError"
                ctx.violation("a WriteBucketProxy assertion fails on the encoder's own sizes", case,
                              "write-assert-" + cls_of(size, k, seg), repr(ex)[:200])
            lines.append("wseq %s %d %d %d %d %d" % ("1" if wb.fieldsize == 4 else "2", ds, bs, nseg, nsh, ueb))
            impl.append(out)
            metas.append(case)
    model = ctx.model(lines)
    if model is not None:
        ctx.compare("share layout: offsets / header bytes / parse / block extents / write sequence", metas, impl, model)
    if metas:
        ctx.sample({"layout": metas[0], "impl": impl[0][:160]})


# ----------------------------------------------------------------------------- (b) end to end

def keystream(key, n):
    from allmydata.crypto import aes
    return aes.encrypt_data(aes.create_encryptor(key), b"\x00" * n)


def share_data(path):
    from allmydata.storage.immutable import ShareFile
    sf = ShareFile(path)
    return sf.read_share_data(0, sf._lease_offset - sf._data_offset)


def gen_file(rng, thorough, idx):
    """(size, k, n, happy, maxSeg, servers)"""
    fixed = [(56, 3, 10, 7, 128), (57, 3, 10, 7, 21), (63, 3, 10, 7, 21), (64, 3, 10, 7, 21), (100, 1, 1, 1, 7), (129, 2, 3, 2, 64),
             (128, 2, 3, 2, 64), (127, 2, 3, 2, 64), (1000, 7, 7, 7, 50), (200, 5, 9, 3, 3), (4096, 3, 10, 1, 1024),
             (56, 16, 16, 16, 1), (300, 4, 6, 4, 1048576), (131073, 3, 10, 7, 131072)]
    if idx < len(fixed):
        size, k, n, happy, ms = fixed[idx]
    else:
        nmax = 16 if thorough or rng.random() < 0.5 else 8
        k = rng.choice([1, 2, 3, 3, 4, 5, 8, rng.randrange(1, nmax + 1)])
        n = k if rng.random() < 0.25 else rng.randrange(k, nmax + 1)
        ms = rng.choice([1, 3, 7, 16, 21, 55, 56, 64, 100, 128, 1000, 1024, 4096, 131072, 1048576, rng.randrange(1, 300)])
        seg = -(-ms // k) * k
        c = rng.random()
        lim = 300 * 1024 if thorough else 40000
        if c < 0.5:
            size = rng.choice([1, 2, 3, 5, rng.randrange(1, 12)]) * seg + rng.choice([-1, 0, 1])
        elif c < 0.6:
            size = rng.choice([56, 57, 58, 56 + k])
        else:
            size = rng.randrange(56, lim)
        size = max(56, min(size, lim))
        # keep the number of segments (and so of remote writes) bounded
        while -(-size // seg) > (250 if thorough else 120):
            size //= 2
        size = max(56, size)
        happy = rng.randrange(1, n + 1)
    servers = rng.randrange(max(1, happy), n + 4)
    return size, k, n, min(happy, servers), ms, servers


SECRET = b"c01" + b"\x00" * 13
COMBOS = [(src, km) for src in ("Data", "FileHandle", "FileName", "ChunkLists") for km in ("convergent", "random")]
PIECE_SPECS = [[], [1], [5, 3], [7, 1, 33], [16], [4096, 17], [51200, 1]]


def split_by(d, sizes):
    """the model's `splitBy`: pieces of the cycling sizes, the rest as one piece"""
    out, sizes = [], list(sizes)
    while sizes and sizes[0] != 0 and len(d) > sizes[0]:
        out.append(d[:sizes[0]])
        d = d[sizes[0]:]
        sizes = sizes[1:] + sizes[:1]
    out.append(d)
    return out


def make_piece_source(upload):
    class PieceSource(upload.FileHandle):
        """IUploadable whose read() returns the requested bytes as a list of pieces (sizes cycling through `spec`)"""

        def __init__(self, fh, convergence, spec):
            upload.FileHandle.__init__(self, fh, convergence)
            self._spec = spec
            self.calls = []

        def read(self, length):
            from twisted.internet import defer
            self.calls.append((self._filehandle.tell(), length))
            return defer.succeed(split_by(self._filehandle.read(length), self._spec))
    return PieceSource


def make_uploadable(upload, source, keymode, data, tag, spec=()):
    """(uploadable, cleanup): the same bytes through Data / FileHandle / FileName / a piece-list source, convergent or random key"""
    import io
    import common
    conv = SECRET if keymode == "convergent" else None
    if source == "ChunkLists":
        return make_piece_source(upload)(io.BytesIO(data), conv, list(spec)), None
    if source == "Data":
        return upload.Data(data, convergence=conv), None
    if source == "FileHandle":
        return upload.FileHandle(io.BytesIO(data), convergence=conv), None
    fn = os.path.join(common.WORK, "c01-src-%s-%d" % (tag, os.getpid()))
    with open(fn, "wb") as f:
        f.write(data)
    return upload.FileName(fn, convergence=conv), fn


def roundtrip(ctx, rt, c, upload, source, keymode, data, case, what):
    """upload through (source, keymode) and read back through the cap returned by that very upload"""
    from allmydata.util.consumer import MemoryConsumer
    sig = "%s-key:%s" % (keymode, source)
    u, fn = make_uploadable(upload, source, keymode, data, "b")
    try:
        try:
            res = rt.wait(c.upload(u))
        except Exception as ex:
            ctx.violation("upload (%s, %s key) of a valid file to an honest grid failed" % (source, keymode), case,
                          "upload-failed:%s:%s" % (sig, type(ex).__name__), repr(ex)[:300])
            return None
        mc = MemoryConsumer()
        try:
            rt.wait(c.create_node_from_uri(res.get_uri()).read(mc, 0, None))
            got = b"".join(mc.chunks)
        except Exception as ex:
            ctx.violation("%s: reading back through the cap the upload returned failed" % what, case,
                          "roundtrip-failed:%s:%s" % (sig, type(ex).__name__), repr(ex)[:300])
            return res
        if got != data:
            ctx.violation("%s: bytes read back through the returned cap differ from the uploaded bytes" % what, case,
                          "roundtrip-failed:%s:wrong-bytes" % sig, {"len_got": len(got), "len_want": len(data)})
        return res
    finally:
        if fn:
            try:
                os.unlink(fn)
            except OSError:
                pass


def run_grid(ctx):
    import grid
    from allmydata.immutable import upload
    from allmydata import uri
    from allmydata.util.consumer import MemoryConsumer
    rng = ctx.rng
    thorough = ctx.tier == "thorough"
    files = []
    if ctx.replay and ctx.replay.get("case", {}).get("kind") == "file":
        files.append(tuple(ctx.replay["case"]["t"]))
    elif not ctx.replay:
        for i in range(ctx.budget(60, 1200)):
            f = gen_file(rng, thorough, i)
            files.append(f + (rng.randrange(1 << 30), rng.choice(["random", "random", "random", "fifo"])))
    lines, impl, metas = [], [], []
    for (size, k, n, happy, max_seg, servers, seed, policy) in files:
        mrng = __import__("random").Random("c01-src-%d" % seed)
        source, keymode = mrng.choice(COMBOS)
        case = {"kind": "file", "t": [size, k, n, happy, max_seg, servers, seed, policy], "source": source, "keymode": keymode}
        drng = __import__("random").Random(seed)
        data = bytes(drng.randrange(256) for _ in range(min(size, 4096)))
        data = (data * (size // max(1, len(data)) + 1))[:size]
        with grid.Runtime(seed=seed, policy=policy) as rt:
            g = grid.Grid(grid.fresh_dir("c01"), rt, num_servers=servers, num_clients=1, k=k, happy=happy, n=n,
                          max_segment_size=max_seg)
            try:
                c = g.clients[0]
                spec = mrng.choice(PIECE_SPECS)
                chunk = mrng.choice([51200, 51200, 7, 64, 1000, 4096])
                while size // chunk > 200:
                    chunk *= 8
                u_main, fn_main = make_uploadable(upload, source, keymode, data, "a", spec)
                saved_chunk = upload.EncryptAnUploadable.CHUNKSIZE
                upload.EncryptAnUploadable.CHUNKSIZE = chunk
                try:
                    res = rt.wait(c.upload(u_main))
                except Exception as ex:
                    ctx.violation("upload of a valid file to an honest grid failed", case,
                                  "upload-failed:%s-key:%s:%s" % (keymode, source, type(ex).__name__), repr(ex)[:300])
                    continue
                finally:
                    upload.EncryptAnUploadable.CHUNKSIZE = saved_chunk
                    if fn_main:
                        try:
                            os.unlink(fn_main)
                        except OSError:
                            pass
                ctx.count("grid:source=%s,%s-key" % (source, keymode))
                cap = uri.from_string(res.get_uri())
                ueb = res.get_uri_extension_data()
                if (cap.needed_shares, cap.total_shares, cap.size) != (k, n, size):
                    ctx.violation("cap fields differ from the upload parameters", case, "cap-fields")
                # --- model comparison 1: numbers in the UEB
                lines.append("sizes %d %d %d" % (size, k, max_seg))
                enc_nums = [ueb["segment_size"], ueb["num_segments"], -(-size // k),
                            int(ueb["tail_codec_params"].split(b"-")[0]), int(ueb["codec_params"].split(b"-")[0]) // k,
                            int(ueb["tail_codec_params"].split(b"-")[0]) // k]
                impl.append("U;" + ",".join(map(str, enc_nums)))
                metas.append(case)
                # --- model comparison 2: share files (allocated size, parsed header, data sections of the primary shares)
                shares = g.share_files(cap.get_storage_index())
                by_num = {}
                for (srv, shnum, path) in shares:
                    by_num.setdefault(shnum, share_data(path))
                if by_num and sorted(by_num) != list(range(n)):
                    ctx.violation("not every share number was placed", case, "shares-missing")
                if not by_num:
                    ctx.violation("no share is stored under the storage index of the returned cap", case,
                                  "cap-si-has-no-shares:%s-key:%s" % (keymode, source))
                    ks = keystream(cap.key, size)
                else:
                    ueb_len = len(uri.pack_extension(ueb))
                    nsh = num_share_hashes(n)
                    lines.append("offsets a %d %d %d %d %d" % (enc_nums[2], enc_nums[4], enc_nums[1], nsh, ueb_len))
                    sd0 = by_num[min(by_num)]
                    hdrlen = 0x24 if sd0[:4] == b"\x00\x00\x00\x01" else 0x44
                    impl.append("F;%d;%s" % (len(sd0), hx(sd0[:hdrlen])))
                    metas.append(case)
                    if len({len(v) for v in by_num.values()}) != 1:
                        ctx.violation("shares of one file have different lengths", case, "share-lengths-differ")
                    ks = keystream(cap.key, size)
                    if source == "ChunkLists":
                        lines.append("sharesvia %d %d %d %s %s %s" % (k, max_seg, chunk, hx(ks), hx(data),
                                                                      ",".join(map(str, spec)) or "-"))
                    else:
                        lines.append("shares %d %d %s %s" % (k, max_seg, hx(ks), hx(data)))
                    datastart = struct.unpack(">L", sd0[0x0c:0x10])[0] if hdrlen == 0x24 else struct.unpack(">Q", sd0[0x14:0x1c])[0]
                    prim = [by_num[j][datastart:datastart + enc_nums[2]] for j in range(k) if j in by_num]
                    impl.append("S;" + ",".join(hx(p) for p in prim))
                    metas.append(case)
                    # every one of the N shares against zfec's code as transcribed by C36 (rs256Codec), and the model's
                    # own download through that code; small files only (the model's GF arithmetic is list based)
                    if size <= 3000 and sorted(by_num) == list(range(n)):
                        lines.append("sharesrs %d %d %d %s %s" % (k, n, max_seg, hx(ks), hx(data)))
                        impl.append("RS;" + ",".join(hx(by_num[j][datastart:datastart + enc_nums[2]]) for j in range(n)) + ";" + hx(data))
                        metas.append(case)
                # --- monitor: download with the returned cap gives the uploaded bytes (seeded delivery order)
                node = c.create_node_from_uri(res.get_uri())
                mc = MemoryConsumer()
                try:
                    rt.wait(node.read(mc, 0, None))
                    got = b"".join(mc.chunks)
                except Exception as ex:
                    got = None
                    ctx.violation("reading back through the cap the upload returned failed", case,
                                  "roundtrip-failed:%s-key:%s:%s" % (keymode, source, type(ex).__name__), repr(ex)[:300])
                if got is not None and got != data:
                    ctx.violation("downloaded bytes differ from the uploaded bytes", case,
                                  "roundtrip-" + cls_of(size, k, ueb["segment_size"]),
                                  {"len_got": len(got), "len_want": len(data),
                                   "first_diff": next((i for i, (a, b) in enumerate(zip(got, data)) if a != b), min(len(got), len(data)))})
                # the model's own round trip on the same plaintext (systematic code, rotated share order)
                if size <= 6000:
                    lines.append("updown %d %d %s %s %d" % (k, max_seg, hx(ks), hx(data), seed % 17))
                    impl.append("D;" + hx(got if got is not None else b""))
                    metas.append(case)
                # --- the other ways of uploading (source x convergent/random key), sizes at the literal boundary and this
                #     file's own size: each read back through the cap returned by that very upload
                others = [cb for cb in COMBOS if cb != (source, keymode)]
                for (src2, km2) in (others if thorough else mrng.sample(others, 2)):
                    size2 = mrng.choice([size, size, 56, 57, 55, max(56, size - 1)])
                    data2 = data[:size2] if size2 <= size else (data * (size2 // max(1, size) + 1))[:size2]
                    case2 = dict(case, other=[src2, km2, size2])
                    if roundtrip(ctx, rt, c, upload, src2, km2, data2, case2, "upload via %s with a %s key" % (src2, km2)) is not None:
                        ctx.case(("F2", size2, k, n, max_seg, src2, km2, seed))
                        ctx.count("grid:other=%s,%s-key" % (src2, km2))
                ctx.case(("F", size, k, n, max_seg, servers, seed))
                ctx.count("grid:k=%s" % ("1" if k == 1 else "n" if k == n else "mid"))
                ctx.count("grid:nseg=%s" % ("1" if ueb["num_segments"] == 1 else "2-9" if ueb["num_segments"] < 10 else "10+"))
                ctx.count("grid:servers%sn" % ("<" if servers < n else "=" if servers == n else ">"))
                ctx.count("grid:policy=" + policy)
                ctx.count("grid:tail=" + cls_of(size, k, ueb["segment_size"]))
            finally:
                g.close()
    model = ctx.model(lines)
    if model is not None:
        m2 = []
        for ln, m, im in zip(lines, model, impl):
            if ln.startswith("sizes "):
                f = dict(x.split("=", 1) for x in m.split(";"))
                m2.append("U;" + drop_tail(f.get("enc", "?")))
            elif ln.startswith("offsets "):
                p = m.split(";")
                m2.append("F;%s;%s" % (p[2], p[3]) if len(p) == 4 else "F;" + m)
            elif ln.startswith("sharesrs "):
                m2.append("RS;" + m)
            elif ln.startswith("shares ") or ln.startswith("sharesvia "):
                m2.append("S;" + m.split(";")[0])
            else:
                m2.append("D;" + m)
        ctx.compare("end-to-end: UEB numbers / share length + header bytes / primary share data sections / round trip",
                    metas, impl, m2)
    if metas:
        ctx.sample({"file": metas[0], "impl": impl[0]})


# fixed corpus: (what, size, k, n, maxSeg, servers, policy, grid seed, source, key mode)
CORPUS = [
    # all k blocks of a segment are primary shares (k = N) and complete out of share-number order (seeded C01-a)
    ("k=N-out-of-order", 300, 2, 2, 30, 2, "random", 11, "Data", "convergent"),
    ("k=N-out-of-order", 300, 3, 3, 30, 3, "random", 12, "Data", "convergent"),
    ("k=N-out-of-order", 300, 3, 3, 30, 3, "random", 13, "FileHandle", "convergent"),
    ("k=N-out-of-order", 400, 4, 4, 40, 4, "random", 14, "Data", "convergent"),
    ("k=N-one-server", 300, 3, 3, 30, 1, "random", 15, "Data", "convergent"),
    ("k=N-fifo", 300, 3, 3, 30, 3, "fifo", 16, "Data", "convergent"),
    ("k=N-out-of-order", 200, 5, 5, 25, 7, "random", 17, "Data", "random"),
    # tail segment so short that whole blocks of it are padding (seeded C01-b)
    ("tail=1,k=2", 65, 2, 3, 64, 3, "random", 21, "Data", "convergent"),
    ("tail=1,k=3", 61, 3, 5, 30, 5, "random", 22, "Data", "convergent"),
    ("tail=2,k=3", 62, 3, 5, 30, 5, "fifo", 23, "Data", "convergent"),
    ("tail=4,k=3", 64, 3, 5, 30, 5, "random", 24, "Data", "convergent"),
    ("single-segment,16-of-16", 100, 16, 16, 1048576, 16, "random", 25, "Data", "convergent"),
    ("single-segment,10-of-12", 61, 10, 12, 1048576, 12, "random", 26, "Data", "convergent"),
    ("tail=30,7-of-10", 100, 7, 10, 70, 10, "random", 27, "Data", "convergent"),
    ("size=56,k=8", 56, 8, 9, 1048576, 9, "random", 28, "FileHandle", "convergent"),
    # random key (convergence=None) / every stock source; the cap must carry the key the shares were encrypted under (C01-c)
    ("random-key", 56, 3, 10, 1048576, 10, "random", 31, "Data", "random"),
    ("random-key", 300, 3, 5, 64, 5, "random", 32, "FileHandle", "random"),
    ("random-key", 1000, 2, 3, 128, 3, "fifo", 33, "FileName", "random"),
    ("random-key", 57, 1, 1, 16, 1, "random", 34, "ChunkLists", "random"),
    ("filename-with-secret", 300, 3, 5, 64, 5, "random", 35, "FileName", "convergent"),
    ("filename-with-secret", 56, 1, 2, 1048576, 2, "random", 36, "FileName", "convergent"),
]


def run_corpus(ctx):
    """one minimal end-to-end case per known mechanism, independent of VERIF_SEED: upload, then read back through the cap
    that very upload returned (monitor straight from the statement)"""
    import grid
    from allmydata.immutable import upload
    for (what, size, k, n, max_seg, servers, policy, seed, source, keymode) in CORPUS:
        data = bytes((i * 7 + (i >> 5) * 13 + seed) % 256 for i in range(size))
        case = {"kind": "corpus", "what": what, "t": [size, k, n, max_seg, servers, policy, seed], "source": source, "keymode": keymode}
        with grid.Runtime(seed=seed, policy=policy) as rt:
            g = grid.Grid(grid.fresh_dir("c01c"), rt, num_servers=servers, num_clients=1, k=k, happy=1, n=n, max_segment_size=max_seg)
            try:
                c = g.clients[0]
                # three reads of the same cap under the continuing seeded schedule: different block completion orders
                res = roundtrip(ctx, rt, c, upload, source, keymode, data, case, "corpus (%s)" % what)
                if res is not None and what.startswith("k=N"):
                    from allmydata.util.consumer import MemoryConsumer
                    for rep in range(3):
                        mc = MemoryConsumer()
                        try:
                            rt.wait(c.nodemaker._create_immutable(__import__("allmydata.uri", fromlist=["x"]).from_string(res.get_uri())).read(mc, 0, None))
                            if b"".join(mc.chunks) != data:
                                ctx.violation("corpus (%s): repeated read returns wrong bytes" % what, case, "roundtrip-failed:reread:wrong-bytes")
                        except Exception as ex:
                            ctx.violation("corpus (%s): reading back through the returned cap failed" % what, case,
                                          "roundtrip-failed:reread:" + type(ex).__name__, repr(ex)[:300])
                ctx.case(("C", what, size, k, n, max_seg, servers, policy, seed, source, keymode))
                ctx.count("corpus:" + what.split(",")[0])
            finally:
                g.close()


def run(ctx):
    import common
    common.setup_impl_path()
    import grid  # noqa: F401  (disables the CPU thread pool before zfec is used)
    if not ctx.replay or ctx.replay.get("case", {}).get("kind") == "corpus":
        run_corpus(ctx)
    if os.environ.get("VERIF_CORPUS_ONLY"):
        return
    kind = ctx.replay.get("case", {}).get("kind") if ctx.replay else None
    if kind in (None, "numbers", "layout", "enc", "dl", "guess"):
        run_numbers(ctx)
    if kind in (None, "file"):
        run_grid(ctx)
