"""C39 — SFTP writes are never lost to the background download
(frontends/sftpd.py: OverwriteableFileConsumer, GeneralSFTPFile)."""
import os
import tempfile

ID = "C39"
LEAN_PROPS = "Tahoe.Props.C39"
DRIVER = "C39"
GENERATED = []
SOURCES = ["src/allmydata/frontends/sftpd.py"]
DESIGN_REF = "DESIGN.md §2 C39"
TECHNIQUE = ("Lean 4 refinement theorems over two executable models: the step function of OverwriteableFileConsumer (download chunks, "
             "overwrite, set_current_size, read, download_done, eventual-queue turns, close) and the request queue / has_changed / "
             "close-commit logic of GeneralSFTPFile above it; differential correspondence of whole event histories against the real "
             "class over a real temporary file, and of real GeneralSFTPFile handles on an in-process grid against the handle model")
LEVEL_TEXT = ("Proved in Lean for the code as it is in /repo (fixes 59fffcf overwrite-merge and d9a6762 setAttrs/has_changed included), "
              "for every allowed history and every chunking of the download: refines_reference / final_file_is_reference (every completed "
              "read and, once the download is done, the temporary file equal the reference byte array), client_write_beats_later_download, "
              "reference_frozen_while_read_pending, reads_answered_once_done, and at handle level handle_close_commits_writes_and_size_changes "
              "(from handle_close_commits_reference: a successful close stores exactly the reference whenever a write or size change was "
              "accepted, wherever close falls relative to the start of the download). `decide`d counterexamples for the earlier code and the "
              "seeded variants: asIs_clobbers_client_write_counterexample, seedE_pipelined_close_loses_write_counterexample, "
              "preFix_size_change_only_not_stored_counterexample. Both models are tied to frontends/sftpd.py by correspondence after every event.")
LEVEL_NOTE = ("Lean kernel + standard axioms (propext, Classical.choice, Quot.sound); models hand-written, tied by correspondence. "
              "Hypotheses of the theorems: the caller contract in read()'s docstring (no overwrite / size change while a read is pending, "
              "none after close) and download_done(bytes) only after the last chunk. Reads are proved against the reference at completion "
              "time; that this is the reference at issue time uses reference_frozen_while_read_pending plus the (unproved, by inspection) fact "
              "that a read stays queued from issue to completion. Outside the models: two pending reads with the same milestone index "
              "(heapq compares Deferreds -> TypeError on Python 3), GeneralSFTPFile.readChunk (it drops the consumer's Deferred, so a write "
              "queued after a pending read is seen by that read), FXF_APPEND, abandon/rename, the directory update of the commit.")
RULE = ("a fixed corpus first (independent of VERIF_SEED; VERIF_CORPUS_ONLY=1 runs only it): one minimal history per repaired defect and "
        "seeded change; then seeded histories (<=20 events quick, plus drain) of download chunks of random sizes / overwrite / "
        "set_current_size / read / download_done / eventual-queue turn / close against a real OverwriteableFileConsumer over "
        "tempfile.TemporaryFile (every 4th history again over EncryptedTemporaryFile, monitor only); a case is one event; distinct = "
        "distinct (internal state before, event) pairs; non-trivial = the overwrites heap is non-empty or a read is pending when the "
        "event is applied; plus real GeneralSFTPFile handles on the in-process grid (existing immutable and mutable files opened "
        "read/write without TRUNC/CREAT): a fixed corpus of pipelined open/write/close and size-change-only histories with 0/1/3/all "
        "scheduler steps between requests and a random family drawing the number of scheduler steps between requests — stored contents "
        "after a successful close must equal the reference; has_changed after every event, close outcome and committed contents are "
        "compared with the handle model (driver command c39h)")
TRUSTED = ["lean/Tahoe/Sftp/Consumer.lean is a hand transcription of OverwriteableFileConsumer (heapq heaps as sorted lists, "
           "eventually() as a FIFO queue flushed by an explicit event, the while loop of write() with fuel = heap length)",
           "the temporary file is modelled as a POSIX regular file (write/truncate past the end zero-fill)",
           "lean/Tahoe/Sftp/Handle.lean is a hand transcription of GeneralSFTPFile's async_ queue, has_changed and close/_commit "
           "(the upload is one atomic read of the temporary file); harness/grid.py (in-process grid) and the observation wrappers "
           "around OverwriteableFileConsumer.__init__/write/download_done/get_file in harness/props/c39.py"]
ASSUMPTIONS = ["the caller performs no overwrite / set_current_size while a read's Deferred is unfired (read() docstring); "
               "GeneralSFTPFile.readChunk itself does not honour this (outside C39's anchors, reported)",
               "the producer delivers the original contents in order, and download_done(bytes) is only called by the download after "
               "it delivered everything (GeneralSFTPFile.open wiring)",
               "no two simultaneously pending reads have the same milestone index (otherwise heapq raises TypeError — noted, unmodelled)",
               "the upload at commit reads the temporary file atomically (after done_status is success no download write changes it: Inv.D)"]


# ----------------------------------------------------------------------------- driving the real class

def _turn():
    """one turn of foolscap's eventual queue (what reactor.callLater(0, q._turn) would do)"""
    import foolscap.eventual as ev
    q = ev._theSimpleQueue
    t = q._timer
    q._turn()
    if t is not None and t.active():
        t.cancel()


def _queue_empty():
    import foolscap.eventual as ev
    return not ev._theSimpleQueue._events


class Producer:
    def __init__(self):
        self.resumed = 0

    def resumeProducing(self):
        self.resumed += 1

    def pauseProducing(self):
        pass

    def stopProducing(self):
        pass


class Run:
    """One real OverwriteableFileConsumer plus the statement-level reference of the property."""

    def __init__(self, orig, enc=False):
        from allmydata.frontends.sftpd import OverwriteableFileConsumer
        from allmydata.util.fileutil import EncryptedTemporaryFile
        while not _queue_empty():
            _turn()
        self.orig = orig
        self.c = OverwriteableFileConsumer(len(orig), EncryptedTemporaryFile if enc else tempfile.TemporaryFile)
        self.c.registerProducer(Producer(), True)
        self.pos = 0
        self.ref = bytearray(orig)        # the property's reference: original + client operations in order
        self.nreads = 0
        self.unfired = {}                 # id -> (expected, off, len)
        self.completed = []               # (id, kind, data) in completion order, drained per step
        self.failed_download = False
        self.closed = False
        self.problems = []                # (signature, text)
        self.final_checks = 0

    # -- observation
    def file_bytes(self):
        f = self.c.get_file()
        f.seek(0)
        return f.read()

    def show(self):
        from twisted.python.failure import Failure
        c = self.c
        from common import hx
        file = "closed" if c.is_closed else hx(self.file_bytes())
        ds = c.done_status
        done = "run" if ds is None else ("failed" if isinstance(ds, Failure) else "ok")
        outs = []
        for (i, kind, data) in self.completed:
            outs.append("%d=%s" % (i, hx(data) if kind == "data" else kind))
        self.completed = []
        return "|".join([file, "%d,%d,%d" % (c.downloaded, c.download_size, c.current_size),
                         ",".join("%d+%d" % x for x in sorted(c.overwrites)) or "-",
                         ",".join(str(x) for x in sorted(m[0] for m in c.milestones)) or "-",
                         done, ",".join(outs) or "-"])

    def internal_key(self):
        c = self.c
        return (c.downloaded, c.download_size, c.current_size, tuple(sorted(c.overwrites)),
                tuple(sorted(m[0] for m in c.milestones)), c.done_status is None)

    def reads_pending(self):
        return bool(self.unfired)

    # -- events
    def _read_done(self, res, rid):
        from twisted.python.failure import Failure
        exp, off, ln = self.unfired.pop(rid)
        if isinstance(res, Failure):
            if res.check(EOFError):
                kind, data = "eof", b""
            else:
                kind, data = "fail", b""
        else:
            kind, data = "data", bytes(res)
        self.completed.append((rid, kind, data))
        # monitor: a completed read equals the reference as it was when the read was issued
        if kind == "fail":
            if not (self.failed_download or self.closed):
                self.problems.append(("read-failed-without-download-failure",
                                      "read %d (%d,%d) failed: %r" % (rid, off, ln, res)))
        elif exp is None:
            if kind != "eof":
                self.problems.append(("read-past-eof-returned-data", "read %d (%d,%d) -> %r" % (rid, off, ln, data)))
        else:
            if kind == "eof":
                self.problems.append(("read-eof-inside-file", "read %d (%d,%d) -> EOF, reference %r" % (rid, off, ln, exp)))
            elif data != exp:
                self.problems.append((self.classify(data, exp, off), "read %d (%d,%d) -> %r, reference %r" % (rid, off, ln, data, exp)))
        return None

    def classify(self, got, exp, base):
        """signature of a content difference, by a predicate on the differing positions"""
        if len(got) != len(exp):
            return "length-differs-from-reference"
        for i, (a, b) in enumerate(zip(got, exp)):
            if a != b:
                p = base + i
                if p < len(self.orig) and a == self.orig[p]:
                    return "download-clobbers-client-write"
                return "bytes-differ-from-reference"
        return "bytes-differ-from-reference"

    def apply(self, tok):
        from twisted.python.failure import Failure
        from common import unhx
        c = self.c
        p = tok.split(":")
        if p[0] == "k":
            data = self.orig[self.pos:self.pos + int(p[1])]
            self.pos += len(data)
            c.write(data)
        elif p[0] == "w":
            off, data = int(p[1]), unhx(p[2])
            c.overwrite(off, data)
            if off > len(self.ref):
                self.ref.extend(b"\x00" * (off - len(self.ref)))
            self.ref[off:off + len(data)] = data
        elif p[0] == "s":
            n = int(p[1])
            c.set_current_size(n)
            if n <= len(self.ref):
                del self.ref[n:]
            else:
                self.ref.extend(b"\x00" * (n - len(self.ref)))
        elif p[0] == "r":
            off, ln = int(p[1]), int(p[2])
            rid = self.nreads
            self.nreads += 1
            exp = bytes(self.ref[off:off + ln]) if off < len(self.ref) else None
            self.unfired[rid] = (exp, off, ln)
            d = c.read(off, ln)
            d.addBoth(self._read_done, rid)
        elif p[0] == "d":
            if p[1] == "1":
                c.download_done(b"download finished")
            else:
                self.failed_download = True
                c.download_done(Failure(RuntimeError("download failed")))
        elif p[0] == "f":
            _turn()
        elif p[0] == "c":
            self.closed = True
            c.close()
        else:
            raise ValueError(tok)

    def check_final(self):
        """the contents that would be uploaded: GeneralSFTPFile.close uploads the whole temporary file once
        when_done() has fired with a non-Failure status, so from then on (until close) the file must equal
        the reference after every event"""
        if self.closed or self.failed_download or not isinstance(self.c.done_status, bytes):
            return
        self.final_checks += 1
        got = self.file_bytes()
        if got != bytes(self.ref):
            self.problems.append((self.classify(got, bytes(self.ref), 0),
                                  "final file %r, reference %r" % (got, bytes(self.ref))))


# ----------------------------------------------------------------------------- generation

CHUNKS = [1, 1, 2, 3, 5, 8, 16, 64]


def gen_event(rng, run):
    """next event, chosen from the statement-level situation (client ops only while no read is pending)"""
    from common import hx
    c = run.c
    cs = len(run.ref)
    r = rng.random()
    pending = run.reads_pending()
    if pending:
        if r < 0.55:
            return "k:%d" % rng.choice(CHUNKS)
        if r < 0.9:
            return "f"
        if r < 0.93 and run.pos >= len(run.orig):
            return "d:1"
        if r < 0.95:
            return "d:0"
        # another read while one is pending is allowed, with a different milestone index
        for _ in range(4):
            off = rng.randrange(0, cs + 2)
            ln = rng.choice([0, 1, 2, 5, 9, 30])
            if off >= cs:
                continue
            needed = min(min(off + ln, cs), c.download_size)
            if needed not in [m[0] for m in c.milestones]:
                return "r:%d:%d" % (off, ln)
        return "f"
    if r < 0.3:
        return "k:%d" % rng.choice(CHUNKS)
    if r < 0.62:
        off = rng.randrange(0, cs + 1) if rng.random() < 0.85 else cs + rng.randrange(1, 9)
        ln = rng.choice([0, 1, 1, 2, 3, 5, 10, 12])
        data = bytes(rng.randrange(0x80, 0x100) for _ in range(ln))
        return "w:%d:%s" % (off, hx(data))
    if r < 0.74:
        return "s:%d" % (rng.randrange(0, cs + 1) if rng.random() < 0.6 else cs + rng.randrange(0, 11))
    if r < 0.92:
        return "r:%d:%d" % (rng.randrange(0, cs + 3), rng.choice([0, 1, 2, 5, 9, 30, 100]))
    if r < 0.97:
        return "f"
    if run.pos >= len(run.orig):
        return "d:1"
    return "d:0" if rng.random() < 0.15 else "k:%d" % rng.choice(CHUNKS)


def gen_drain(rng, run):
    """deliver the rest of the download in random chunks, report completion, run the eventual queue"""
    evs = []
    left = len(run.orig) - run.pos
    while left > 0:
        n = min(left, rng.choice(CHUNKS))
        evs.append("k:%d" % n)
        left -= n
        if rng.random() < 0.2:
            evs.append("f")
    evs += ["d:1", "f"]
    return evs


ORIG20 = "4142434445464748494a4b4c4d4e4f5051525354"

# Fixed corpus: runs first, independent of VERIF_SEED; one minimal history per known mechanism (every seeded
# change and every defect repaired in /repo), so that re-introducing any of them is caught here, not by luck.
CORPUS = [
    # fix 59fffcf (write(): merge loop took `end = end1`) and seeded C39-a (merge loop takes the end of the last popped
    # region): overwrite [0,10), nested overwrite [2,5), then the whole download in one chunk
    (ORIG20, ["w:0:78787878787878787878", "w:2:797979", "k:20", "d:1", "f"]),
    # same, with a read of the damaged region pending while the download arrives
    (ORIG20, ["w:0:78787878787878787878", "w:2:797979", "r:4:8", "k:7", "k:13", "f", "d:1", "f"]),
    # C39-a, second shape: [5,18) then nested [8,10), download in small chunks
    (ORIG20, ["w:5:c0c1c2c3c4c5c6c7c8c9cacbcc", "w:8:d0d1", "k:6", "k:3", "k:4", "k:7", "d:1", "f"]),
    # seeded C39-b (set_current_size prunes heap entries that straddle the new EOF): write [10,15) ahead of the download,
    # truncate to 12 (inside the write, above `downloaded`), download the rest; then the same with a re-extension
    (ORIG20, ["k:4", "w:10:8081828384", "s:12", "k:3", "k:13", "d:1", "f"]),
    (ORIG20, ["w:10:8081828384", "s:12", "s:18", "k:5", "r:0:18", "k:15", "f", "d:1", "f"]),
    # seeded C39-c (overwrite() forgets a region that straddles the download frontier: start < downloaded < end)
    (ORIG20, ["k:6", "w:4:c8c9cacbcc", "k:3", "f", "k:40", "d:1", "f"]),
    # ... and a zero-extension (set_current_size -> overwrite) that straddles nothing but starts at the frontier
    ("41424344454647484950", ["w:14:f0f1", "k:3", "w:2:e0e1e2e3", "k:2", "k:5", "d:1", "f"]),
    ("-", ["w:3:9091", "r:0:9", "s:1", "k:1", "d:1", "f"]),
]


def execute(ctx, orig, evs, enc=False, gen=None, count=True):
    """Run `evs` (or generate with `gen(run)` until it returns None) on the real class.
    Returns (events, per-step output strings, run)."""
    run = Run(orig, enc)
    outs = []
    done_evs = []
    it = iter(evs) if evs is not None else None
    while True:
        tok = next(it, None) if it is not None else gen(run)
        if tok is None:
            break
        key = run.internal_key()
        nontrivial = bool(key[3]) or run.reads_pending()
        run.apply(tok)
        run.check_final()
        outs.append(run.show())
        done_evs.append(tok)
        if count:
            ctx.case((key, tok) if nontrivial else None)
            ctx.count("ev:" + tok[0])
    return done_evs, outs, run


def one_history(ctx, rng, orig, nbody, tail):
    """online generation: body, then either drain+final check or an early close"""
    state = {"n": 0, "phase": "body", "queue": []}

    def gen(run):
        if state["queue"]:
            return state["queue"].pop(0)
        if state["phase"] == "body":
            if state["n"] < nbody:
                state["n"] += 1
                return gen_event(rng, run)
            if tail == "close-early":
                state["phase"] = "end"
                state["queue"] = ["f", "k:4", "f"]
                return "c"
            state["phase"] = "drained"
            state["queue"] = gen_drain(rng, run)
            return state["queue"].pop(0)
        if state["phase"] == "drained":
            state["phase"] = "end"
            if tail == "close":
                state["queue"] = ["k:2", "f"]
                return "c"
            return None
        return None

    return execute(ctx, orig, None, gen=gen)


def report(ctx, orig_hex, evs, run, enc):
    ctx.count("final-file-checks", run.final_checks)
    for (sig, text) in run.problems[:1]:
        ctx.violation("OverwriteableFileConsumer differs from the reference byte array: " + text,
                      {"orig": orig_hex, "evs": evs, "enc": enc}, sig, detail=[t for _, t in run.problems[:5]])
    while not _queue_empty():
        _turn()


# ----------------------------------------------------------------------------- the SFTP handle (GeneralSFTPFile) on a real grid

def pattern(n, salt):
    return bytes((i * 7 + salt) % 251 for i in range(n))


# Fixed corpus of pipelined handle histories (independent of VERIF_SEED).  A history is a token list:
#   W:off:hex (writeChunk)  S:n (setAttrs size)  R:off:len (readChunk, awaited)  G:n (n scheduler steps; G:q = until quiescent)
# the handle is opened on an EXISTING file for read/write without FXF_TRUNC/FXF_CREAT before the first token and closed
# (close awaited) after the last.  seeded C39-e: has_changed set only when the queued write runs -> a close that arrives
# before get_best_readable_version() fired skips the commit.
HANDLE_CORPUS = []
for _mut in (False, True):
    for _g in ("0", "1", "3", "q"):
        HANDLE_CORPUS.append({"mutable": _mut, "size": 300, "toks": ["W:100:" + (b"CLIENT".hex() * 5), "G:" + _g]})
    HANDLE_CORPUS.append({"mutable": _mut, "size": 300, "toks": ["G:0", "W:10:aaab", "G:0", "W:290:" + "cd" * 30, "G:0", "S:250", "G:0"]})
    HANDLE_CORPUS.append({"mutable": _mut, "size": 300, "toks": ["G:3", "W:0:" + "ee" * 70, "G:1", "R:60:20", "W:65:f0f1", "G:2"]})
    # only size changes, no writeChunk (before fix d9a6762 setAttrs did not set has_changed and close skipped the commit)
    HANDLE_CORPUS.append({"mutable": _mut, "size": 300, "toks": ["S:100", "G:q"]})
    HANDLE_CORPUS.append({"mutable": _mut, "size": 300, "toks": ["G:q", "S:400", "G:1"]})
    HANDLE_CORPUS.append({"mutable": _mut, "size": 200, "toks": ["W:150:" + "99" * 20, "G:q", "S:120", "G:0", "S:260", "W:5:0102", "G:1"]})


def gen_handle(rng):
    size = rng.choice([0, 1, 70, 200, 300, 520])
    eager = rng.random() < 0.5
    gaps = ["0", "0", "0", "1", "2"] if eager else ["0", "0", "1", "2", "3", "5", "8", "20", "60", "q"]
    toks = ["G:" + rng.choice(gaps)]
    cur = size
    n = rng.randrange(1, 13)
    wrote = False
    for i in range(n):
        r = rng.random()
        if r < 0.6 or (i == n - 1 and not wrote and rng.random() < 0.8):
            off = rng.randrange(0, cur + 30)
            data = bytes(rng.randrange(0x80, 0x100) for _ in range(rng.choice([1, 2, 5, 40, 130])))
            toks.append("W:%d:%s" % (off, data.hex()))
            cur = max(cur, off + len(data))
            wrote = True
        elif r < 0.8:
            cur = rng.randrange(0, cur + 100)
            toks.append("S:%d" % cur)
        elif cur > 0:
            toks.append("R:%d:%d" % (rng.randrange(0, cur), rng.choice([1, 10, 100, 600])))
        toks.append("G:" + rng.choice(gaps))
    return {"mutable": rng.random() < 0.5, "size": size, "toks": toks}


def run_handles(ctx, plans, label, hcases, himpl, hlines):
    """Drive real GeneralSFTPFile handles (real OverwriteableFileConsumer / EncryptedTemporaryFile) on the in-process grid.
    Monitor: every awaited read equals the reference; if close reports success the contents stored in the grid equal the
    reference (old contents with the client's writes and size changes applied in order)."""
    import grid
    from twisted.conch.ssh.filetransfer import FXF_READ, FXF_WRITE
    from twisted.python.failure import Failure
    from allmydata.immutable import upload
    from allmydata.mutable.publish import MutableData
    from allmydata.util.consumer import MemoryConsumer
    from allmydata.frontends import sftpd
    base = grid.fresh_dir("c39h")
    # observation hooks on the consumer class (behaviour unchanged): the order of the download-side calls relative to the
    # client's requests is what the handle model (lean/Tahoe/Sftp/Handle.lean, driver command c39h) is run on
    OFC = sftpd.OverwriteableFileConsumer
    saved = {k: OFC.__dict__[k] for k in ("__init__", "write", "download_done", "get_file")}
    trace = {"toks": None, "flags": None, "f": None}

    def note(tok):
        if trace["toks"] is not None:
            trace["toks"].append(tok)
            trace["flags"].append("1" if trace["f"] is not None and trace["f"].has_changed else "0")

    def w_init(self, *a, **k):
        saved["__init__"](self, *a, **k)
        note("st")

    def w_write(self, data):
        saved["write"](self, data)
        note("k:%d" % len(data))

    def w_done(self, res):
        saved["download_done"](self, res)
        if res == b"download finished":
            note("d:1")
        elif isinstance(res, Failure):
            note("d:0")

    def w_get_file(self):
        note("t")
        return saved["get_file"](self)
    OFC.__init__, OFC.write, OFC.download_done, OFC.get_file = w_init, w_write, w_done, w_get_file
    try:
        with grid.Runtime(seed=0 if label == "corpus" else ctx.seed, policy="fifo") as rt:
            g = grid.Grid(base, rt, num_servers=4, num_clients=1, k=2, happy=1, n=3, max_segment_size=64)
            c = g.clients[0]
            dn = rt.wait(c.create_dirnode())
            for idx, plan in enumerate(plans):
                original = pattern(plan["size"], idx)
                name = "%s%d" % (label, idx)
                if plan["mutable"]:
                    node = rt.wait(c.create_mutable_file(MutableData(original)))
                    rt.wait(dn.set_node(name, node))
                else:
                    rt.wait(dn.add_file(name, upload.Data(original, convergence=b"c" * 16)))
                child, metadata = rt.wait(dn.get_child_and_metadata(name))
                ref = bytearray(original)
                case = {"family": "handle", "mutable": plan["mutable"], "size": plan["size"], "toks": plan["toks"], "salt": idx}
                problems = []
                f = sftpd.GeneralSFTPFile(b"/" + name.encode(), FXF_READ | FXF_WRITE, None, b"c" * 16)
                trace["toks"], trace["flags"], trace["f"] = [], [], f
                f.open(parent=dn, childname=name, filenode=child, metadata=metadata)
                nwrites = 0
                for tok in plan["toks"]:
                    p = tok.split(":")
                    ctx.count("handle-ev:" + p[0])
                    if p[0] == "G":
                        if p[1] == "q":
                            rt.settle()
                        else:
                            for _ in range(int(p[1])):
                                if not rt.step():
                                    break
                    elif p[0] == "W":
                        off, data = int(p[1]), bytes.fromhex(p[2])
                        if f.consumer is None:
                            ctx.count("handle:write-requested-before-the-download-started")
                        f.writeChunk(off, data)
                        note("W:%d:%s" % (off, p[2]))
                        nwrites += 1
                        if off > len(ref):
                            ref.extend(b"\x00" * (off - len(ref)))
                        ref[off:off + len(data)] = data
                    elif p[0] == "S":
                        n = int(p[1])
                        f.setAttrs({"size": n})
                        note("S:%d" % n)
                        if n <= len(ref):
                            del ref[n:]
                        else:
                            ref.extend(b"\x00" * (n - len(ref)))
                    elif p[0] == "R":
                        off, ln = int(p[1]), int(p[2])
                        try:
                            got = rt.wait(f.readChunk(off, ln))     # awaited before the next request (the consumer's contract)
                        except Exception as e:
                            got = e
                        want = bytes(ref[off:off + ln])
                        if off >= len(ref):
                            if not isinstance(got, Exception):
                                problems.append(("read-past-eof-returned-data", "read(%d,%d) -> %r" % (off, ln, got)))
                        elif got != want:
                            problems.append(("handle-read-differs-from-reference", "read(%d,%d) -> %r, reference %r" % (off, ln, got, want)))
                closed_before_start = f.consumer is None
                if closed_before_start:
                    ctx.count("handle:close-requested-before-the-download-started")
                try:
                    dclose = f.close()
                    note("C")
                    rt.wait(dclose)
                    close_ok = True
                except Exception as e:
                    close_ok = False
                    ctx.count("handle:close-reported-failure")
                rt.settle()
                newchild = rt.wait(dn.get(name))
                if plan["mutable"]:
                    final = rt.wait(newchild.download_best_version())
                else:
                    mc = MemoryConsumer()
                    rt.wait(newchild.read(mc, 0, None))
                    final = b"".join(mc.chunks)
                ctx.case((plan["mutable"], plan["size"], tuple(plan["toks"])))
                # correspondence with the handle model: has_changed after every event, the close outcome, what was committed
                htoks, hflags = trace["toks"], trace["flags"]
                trace["toks"] = None
                committed = "t" in htoks
                hcases.append(case)
                himpl.append("%s %s %s" % ("".join(hflags) or "-", "ok" if close_ok else "failed",
                                           (final.hex() or "-") if committed else "none"))
                hlines.append("c39h code %s %s" % (original.hex() or "-", " ".join(htoks)))
                if close_ok and final != bytes(ref):
                    if nwrites == 0:
                        # no writeChunk at all, only setAttrs(size) (the defect repaired by d9a6762)
                        problems.append(("size-change-only-handle-not-stored",
                                         "close reported success but the size change(s) were not stored (stored %d bytes, reference %d bytes)" % (
                                             len(final), len(ref))))
                    elif final == original:
                        problems.append(("close-succeeds-but-client-writes-not-stored",
                                         "close reported success but the grid still holds the ORIGINAL contents (%d writes lost%s)" % (
                                             nwrites, ", close requested before the download started" if closed_before_start else "")))
                    else:
                        problems.append(("stored-contents-differ-from-reference",
                                         "stored %r..., reference %r..." % (final[:60], bytes(ref)[:60])))
                for (sig, text) in problems[:1]:
                    ctx.violation("GeneralSFTPFile (%s file): %s" % ("mutable" if plan["mutable"] else "immutable", text), case, sig,
                                  detail=[t for _, t in problems[:5]])
            g.close()
    finally:
        for k, v in saved.items():
            setattr(OFC, k, v)
        import shutil
        shutil.rmtree(base, ignore_errors=True)


def run_handles_salted(ctx, c):
    global pattern
    salt = c.get("salt", 0)
    old = pattern
    try:
        pattern = lambda n, _s, _old=old: _old(n, salt)      # noqa: E731
        hc, hi, hl = [], [], []
        run_handles(ctx, [{"mutable": c["mutable"], "size": c["size"], "toks": c["toks"]}], "replay", hc, hi, hl)
        ctx.compare("GeneralSFTPFile handle (has_changed per event, close outcome, committed contents)", hc, hi, ctx.model(hl))
    finally:
        pattern = old


def run(ctx):
    from common import hx, unhx
    cases, impl = [], []

    def record(orig_hex, evs, outs):
        cases.append({"orig": orig_hex, "evs": evs, "enc": False})
        impl.append(";".join(outs))

    if ctx.replay and ctx.replay["case"].get("family") == "handle":
        c = ctx.replay["case"]
        run_handles_salted(ctx, c)
        return
    if ctx.replay:
        c = ctx.replay["case"]
        evs, outs, r = execute(ctx, unhx(c["orig"]), c["evs"], enc=bool(c.get("enc")))
        report(ctx, c["orig"], evs, r, bool(c.get("enc")))
        if not c.get("enc"):
            record(c["orig"], evs, outs)
    else:
        for (orig_hex, evs) in CORPUS:
            evs2, outs, r = execute(ctx, unhx(orig_hex), evs)
            report(ctx, orig_hex, evs2, r, False)
            record(orig_hex, evs2, outs)
        n_hist = 0 if os.environ.get("VERIF_CORPUS_ONLY") else ctx.budget(500, 60000)
        if not n_hist:
            ctx.note("VERIF_CORPUS_ONLY: fixed corpus only")
        for i in range(n_hist):
            rng = ctx.rng
            size = rng.choice([0, 1, 5, 12, 20, 20, 33, 64])
            orig = bytes(rng.randrange(0x41, 0x5b) for _ in range(size))
            nbody = rng.randrange(1, 21) if (ctx.tier != "thorough" or rng.random() < 0.7) else rng.randrange(20, 61)
            tail = rng.choice(["none", "none", "none", "close", "close-early"])
            evs, outs, r = one_history(ctx, rng, orig, nbody, tail)
            report(ctx, hx(orig), evs, r, False)
            record(hx(orig), evs, outs)
            ctx.count("tail:" + tail)
            if i % 4 == 0:
                # the production temporary file (holes read back as keystream): monitor only
                evs_e, _, r2 = execute(ctx, orig, evs, enc=True, count=False)
                report(ctx, hx(orig), evs, r2, True)
                ctx.count("encrypted-tempfile-histories")
    if not ctx.replay:
        hc, hi, hl = [], [], []
        run_handles(ctx, HANDLE_CORPUS, "corpus", hc, hi, hl)
        if not os.environ.get("VERIF_CORPUS_ONLY"):
            run_handles(ctx, [gen_handle(ctx.rng) for _ in range(ctx.budget(40, 1500))], "rnd", hc, hi, hl)
        ctx.compare("GeneralSFTPFile handle (has_changed per event, close outcome, committed contents)", hc, hi, ctx.model(hl))
    model = ctx.model(["c39 %s %s" % (c["orig"], " ".join(c["evs"])) for c in cases])
    ctx.compare("OverwriteableFileConsumer history (file bytes, downloaded/download_size/current_size, heaps, done, read results per event)",
                cases, impl, model)
    if cases:
        ctx.sample({"orig": cases[-1]["orig"], "evs": cases[-1]["evs"][:12], "impl": impl[-1][:300]})
