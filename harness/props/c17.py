"""C17 — key and secret derivations match the specification (util/hashutil.py and its call sites)."""
import base64
import hashlib
import hmac as std_hmac

from common import hx

ID = "C17"
LEAN_PROPS = "Tahoe.Props.C17"
DRIVER = "C17"
GENERATED = ["hashutil"]
SOURCES = ["src/allmydata/util/hashutil.py", "src/allmydata/util/netstring.py", "src/allmydata/uri.py",
           "src/allmydata/client.py", "src/allmydata/mutable/common.py", "src/allmydata/mutable/filenode.py",
           "src/allmydata/mutable/publish.py", "src/allmydata/mutable/servermap.py",
           "src/allmydata/immutable/upload.py", "src/allmydata/immutable/checker.py", "src/allmydata/dirnode.py",
           "src/allmydata/storage_client.py"]
DESIGN_REF = "DESIGN.md §2 C17"
TECHNIQUE = ("Lean 4 theorems (89) over executable models of (1) every hashutil derivation on a Lean SHA-256/SHA-1 and netstring "
             "(Tahoe/Crypto/Derive.lean), (2) the code that pairs servers with secrets at the point of use — uploader tracker "
             "table, immutable checker add-lease, mutable publish writers, servermap add-lease, announcement -> seeds "
             "(Tahoe/Crypto/Use.lean), (3) MutableFileNode / Checker as state machines over call histories "
             "(Tahoe/Crypto/Objects.lean); tags, truncations and the tag each function feeds are extracted from the live source "
             "and pinned against the documented literals (one named theorem per tag). Differential run: Lean driver vs the real "
             "code (hashutil, cap classes, SecretHolder, MutableFileNode, Checker, Tahoe2ServerSelector, dirnode, "
             "NativeStorageServer/HTTPNativeStorageServer built from announcements, and the wire traffic of uploads, "
             "check --add-lease, repair, mutable create/publish and directory copies on an in-process grid) vs an independent "
             "hashlib reference written from the spec text, plus the known-answer vectors of test_hashutil.py and lease.rst. "
             "A fixed corpus (one literal input/history per known mechanism, seeds C17-a..e) runs before the random families; "
             "VERIF_CORPUS_ONLY=1 runs it alone.")
LEVEL_TEXT = ("Proved in Lean for all inputs: spec_form_* (each derivation = SHA256d(netstring(tag) ++ ...) truncated as documented, "
              "literal tags), tag_* pins, tag_binding, lengths_16/lengths_32, chain_* (write key -> read key -> storage index; "
              "lease secret -> client -> file -> bucket secret; dirnode salt/key), domain_separated / domain_separated_blocks "
              "(on netstring_unique_decoding, tags_pairwise_distinct and sha256_padding_injective); at the point of use, for any "
              "candidate list and any filter: trackers_pairing, tracker_uses_own_server_secret, upload_query_carries_own_server_chain, "
              "publish_writers_pairing, add_lease_matches_upload_lease, mutable_add_lease_matches_publish_lease, lease_seed_is_tubid, "
              "announced_server_gets_tubid_chain; over any call history: node_answer_independent_of_history, "
              "node_same_call_same_answer, checker_answers_independent_of_history; of SHA-256 itself only the padding "
              "(sha256_padding_as_specified). The models are tied to the code by extraction (tags, truncate_to, tag used per "
              "function) and by correspondence at function, object-history, call-site and wire granularity.")
LEVEL_NOTE = ("Lean kernel + standard axioms (propext, Classical.choice, Quot.sound). The SHA-256/SHA-1 compression functions, "
              "constants and block loop are validated by NIST vectors and by correspondence with hashlib, NOT proved against "
              "FIPS 180-4 (only the Merkle-Damgard padding and the digest length are proved). No cryptographic hardness is "
              "claimed: domain separation is a statement about hash inputs / block sequences. Correspondence only (no theorem "
              "about the code): history independence of SecretHolder, of repeated Tahoe2ServerSelector rounds and of the dirnode "
              "functions; the permuted server order and share placement are inputs of the tracker model (C32, C06/C07); AES-CTR "
              "of the dirnode rwcap field and RSA key generation are exercised, not modelled. No defect of /repo was found for "
              "C17; domain_separation_needs_secret_length records that my_*_secret_hash puts the secret in the tag position "
              "(as lease.rst documents), which is why domain separation needs 32-byte lease secrets.")
RULE = ("a case is one derivation, primitive (incl. SHA padding), call-site chain, tracker / writer table, announcement, one call "
        "of a call history on long-lived objects with colliding server identities and re-keying (plus each object's whole history "
        "through the object machine), or one secret observed on the wire of an in-process grid operation / one rwcap field of a "
        "copied directory — evaluated on the implementation, the Lean driver and, where the spec defines it, the hashlib "
        "reference; distinct = distinct (operation, arguments); non-trivial = at least one byte-string argument is non-empty")
TRUSTED = ["lean/Tahoe/Crypto/Derive.lean, Use.lean, Objects.lean are hand transcriptions of util/hashutil.py and of the call sites "
           "(control flow); tags, truncate_to values and the tag each function uses are extracted from the live source",
           "lean/Tahoe/Base/Sha256.lean: SHA-256 / SHA-1 compression and block loop validated by vectors and by correspondence with "
           "hashlib, not proved (padding and digest length are proved)",
           "hashlib / hmac of CPython as the reference primitive; the `cryptography` AES-CTR used to open dirnode rwcap fields",
           "harness/grid.py (in-process grid) and the server / broker / wire stand-ins of harness/props/c17.py, which hand the real "
           "call sites their inputs and record what they send",
           "the harness's own parsing of announcements (FURL Tub id, v0- server id) and of directory contents (netstrings, cap strings)"]
ASSUMPTIONS = ["lease secrets are 32 bytes — needed only by domain_separated for the two client secrets, whose secret sits in the tag "
               "position (domain_separation_needs_secret_length shows the guard is tight); all other theorems hold for any length",
               "hasher inputs are shorter than 2^61 bytes for sha256_padding_injective / domain_separated_blocks (SHA-256's own domain)",
               "server seeds are 20 bytes wherever a secret is produced; otherwise the code's assert fires and the theorems say "
               "`none` (trackers_defined_iff, publish_defined_iff)",
               "truncate_to is None or an int; k, n, segsize are ints",
               "candidate servers handed to the uploader are distinct objects (the read-only trackers come from a Python set)"]

# ---------------------------------------------------------------------------------------------
# Independent reference, written from the specification text (docs/specifications/lease.rst,
# file-encoding.rst "Hashes", mutable.rst "SDMF slots overview", dirnodes.rst, uri.rst) with hashlib only.
# Tag strings are literal copies; nothing here imports allmydata.

def r_netstring(s):
    return str(len(s)).encode("ascii") + b":" + s + b","


def r_sha256d(m):
    return hashlib.sha256(hashlib.sha256(m).digest()).digest()


def r_tagged(tag, val, trunc=None):
    h = r_sha256d(r_netstring(tag) + val)
    return h[:trunc] if trunc else h


def r_pair(tag, a, b, trunc=None):
    h = r_sha256d(r_netstring(tag) + r_netstring(a) + r_netstring(b))
    return h[:trunc] if trunc else h


REF1 = {
    "storage_index_hash": lambda k: r_tagged(b"allmydata_immutable_key_to_storage_index_v1", k, 16),
    "block_hash": lambda d: r_tagged(b"allmydata_encoded_subshare_v1", d),
    "uri_extension_hash": lambda d: r_tagged(b"allmydata_uri_extension_v1", d),
    "plaintext_hash": lambda d: r_tagged(b"allmydata_plaintext_v1", d),
    "crypttext_hash": lambda d: r_tagged(b"allmydata_crypttext_v1", d),
    "crypttext_segment_hash": lambda d: r_tagged(b"allmydata_crypttext_segment_v1", d),
    "plaintext_segment_hash": lambda d: r_tagged(b"allmydata_plaintext_segment_v1", d),
    "backupdb_dirhash": lambda d: r_tagged(b"allmydata_backupdb_dirhash_v1", d),
    # lease.rst: "client renewal secret is the sha256d tagged digest of (lease secret, client renewal tag)"
    "my_renewal_secret_hash": lambda s: r_tagged(s, b"allmydata_client_renewal_secret_v1"),
    "my_cancel_secret_hash": lambda s: r_tagged(s, b"allmydata_client_cancel_secret_v1"),
    "ssk_writekey_hash": lambda p: r_tagged(b"allmydata_mutable_privkey_to_writekey_v1", p, 16),
    "ssk_write_enabler_master_hash": lambda w: r_tagged(b"allmydata_mutable_writekey_to_write_enabler_master_v1", w),
    "ssk_pubkey_fingerprint_hash": lambda p: r_tagged(b"allmydata_mutable_pubkey_to_fingerprint_v1", p),
    "ssk_readkey_hash": lambda w: r_tagged(b"allmydata_mutable_writekey_to_readkey_v1", w, 16),
    "ssk_storage_index_hash": lambda r: r_tagged(b"allmydata_mutable_readkey_to_storage_index_v1", r, 16),
    "mutable_rwcap_salt_hash": lambda u: r_tagged(b"allmydata_dirnode_child_rwcap_to_salt_v1", u, 16),
}


def _need20(p):
    if len(p) != 20:
        raise AssertionError


def _r_bucket(tag):
    def f(a, p):
        _need20(p)
        return r_pair(tag, a, p)
    return f


def _r_we(wk, p):
    _need20(p)
    return r_pair(b"allmydata_mutable_write_enabler_master_and_nodeid_to_write_enabler_v1",
                  REF1["ssk_write_enabler_master_hash"](wk), p)


REF2 = {
    "file_renewal_secret_hash": lambda c, si: r_pair(b"allmydata_file_renewal_secret_v1", c, si),
    "file_cancel_secret_hash": lambda c, si: r_pair(b"allmydata_file_cancel_secret_v1", c, si),
    "bucket_renewal_secret_hash": _r_bucket(b"allmydata_bucket_renewal_secret_v1"),
    "bucket_cancel_secret_hash": _r_bucket(b"allmydata_bucket_cancel_secret_v1"),
    "ssk_write_enabler_hash": _r_we,
    "ssk_readkey_data_hash": lambda iv, rk: r_pair(b"allmydata_mutable_readkey_to_datakey_v1", iv, rk, 16),
    "mutable_rwcap_key_hash": lambda iv, wk: r_pair(b"allmydata_mutable_writekey_and_salt_to_dirnode_child_capkey_v1", iv, wk, 16),
}


def r_convtag(k, n, seg, conv):
    if not (1 <= k <= n <= 256):
        raise ValueError
    return (b"allmydata_immutable_content_to_key_with_added_secret_v1+" + r_netstring(conv) +
            r_netstring(("%d,%d,%d" % (k, n, seg)).encode("ascii")))


def r_renew(secret, si, seed):
    return REF2["bucket_renewal_secret_hash"](
        REF2["file_renewal_secret_hash"](REF1["my_renewal_secret_hash"](secret), si), seed)


def r_cancel(secret, si, seed):
    return REF2["bucket_cancel_secret_hash"](
        REF2["file_cancel_secret_hash"](REF1["my_cancel_secret_hash"](secret), si), seed)


def b32(s):
    """RFC 4648 base32, lowercase, unpadded (as the docs / tests print it)."""
    return base64.b32encode(s).decode("ascii").lower().rstrip("=").encode("ascii")


def unb32(s):
    s = s.decode("ascii").upper()
    return base64.b32decode(s + "=" * (-len(s) % 8))


# ---------------------------------------------------------------------------------------------
# Known answers copied from src/allmydata/test/test_hashutil.py and docs/specifications/derive_renewal_secret.py
# (kind, driver-line builder args, expected base32)

KA_TH = [(b"tag", b"hello world", b"yra322btzoqjp4ts2jon5dztgnilcdg6jgztgk7joi6qpjkitg2q"),
         (b"different", b"hello world", b"kfbsfssrv2bvtp3regne6j7gpdjcdjwncewriyfdtt764o5oa7ta"),
         (b"different", b"goodbye world", b"z34pzkgo36chbjz2qykonlxthc4zdqqquapw4bcaoogzvmmcr3zq")]
KA_TPH = [(b"tag", b"hello", b"world", b"wmto44q3shtezwggku2fxztfkwibvznkfu6clatnvfog527sb6dq"),
          (b"different", b"hello", b"world", b"lzn27njx246jhijpendqrxlk4yb23nznbcrihommbymg5e7quh4a"),
          (b"different", b"goodbye", b"world", b"qnehpoypxxdhjheqq7dayloghtu42yr55uylc776zt23ii73o3oq")]
KA_F1 = [("storage_index_hash", b"", b"qb5igbhcc5esa6lwqorsy7e6am"),
         ("storage_index_hash", b"x" * 16, b"wvggbrnrezdpa5yayrgiw5nzja"),
         ("storage_index_hash", unb32(b"2ckv3dfzh6rgjis6ogfqhyxnzy"), b"aarbseqqrpsfowduchcjbonscq"),
         ("block_hash", b"", b"msjr5bh4evuh7fa3zw7uovixfbvlnstr5b65mrerwfnvjxig2jvq"),
         ("uri_extension_hash", b"", b"wthsu45q7zewac2mnivoaa4ulh5xvbzdmsbuyztq2a5fzxdrnkka"),
         ("plaintext_hash", b"", b"5lz5hwz3qj3af7n6e3arblw7xzutvnd3p3fjsngqjcb7utf3x3da"),
         ("crypttext_hash", b"", b"itdj6e4njtkoiavlrmxkvpreosscssklunhwtvxn6ggho4rkqwga"),
         ("crypttext_segment_hash", b"", b"aovy5aa7jej6ym5ikgwyoi4pxawnoj3wtaludjz7e2nb5xijb7aa"),
         ("plaintext_segment_hash", b"", b"4fdgf6qruaisyukhqcmoth4t3li6bkolbxvjy4awwcpprdtva7za"),
         ("my_renewal_secret_hash", b"", b"ujhr5k5f7ypkp67jkpx6jl4p47pyta7hu5m527cpcgvkafsefm6q"),
         ("my_cancel_secret_hash", b"", b"rjwzmafe2duixvqy6h47f5wfrokdziry6zhx4smew4cj6iocsfaa"),
         ("ssk_writekey_hash", b"", b"ykpgmdbpgbb6yqz5oluw2q26ye"),
         ("ssk_write_enabler_master_hash", b"", b"izbfbfkoait4dummruol3gy2bnixrrrslgye6ycmkuyujnenzpia"),
         ("ssk_pubkey_fingerprint_hash", b"", b"3opzw4hhm2sgncjx224qmt5ipqgagn7h5zivnfzqycvgqgmgz35q"),
         ("ssk_readkey_hash", b"", b"vugid4as6qbqgeq2xczvvcedai"),
         ("ssk_storage_index_hash", b"", b"j7icz6kigb6hxrej3tv4z7ayym")]
KA_F2 = [("file_renewal_secret_hash", b"", b"si", b"hzshk2kf33gzbd5n3a6eszkf6q6o6kixmnag25pniusyaulqjnia"),
         ("file_cancel_secret_hash", b"", b"si", b"bfciwvr6w7wcavsngxzxsxxaszj72dej54n4tu2idzp6b74g255q"),
         ("bucket_renewal_secret_hash", b"", b"\x00" * 20, b"e7imrzgzaoashsncacvy3oysdd2m5yvtooo4gmj4mjlopsazmvuq"),
         ("bucket_cancel_secret_hash", b"", b"\x00" * 20, b"dvdujeyxeirj6uux6g7xcf4lvesk632aulwkzjar7srildvtqwma"),
         ("mutable_rwcap_key_hash", b"iv", b"wk", b"6rvn2iqrghii5n4jbbwwqqsnqu"),
         ("ssk_write_enabler_hash", b"wk", b"\x00" * 20, b"fuu2dvx7g6gqu5x22vfhtyed7p4pd47y5hgxbqzgrlyvxoev62tq"),
         ("ssk_readkey_data_hash", b"iv", b"rk", b"73wsaldnvdzqaf7v4pzbr2ae5a")]
KA_CONV = [(3, 10, 100, b"", b"converge", b"3mo6ni7xweplycin6nowynw2we")]
KA_CONVTAG = [(3, 10, 1024, b"\x42" * 16,
               b"allmydata_immutable_content_to_key_with_added_secret_v1+16:" + b"\x42" * 16 + b",9:3,10,1024,")]
KA_HMAC = [(b"tag", b"", b"c54ypfi6pevb3nvo6ba42jtglpkry2kbdopqsi7dgrm4r7tw5sra")]
KA_PERMUTE = [(b"SI", unb32(b"u33m4y7klhz3bypswqkozwetvabelhxt"), b"kb4354zeeurpo3ze5e275wzbynm6hlap")]
# docs/specifications/derive_renewal_secret.py (vectors obtained by instrumenting a real upload)
KA_RENEW = [(b"boity2cdh7jvl3ltaeebuiobbspjmbuopnwbde2yeh4k6x7jioga", b"vrttmwlicrzbt7gh5qsooogr7u",
             b"v67jiisoty6ooyxlql5fuucitqiok2ic", b"osd6wmc5vz4g3ukg64sitmzlfiaaordutrez7oxdp5kkze7zp5zq"),
            (b"boity2cdh7jvl3ltaeebuiobbspjmbuopnwbde2yeh4k6x7jioga", b"75gmmfts772ww4beiewc234o5e",
             b"v67jiisoty6ooyxlql5fuucitqiok2ic", b"35itmusj7qm2pfimh62snbyxp3imreofhx4djr7i2fweta75szda"),
            (b"boity2cdh7jvl3ltaeebuiobbspjmbuopnwbde2yeh4k6x7jioga", b"75gmmfts772ww4beiewc234o5e",
             b"lh5fhobkjrmkqjmkxhy3yaonoociggpz", b"srrlruge47ws3lm53vgdxprgqb6bz7cdblnuovdgtfkqrygrjm4q"),
            (b"vacviff4xfqxsbp64tdr3frg3xnkcsuwt5jpyat2qxcm44bwu75a", b"75gmmfts772ww4beiewc234o5e",
             b"lh5fhobkjrmkqjmkxhy3yaonoociggpz", b"b4jledjiqjqekbm2erekzqumqzblegxi23i5ojva7g7xmqqnl5pq")]

# ---------------------------------------------------------------------------------------------
# evaluation helpers


def guard(f, *a):
    """run f; map the two modelled exception types to their names"""
    try:
        r = f(*a)
    except AssertionError:
        return "AssertionError"
    except ValueError:
        return "ValueError"
    except Exception as e:  # not modelled: shows up as a disagreement / spec mismatch, never aborts the run
        return "raised:" + type(e).__name__
    if isinstance(r, bytes):
        return hx(r)
    return r


BOUNDARY = [0, 1, 2, 15, 16, 17, 20, 31, 32, 33, 54, 55, 56, 57, 62, 63, 64, 65, 100, 118, 119, 120, 121, 127, 128, 129,
            183, 184, 191, 192, 255, 256]


def rbytes(rng, n):
    return bytes(rng.getrandbits(8) for _ in range(n)) if n else b""


EDGE_BYTES = [0x00, 0x09, 0x0a, 0x0b, 0x0c, 0x0d, 0x20, 0x2c, 0x3a, 0x30, 0x7f, 0x80, 0xff]   # NUL, white space, ',', ':', digit, high


def rsecret(rng, n=32):
    """a binary secret of n bytes; often with a first and/or last byte that text handling would treat specially"""
    b = bytearray(rbytes(rng, n))
    if n and rng.random() < 0.35:
        b[0] = rng.choice(EDGE_BYTES)
    if n and rng.random() < 0.35:
        b[-1] = rng.choice(EDGE_BYTES)
    return bytes(b)


def rlen(rng, documented):
    """mostly the documented length, else odd lengths"""
    r = rng.random()
    if r < 0.6:
        return documented
    if r < 0.8:
        return rng.choice(BOUNDARY)
    return rng.randrange(0, 80)


class Cases:
    """collects (kind, case-json, driver line, impl output, reference output or None)"""

    def __init__(self, ctx):
        self.ctx = ctx
        self.rows = []

    def add(self, kind, line, impl, ref=None, args=None, expect=None, signature=None):
        case = {"kind": kind, "line": line}
        if args is not None:
            case["args"] = args
        self.rows.append((kind, case, line, impl, ref, expect))
        # monitor (needs neither the model nor the rest of the run): implementation vs known answer / spec reference
        if expect is not None and impl != expect:
            self.ctx.violation("known-answer vector no longer reproduced by the implementation", case,
                               "known-answer:" + kind, {"impl": impl, "expected": expect})
        if ref is not None and impl != ref:
            self.ctx.violation("derivation differs from the specification's formula (hashlib reference)", case,
                               signature or ("spec-mismatch:" + kind), {"impl": impl, "spec": ref})
        toks = line.split(" ")
        op = toks[0]
        bargs = {"conv": toks[4:], "convtag": toks[4:], "th": toks[1:3], "tph": toks[1:4], "hasher": toks[1:2] + toks[3:],
                 "f1": toks[2:], "f2": toks[2:]}.get(op, toks[1:])
        nontrivial = any(t != "-" for t in bargs)
        self.ctx.case((line,) if nontrivial else None)
        self.ctx.count("op:" + kind)
        if impl in ("AssertionError", "ValueError"):
            self.ctx.count("exc:" + impl)

    def finish(self):
        ctx = self.ctx
        lines = [r[2] for r in self.rows]
        outs = ctx.model(lines)
        if outs is not None:
            byk = {}
            for (kind, case, line, impl, ref, expect), o in zip(self.rows, outs):
                byk.setdefault(kind, ([], [], []))
                byk[kind][0].append(case)
                byk[kind][1].append(impl)
                byk[kind][2].append(o)
            for kind in byk:
                ctx.compare("C17 " + kind + " (Lean driver vs implementation)", *byk[kind])


# ---------------------------------------------------------------------------------------------
# generators

F1_DOC = {"storage_index_hash": 16, "block_hash": 100, "uri_extension_hash": 230, "plaintext_hash": 64,
          "crypttext_hash": 64, "crypttext_segment_hash": 128, "plaintext_segment_hash": 128, "backupdb_dirhash": 90,
          "my_renewal_secret_hash": 32, "my_cancel_secret_hash": 32, "ssk_writekey_hash": 1217,
          "ssk_write_enabler_master_hash": 16, "ssk_pubkey_fingerprint_hash": 294, "ssk_readkey_hash": 16,
          "ssk_storage_index_hash": 16, "mutable_rwcap_salt_hash": 90}
F2_DOC = {"file_renewal_secret_hash": (32, 16), "file_cancel_secret_hash": (32, 16), "bucket_renewal_secret_hash": (32, 20),
          "bucket_cancel_secret_hash": (32, 20), "ssk_write_enabler_hash": (16, 20), "ssk_readkey_data_hash": (16, 16),
          "mutable_rwcap_key_hash": (16, 16)}


def gen_primitives(ctx, cs, n):
    from allmydata.util.netstring import netstring
    rng = ctx.rng
    lens = list(BOUNDARY)
    while len(lens) < n:
        lens.append(rng.randrange(0, 400) if rng.random() < 0.9 else rng.randrange(400, 5000))
    for L in lens[:max(n, len(BOUNDARY))]:
        m = rbytes(rng, L)
        cs.add("sha256", "sha256 " + hx(m), hashlib.sha256(m).hexdigest())
        # FIPS 180-4 §5.1.1 written out: message, 0x80, fewest zero bytes to 56 mod 64, 64-bit big-endian bit length
        cs.add("sha padding", "pad " + hx(m), hx(m + b"\x80" + b"\x00" * ((55 - len(m)) % 64) + (8 * len(m)).to_bytes(8, "big")))
        cs.add("sha256d", "sha256d " + hx(m), r_sha256d(m).hex())
        cs.add("sha1", "sha1 " + hx(m), hashlib.sha1(m).hexdigest())
        s = rbytes(rng, rng.choice([0, 1, 9, 10, 11, 99, 100, 101, L % 1200]))
        cs.add("netstring", "netstring " + hx(s), hx(netstring(s)), hx(r_netstring(s)))
        k = rbytes(rng, rng.choice([0, 1, 16, 32, 63, 64, 65, 100]))
        cs.add("hmacstd", "hmacstd %s %s" % (hx(k), hx(m[:200])), std_hmac.new(k, m[:200], hashlib.sha256).hexdigest())
    if ctx.tier == "thorough":
        big = b"a" * 1000000
        cs.add("sha256", "sha256 " + hx(big), hashlib.sha256(big).hexdigest(),
               expect="cdc76e5c9914fb9281a1c7e284d73e67f1809a48a497200e046d39ccc7112cd0")
        for L in (65536, 100001):
            m = rbytes(rng, L)
            cs.add("sha256d", "sha256d " + hx(m), r_sha256d(m).hex())


def show_t(t):
    return "none" if t is None else str(t)


def ref_trunc(h, t):
    return h[:t] if t else h


def gen_generic(ctx, cs, n):
    from allmydata.util import hashutil
    rng = ctx.rng
    for _ in range(n):
        tag = rbytes(rng, rng.choice([0, 1, 3, 9, 10, 29, 43, 69, 99, 100, 120]))
        v1 = rbytes(rng, rlen(rng, 32))
        v2 = rbytes(rng, rlen(rng, 16))
        t = rng.choice([None, None, 0, 1, 15, 16, 17, 20, 31, 32, 33, 40, -1, -16, -31, -32, -33, rng.randrange(-40, 41)])
        cs.add("tagged_hash", "th %s %s %s" % (hx(tag), hx(v1), show_t(t)),
               guard(hashutil.tagged_hash, tag, v1, t), hx(ref_trunc(r_tagged(tag, v1), t)))
        cs.add("tagged_pair_hash", "tph %s %s %s %s" % (hx(tag), hx(v1), hx(v2), show_t(t)),
               guard(hashutil.tagged_pair_hash, tag, v1, v2, t), hx(ref_trunc(r_pair(tag, v1, v2), t)))
        # streaming hasher, arbitrary chunking; digest() twice must agree (cached)
        chunks = [rbytes(rng, rng.choice([0, 1, 7, 64, 100])) for _ in range(rng.randrange(0, 5))]
        h = hashutil.tagged_hasher(tag, t)
        for c in chunks:
            h.update(c)
        d1, d2 = h.digest(), h.digest()
        impl = hx(d1) if d1 == d2 else "digest-not-stable"
        cs.add("tagged_hasher", "hasher %s %s%s" % (hx(tag), show_t(t), "".join(" " + hx(c) for c in chunks)),
               impl, hx(ref_trunc(r_tagged(tag, b"".join(chunks)), t)))


def gen_named(ctx, cs, n):
    from allmydata.util import hashutil
    rng = ctx.rng
    hashers = {"block_hash": hashutil.block_hasher, "uri_extension_hash": hashutil.uri_extension_hasher,
               "plaintext_hash": hashutil.plaintext_hasher, "crypttext_hash": hashutil.crypttext_hasher,
               "crypttext_segment_hash": hashutil.crypttext_segment_hasher,
               "plaintext_segment_hash": hashutil.plaintext_segment_hasher}
    for _ in range(n):
        for name in sorted(F1_DOC):
            a = rbytes(rng, rlen(rng, F1_DOC[name]))
            impl = guard(getattr(hashutil, name), a)
            cs.add(name, "f1 %s %s" % (name, hx(a)), impl, guard(REF1[name], a))
            if name in hashers and rng.random() < 0.5:
                # the *_hasher() twin, fed in two pieces, must give the same digest
                h = hashers[name]()
                cut = rng.randrange(0, len(a) + 1)
                h.update(a[:cut]); h.update(a[cut:])
                cs.add(name + "er", "f1 %s %s" % (name, hx(a)), hx(h.digest()), guard(REF1[name], a))
        for name in sorted(F2_DOC):
            la, lb = F2_DOC[name]
            a = rbytes(rng, rlen(rng, la))
            b = rbytes(rng, lb if rng.random() < 0.8 else rng.choice([0, 1, 19, 21, 32, 40]))
            cs.add(name, "f2 %s %s %s" % (name, hx(a), hx(b)), guard(getattr(hashutil, name), a, b),
                   guard(REF2[name], a, b))


def gen_convergence(ctx, cs, n):
    from allmydata.util import hashutil
    rng = ctx.rng
    for i in range(n):
        r = rng.random()
        if r < 0.7:
            nn = rng.randrange(1, 257)
            k = rng.randrange(1, nn + 1)
        else:
            k = rng.choice([-1, 0, 1, 2, 3, 255, 256, 257, 300])
            nn = rng.choice([-1, 0, 1, 2, 10, 255, 256, 257, 1000])
        seg = rng.choice([0, 1, 1024, 131072, 131073, 2 ** 32, 2 ** 64 + 1, -5, rng.randrange(0, 10 ** 7)])
        conv = rbytes(rng, rlen(rng, 32))
        data = rbytes(rng, rng.choice([0, 1, 55, 64, 200, 1000]))
        cs.add("convergence_tag", "convtag %d %d %d %s" % (k, nn, seg, hx(conv)),
               guard(hashutil._convergence_hasher_tag, k, nn, seg, conv), guard(r_convtag, k, nn, seg, conv))
        ref = guard(lambda: r_tagged(r_convtag(k, nn, seg, conv), data, 16))
        cs.add("convergence_hash", "conv %d %d %d %s %s" % (k, nn, seg, hx(data), hx(conv)),
               guard(hashutil.convergence_hash, k, nn, seg, data, conv), ref)

        def via_hasher():
            h = hashutil.convergence_hasher(k, nn, seg, conv)
            cut = len(data) // 2
            h.update(data[:cut]); h.update(data[cut:])
            return h.digest()
        cs.add("convergence_hasher", "conv %d %d %d %s %s" % (k, nn, seg, hx(data), hx(conv)), guard(via_hasher), ref)


def gen_untagged(ctx, cs, n):
    from allmydata.util import hashutil
    rng = ctx.rng
    for _ in range(n):
        tag = rbytes(rng, rng.choice([0, 1, 16, 16, 32, 64, 65, 100]))
        data = rbytes(rng, rng.choice(BOUNDARY))
        ref = hashlib.sha256(bytes(c ^ 0x5c for c in tag) + hashlib.sha256(bytes(c ^ 0x36 for c in tag) + data).digest()).hexdigest()
        cs.add("hmac", "hmac %s %s" % (hx(tag), hx(data)), guard(hashutil.hmac, tag, data), ref)
        psi = rbytes(rng, rlen(rng, 16))
        seed = rbytes(rng, rlen(rng, 20))
        cs.add("permute_server_hash", "permute %s %s" % (hx(psi), hx(seed)),
               guard(hashutil.permute_server_hash, psi, seed), hashlib.sha1(psi + seed).hexdigest())


# --- call sites ------------------------------------------------------------------------------

class FakeServer:
    """the few IServer methods the lease / write-enabler call sites use"""

    def __init__(self, serverid, lease_seed, we_seed, log=None, maxsize=2 ** 40):
        self._id, self._lease, self._we, self._log, self._max = serverid, lease_seed, we_seed, log, maxsize

    def get_serverid(self): return self._id
    def get_name(self): return self._id.hex()[:8]
    def get_longname(self): return self._id.hex()
    def get_lease_seed(self): return self._lease
    def get_foolscap_write_enabler_seed(self): return self._we
    def get_storage_server(self): return self

    def get_version(self):
        return {b"http://allmydata.org/tahoe/protocols/storage/v1": {b"maximum-immutable-share-size": self._max}}

    # IStorageServer as seen by immutable/upload.py ServerTracker: this is "the storage wrapper"
    def get_buckets(self, si):
        from twisted.internet import defer
        return defer.succeed({})

    def allocate_buckets(self, si, renew, cancel, sharenums, size, canary):
        from twisted.internet import defer
        self._log.append((self._lease, si, renew, cancel))
        return defer.succeed((set(), {}))

    def __repr__(self): return "<FakeServer %s>" % self.get_name()


class FakeBroker:
    def __init__(self, servers): self.servers = servers
    def get_servers_for_psi(self, si, for_upload=False): return list(self.servers)


def attempt(ctx, label, f):
    """run one call-site step; an exception the model does not predict is a correspondence disagreement, and the run goes on"""
    try:
        f()
    except Exception as e:
        import traceback
        ctx.disagree("call site raised an exception the model does not predict (implementation no longer drivable as modelled)",
                     {"kind": label}, "%s: %s | %s" % (type(e).__name__, e, traceback.format_exc(limit=3)[-400:]), None)
        ctx.count("callsite-exception:" + label)


def gen_callsites(ctx, cs, n):
    from allmydata import uri, dirnode
    from allmydata.client import SecretHolder
    from allmydata.mutable.filenode import MutableFileNode
    from allmydata.immutable import upload
    from allmydata.immutable.checker import Checker
    from allmydata.crypto import aes
    from twisted.internet import task
    rng = ctx.rng

    def caps6(w, ro, vw, vr):
        return ":".join(hx(x) for x in (w.readkey, w.storage_index, ro.readkey, ro.storage_index,
                                        vw.storage_index, vr.storage_index))

    for i in range(n):
        wk = rbytes(rng, 16 if rng.random() < 0.85 else rng.choice([0, 1, 15, 17, 32]))
        fp = rbytes(rng, 32)
        rkx = rbytes(rng, 16)
        key = rbytes(rng, 16)
        secret = rsecret(rng, 32 if rng.random() < 0.8 else rng.choice([0, 1, 29, 31, 33, 43, 64]))
        lease_seed = rsecret(rng, 20 if rng.random() < 0.9 else rng.choice([0, 19, 21, 32]))
        we_seed = rsecret(rng, 20 if rng.random() < 0.9 else rng.choice([0, 19, 21, 32]))
        srv = FakeServer(rbytes(rng, 20), lease_seed, we_seed)
        usi = rbytes(rng, 16)
        sel_seeds = [rbytes(rng, 20) for _ in range(rng.randrange(1, 6))]
        rw_uri = (b"URI:SSK:" + b32(rbytes(rng, 16)) + b":" + b32(rbytes(rng, 32))) if rng.random() < 0.7 \
            else rbytes(rng, rng.randrange(0, 120))
        dwk = rbytes(rng, 16)
        rk = REF1["ssk_readkey_hash"](wk)
        si_ref = REF1["ssk_storage_index_hash"](rk)

        # --- uri.py cap classes: write key -> read key -> storage index, attenuation keeps them
        def step_ssk(cls_w, cls_r):
            w = cls_w(wk, fp)
            ro = w.get_readonly()
            cs.add("uri." + cls_w.__name__, "wcap " + hx(wk), caps6(w, ro, w.get_verify_cap(), ro.get_verify_cap()),
                   ":".join(hx(x) for x in (rk, si_ref, rk, si_ref, si_ref, si_ref)))
            if len(wk) == 16:
                # through the string form, as a cap is stored in a directory and parsed again
                w2 = uri.from_string(w.to_string())
                r2 = uri.from_string(ro.to_string())
                cs.add("uri.from_string(" + cls_w.__name__ + ")", "wcap " + hx(wk),
                       caps6(w2, r2, uri.from_string(w2.get_verify_cap().to_string()), r2.get_verify_cap()))
            cs.add("uri." + cls_r.__name__, "rcap " + hx(rkx), hx(cls_r(rkx, fp).storage_index),
                   hx(REF1["ssk_storage_index_hash"](rkx)))
        attempt(ctx, "uri SSK caps", lambda: step_ssk(uri.WriteableSSKFileURI, uri.ReadonlySSKFileURI))
        attempt(ctx, "uri MDMF caps", lambda: step_ssk(uri.WriteableMDMFFileURI, uri.ReadonlyMDMFFileURI))

        def step_chk():
            chk = uri.CHKFileURI(key, fp, 3, 10, 1234)
            cs.add("uri.CHKFileURI", "chk " + hx(key), hx(chk.get_storage_index()), hx(REF1["storage_index_hash"](key)))
            cs.add("uri.CHKFileURI.verify_cap", "chk " + hx(key), hx(chk.get_verify_cap().get_storage_index()))
            cs.add("uri.from_string(CHKFileURI)", "chk " + hx(key), hx(uri.from_string(chk.to_string()).get_storage_index()))
        attempt(ctx, "uri CHK cap", step_chk)

        # --- lease secrets: SecretHolder, MutableFileNode, Checker, Tahoe2ServerSelector
        sh = SecretHolder(secret, b"convergence")

        def step_holder():
            cs.add("SecretHolder.get_renewal_secret", "f1 my_renewal_secret_hash " + hx(secret), hx(sh.get_renewal_secret()),
                   hx(REF1["my_renewal_secret_hash"](secret)))
            cs.add("SecretHolder.get_cancel_secret", "f1 my_cancel_secret_hash " + hx(secret), hx(sh.get_cancel_secret()),
                   hx(REF1["my_cancel_secret_hash"](secret)))
        attempt(ctx, "SecretHolder", step_holder)

        def step_mutable_node():
            node = MutableFileNode(None, sh, {"k": 3, "n": 10}, None).init_from_cap(uri.WriteableSSKFileURI(wk, fp))
            si = node.get_storage_index()
            cs.add("MutableFileNode storage index", "wcap " + hx(wk),
                   ":".join(hx(x) for x in (node.get_readkey(), si, node.get_readkey(), si, si, si)))
            cs.add("MutableFileNode.get_renewal_secret", "renew %s %s %s" % (hx(secret), hx(si_ref), hx(lease_seed)),
                   guard(node.get_renewal_secret, srv), guard(r_renew, secret, si_ref, lease_seed))
            cs.add("MutableFileNode.get_cancel_secret", "cancel %s %s %s" % (hx(secret), hx(si_ref), hx(lease_seed)),
                   guard(node.get_cancel_secret, srv), guard(r_cancel, secret, si_ref, lease_seed))
            cs.add("MutableFileNode.get_write_enabler", "f2 ssk_write_enabler_hash %s %s" % (hx(wk), hx(we_seed)),
                   guard(node.get_write_enabler, srv), guard(_r_we, wk, we_seed))
        attempt(ctx, "MutableFileNode", step_mutable_node)

        def step_checker():
            csi = REF1["storage_index_hash"](key)
            vcap = uri.CHKFileVerifierURI(csi, fp, 3, 10, 1234)
            ck = Checker(vcap, [], False, True, sh, None)
            cs.add("immutable.Checker._get_renewal_secret", "renew %s %s %s" % (hx(secret), hx(csi), hx(lease_seed)),
                   guard(ck._get_renewal_secret, lease_seed), guard(r_renew, secret, csi, lease_seed))
            cs.add("immutable.Checker._get_cancel_secret", "cancel %s %s %s" % (hx(secret), hx(csi), hx(lease_seed)),
                   guard(ck._get_cancel_secret, lease_seed), guard(r_cancel, secret, csi, lease_seed))
        attempt(ctx, "immutable Checker", step_checker)

        def step_selector():
            # a real Tahoe2ServerSelector run against fake storage servers: the secrets as they reach allocate_buckets
            log = []
            servers = [FakeServer(bytes([j + 1]) * 20, sd, b"", log) for j, sd in enumerate(sel_seeds)]
            sel = upload.Tahoe2ServerSelector(b"c17", upload_status=upload.UploadStatus(), reactor=task.Clock())
            d = sel.get_shareholders(FakeBroker(servers), sh, usi, 1000, 100, 1, len(servers), 1, 1, 500)
            d.addErrback(lambda f: None)
            ctx.count("selector:allocate_buckets calls", len(log))
            if not log:
                ctx.count("selector:no allocate_buckets call")
            for (seed, si_seen, renew, cancel) in log:
                cs.add("Tahoe2ServerSelector->allocate_buckets renew", "renew %s %s %s" % (hx(secret), hx(usi), hx(seed)),
                       hx(renew) if si_seen == usi else "wrong-si", guard(r_renew, secret, usi, seed))
                cs.add("Tahoe2ServerSelector->allocate_buckets cancel", "cancel %s %s %s" % (hx(secret), hx(usi), hx(seed)),
                       hx(cancel) if si_seen == usi else "wrong-si", guard(r_cancel, secret, usi, seed))
        if i % 3 == 0:
            attempt(ctx, "Tahoe2ServerSelector", step_selector)

        # --- dirnode child-cap key: observed through the ciphertext _encrypt_rw_uri produces
        def step_dirnode():
            blob = dirnode._encrypt_rw_uri(dwk, rw_uri)
            salt, crypttext, mac = blob[:16], blob[16:-32], blob[-32:]
            rsalt = REF1["mutable_rwcap_salt_hash"](rw_uri)
            rkey = REF2["mutable_rwcap_key_hash"](rsalt, dwk)
            # the key the implementation used is the one that decrypts its ciphertext: try the specification's key
            dec = aes.decrypt_data(aes.create_decryptor(rkey), crypttext)
            impl = "%s:%s" % (hx(salt), hx(rkey) if dec == rw_uri else "key-does-not-decrypt")
            cs.add("dirnode._encrypt_rw_uri salt+key", "dirkey %s %s" % (hx(dwk), hx(rw_uri)), impl,
                   "%s:%s" % (hx(rsalt), hx(rkey)))
            cs.add("dirnode._encrypt_rw_uri mac", "dirmac %s %s %s" % (hx(rkey), hx(salt), hx(crypttext)), hx(mac))

            class _N:  # DirectoryNode._decrypt_rwcapdata only needs _node.get_writekey()
                def get_writekey(self_inner): return dwk
            dn = dirnode.DirectoryNode.__new__(dirnode.DirectoryNode)
            dn._node = _N()
            back = dn._decrypt_rwcapdata(blob)
            if back != rw_uri:
                ctx.violation("dirnode rw-cap encryption does not round-trip through _decrypt_rwcapdata",
                              {"kind": "dirnode-roundtrip", "line": "dirkey %s %s" % (hx(dwk), hx(rw_uri))},
                              "dirnode-rwcap-roundtrip")
            ctx.case(("dirnode-roundtrip", dwk, rw_uri))
        attempt(ctx, "dirnode child cap", step_dirnode)


# --- histories: every call-site derivation is a pure function of its documented inputs -----------
#
# The specification gives each secret as a formula of (lease secret, storage index / write key, the server's 20-byte
# lease seed or write-enabler seed) and nothing else.  So a long-lived object asked many times, in any order, about
# server stand-ins that share a server id but differ in their seeds (a re-announced server), or share seeds but differ
# in server id, must return the formula's value at every call.  A history is a JSON-able dict (replayable as a whole);
# each call of a history is one case compared with the driver and the hashlib reference.

def _h(b):
    return hx(b)


def _u(s):
    from common import unhx
    return unhx(s)


def make_object_history(rng):
    """long-lived SecretHolders, MutableFileNodes and immutable Checkers; server stand-ins with colliding identities"""
    secrets = [rsecret(rng, 32) for _ in range(rng.choice([1, 2]))]
    if rng.random() < 0.15:
        secrets.append(rbytes(rng, rng.choice([0, 31, 33])))
    sids = [rbytes(rng, rng.choice([20, 32])) for _ in range(rng.choice([2, 3]))]
    leases = [rsecret(rng, 20) for _ in range(3)]
    wes = [rsecret(rng, 20) for _ in range(3)]
    if rng.random() < 0.2:
        leases.append(rbytes(rng, rng.choice([0, 19, 21])))
        wes.append(rbytes(rng, rng.choice([0, 19, 21])))
    servers = []
    # a server re-announced under the same id with new seeds; two ids sharing all seeds; the same triple twice (two objects)
    servers.append([sids[0], leases[0], wes[0]])
    servers.append([sids[0], leases[1], wes[1]])
    servers.append([sids[1], leases[0], wes[0]])
    servers.append([sids[0], leases[0], wes[0]])
    servers.append([sids[1], leases[0], wes[2]])    # same id and lease seed as another, different write-enabler seed
    servers.append([sids[1], leases[2], wes[0]])    # ... and vice versa
    for _ in range(rng.randrange(0, 4)):
        servers.append([rng.choice(sids), rng.choice(leases), rng.choice(wes)])
    rng.shuffle(servers)
    wks = [rbytes(rng, 16) for _ in range(rng.choice([1, 2, 3]))]
    nodes = [{"wk": rng.choice(wks), "fp": rbytes(rng, 32), "holder": rng.randrange(len(secrets)),
              "mdmf": rng.random() < 0.3} for _ in range(rng.choice([1, 2, 3]))]
    keys = [rbytes(rng, 16) for _ in range(2)]
    checkers = [{"key": rng.choice(keys), "fp": rbytes(rng, 32), "holder": rng.randrange(len(secrets))}
                for _ in range(rng.choice([1, 2]))]
    calls = []
    for _ in range(rng.choice([12, 25, 40])):
        r = rng.random()
        j = rng.randrange(len(servers))
        if r < 0.6:
            calls.append(["node", rng.randrange(len(nodes)),
                          rng.choice(["get_renewal_secret", "get_cancel_secret", "get_write_enabler"]), j])
        elif r < 0.85:
            calls.append(["checker", rng.randrange(len(checkers)), rng.choice(["_get_renewal_secret", "_get_cancel_secret"]), j])
        else:
            calls.append(["holder", rng.randrange(len(secrets)), rng.choice(["get_renewal_secret", "get_cancel_secret"]), 0])
    # every (object, method) asked about the re-announced pair back to back at least once, in both orders
    first = [i for i, sv in enumerate(servers) if sv[0] == sids[0]]
    for m in ("get_renewal_secret", "get_cancel_secret", "get_write_enabler"):
        a, b = rng.sample(first, 2)
        ni = rng.randrange(len(nodes))
        calls.insert(rng.randrange(len(calls) + 1), ["node", ni, m, a])
        calls.append(["node", ni, m, b])
    rekeys = [rbytes(rng, 16) for _ in range(rng.choice([0, 1, 2]))]
    for k in range(len(rekeys)):
        calls.insert(rng.randrange(len(calls) + 1), ["node", rng.randrange(len(nodes)), "init_from_cap", k])
    return {"type": "objects", "rekeys": [_h(x) for x in rekeys],
            "secrets": [_h(x) for x in secrets], "servers": [[_h(x) for x in sv] for sv in servers],
            "nodes": [{"wk": _h(nd["wk"]), "fp": _h(nd["fp"]), "holder": nd["holder"], "mdmf": nd["mdmf"]} for nd in nodes],
            "checkers": [{"key": _h(c["key"]), "fp": _h(c["fp"]), "holder": c["holder"]} for c in checkers], "calls": calls}


def run_object_history(ctx, cs, H):
    from allmydata import uri
    from allmydata.client import SecretHolder
    from allmydata.mutable.filenode import MutableFileNode
    from allmydata.immutable.checker import Checker
    secrets = [_u(x) for x in H["secrets"]]
    holders = [SecretHolder(x, b"convergence") for x in secrets]
    servers = [FakeServer(_u(a), _u(b), _u(c)) for a, b, c in H["servers"]]
    nodes, nsi = [], []
    for nd in H["nodes"]:
        cls = uri.WriteableMDMFFileURI if nd["mdmf"] else uri.WriteableSSKFileURI
        nodes.append(MutableFileNode(None, holders[nd["holder"]], {"k": 3, "n": 10}, None).init_from_cap(cls(_u(nd["wk"]), _u(nd["fp"]))))
        nsi.append(REF1["ssk_storage_index_hash"](REF1["ssk_readkey_hash"](_u(nd["wk"]))))
    checkers, csi = [], []
    for c in H["checkers"]:
        si = REF1["storage_index_hash"](_u(c["key"]))
        checkers.append(Checker(uri.CHKFileVerifierURI(si, _u(c["fp"]), 3, 10, 1234), [], False, True, holders[c["holder"]], None))
        csi.append(si)
    cur_wk = [_u(nd["wk"]) for nd in H["nodes"]]
    rekeys = [_u(x) for x in H.get("rekeys", [])]
    node_hist = [[] for _ in nodes]        # per object: (driver op token, implementation answer, spec answer)
    chk_hist = [[] for _ in checkers]
    for step, (what, i, meth, j) in enumerate(H["calls"]):
        args = {"history": H, "step": step}
        if what == "node" and meth == "init_from_cap":
            # the node is pointed at another cap: from here on its secrets are those of the new write key
            nd = H["nodes"][i]
            cls = uri.WriteableMDMFFileURI if nd["mdmf"] else uri.WriteableSSKFileURI
            nodes[i].init_from_cap(cls(rekeys[j], _u(nd["fp"])))
            cur_wk[i] = rekeys[j]
            nsi[i] = REF1["ssk_storage_index_hash"](REF1["ssk_readkey_hash"](rekeys[j]))
            node_hist[i].append(("i:" + hx(rekeys[j]), "-", "-"))
            ctx.count("history:init_from_cap")
            continue
        sid, lease, we = (_u(x) for x in H["servers"][j])
        if what == "node":
            nd = H["nodes"][i]
            secret, wk = secrets[nd["holder"]], cur_wk[i]
            impl = guard(getattr(nodes[i], meth), servers[j])
            if meth == "get_write_enabler":
                line, ref, t = "f2 ssk_write_enabler_hash %s %s" % (hx(wk), hx(we)), guard(_r_we, wk, we), "w"
            elif meth == "get_renewal_secret":
                line, ref, t = "renew %s %s %s" % (hx(secret), hx(nsi[i]), hx(lease)), guard(r_renew, secret, nsi[i], lease), "r"
            else:
                line, ref, t = "cancel %s %s %s" % (hx(secret), hx(nsi[i]), hx(lease)), guard(r_cancel, secret, nsi[i], lease), "c"
            cs.add("history MutableFileNode." + meth, line, impl, ref, args=args)
            node_hist[i].append((t + ":" + srv_tok(sid, lease, we, 0), impl, ref))
        elif what == "checker":
            secret = secrets[H["checkers"][i]["holder"]]
            impl = guard(getattr(checkers[i], meth), lease)
            if meth == "_get_renewal_secret":
                line, ref, t = "renew %s %s %s" % (hx(secret), hx(csi[i]), hx(lease)), guard(r_renew, secret, csi[i], lease), "r"
            else:
                line, ref, t = "cancel %s %s %s" % (hx(secret), hx(csi[i]), hx(lease)), guard(r_cancel, secret, csi[i], lease), "c"
            cs.add("history immutable.Checker." + meth, line, impl, ref, args=args)
            chk_hist[i].append((t + ":" + hx(lease), impl, ref))
        else:
            name = "my_renewal_secret_hash" if meth == "get_renewal_secret" else "my_cancel_secret_hash"
            cs.add("history SecretHolder." + meth, "f1 %s %s" % (name, hx(secrets[i])), guard(getattr(holders[i], meth)),
                   guard(REF1[name], secrets[i]), args=args)
    # each object's whole history through the object machines of Tahoe/Crypto/Objects.lean
    for i, hist in enumerate(node_hist):
        if hist:
            nd = H["nodes"][i]
            cs.add("history MutableFileNode (object machine)",
                   "nodehist %s %s %s" % (hx(secrets[nd["holder"]]), nd["wk"] if nd["wk"] != "" else "-", " ".join(t for (t, _a, _b) in hist)),
                   ",".join(a for (_t, a, _b) in hist), ",".join(b for (_t, _a, b) in hist), args={"history": H, "step": "node %d" % i},
                   signature="spec-mismatch:history MutableFileNode (whole history)")
    for i, hist in enumerate(chk_hist):
        if hist:
            cs.add("history immutable.Checker (object machine)",
                   "chkhist %s %s %s" % (hx(secrets[H["checkers"][i]["holder"]]), hx(csi[i]), " ".join(t for (t, _a, _b) in hist)),
                   ",".join(a for (_t, a, _b) in hist), ",".join(b for (_t, _a, b) in hist), args={"history": H, "step": "checker %d" % i},
                   signature="spec-mismatch:history immutable.Checker (whole history)")


def srv_tok(sid, lease, we, mx):
    """driver token of a server record: serverid/leaseSeed/weSeed/maxImmutableShareSize"""
    return "%s/%s/%s/%d" % (hx(sid), hx(lease), hx(we), mx)


def trackers_str(write, readonly):
    """canonical text of (write trackers, read-only trackers) given as [(serverid, renew, cancel)]"""
    f = lambda ts: ",".join("%s=%s=%s" % (hx(a), hx(b), hx(c)) for (a, b, c) in ts) or "-"
    return "W %s;R %s" % (f(write), f(readonly))


def r_trackers(cands, alloc, frs, fcs):
    """specification: every candidate gets the bucket secrets of ITS OWN lease seed; writeable = advertises enough room"""
    for (sid, lease, mx) in cands:
        _need20(lease)
    mk = lambda c: (c[0], r_pair(b"allmydata_bucket_renewal_secret_v1", frs, c[1]), r_pair(b"allmydata_bucket_cancel_secret_v1", fcs, c[1]))
    return trackers_str([mk(c) for c in cands if c[2] >= alloc], [mk(c) for c in cands if c[2] < alloc])


def observe_create_trackers(sel, sink):
    """wrap the selector instance's _create_trackers so that its arguments and result are recorded (observation only)"""
    orig = sel._create_trackers

    def wrapped(candidate_servers, allocated_size, frs, fcs, create):
        ro, wr = orig(candidate_servers, allocated_size, frs, fcs, create)
        pos = {id(sv): n for n, sv in enumerate(candidate_servers)}
        ro_sorted = sorted(ro, key=lambda t: pos[id(t.get_server())])   # read-only trackers come from a set: candidate order
        sink.append((list(candidate_servers), allocated_size, frs, fcs,
                     [(t.get_serverid(), t.renew_secret, t.cancel_secret) for t in wr],
                     [(t.get_serverid(), t.renew_secret, t.cancel_secret) for t in ro_sorted]))
        return ro, wr
    sel._create_trackers = wrapped


def make_selector_history(rng):
    """one long-lived Tahoe2ServerSelector + SecretHolder, several get_shareholders rounds; between rounds servers are
    re-announced (same id, new lease seed) or swap seeds; some servers advertise too little room (read-only / full)"""
    sids = [bytes([j + 1]) * 20 for j in range(rng.randrange(2, 7))]
    seeds = [rbytes(rng, 20) for _ in range(len(sids) + 2)]
    rounds = []
    same_si = rbytes(rng, 16)
    for r in range(rng.choice([2, 3])):
        small = set(rng.sample(range(len(sids)), rng.choice([0, 1, 1, 2]) if len(sids) > 2 else 0))
        rounds.append({"si": _h(same_si if rng.random() < 0.5 else rbytes(rng, 16)), "total": rng.randrange(1, len(sids) + 2),
                       "servers": [[_h(sid), _h(rng.choice(seeds)), (rng.choice([0, 10, 1400]) if j in small else 2 ** 40)]
                                   for j, sid in enumerate(sids)]})
    return {"type": "selector", "secret": _h(rsecret(rng, 32)), "rounds": rounds}


def run_selector_history(ctx, cs, H):
    from allmydata.client import SecretHolder
    from allmydata.immutable import upload
    from twisted.internet import task
    secret = _u(H["secret"])
    sh = SecretHolder(secret, b"convergence")
    sel = upload.Tahoe2ServerSelector(b"c17", upload_status=upload.UploadStatus(), reactor=task.Clock())
    captured = []
    observe_create_trackers(sel, captured)
    for rn, rd in enumerate(H["rounds"]):
        log = []
        usi = _u(rd["si"])
        total = rd.get("total", len(rd["servers"]))
        recs = [(_u(r[0]), _u(r[1]), r[2] if len(r) > 2 else 2 ** 40) for r in rd["servers"]]
        servers = [FakeServer(sid, seed, b"", log, mx) for (sid, seed, mx) in recs]
        del captured[:]
        d = sel.get_shareholders(FakeBroker(servers), sh, usi, 1000, 100, 1, total, 1, 1, 500)
        d.addErrback(lambda f: None)
        args = {"history": H, "step": rn}
        for (cands, alloc, frs, fcs, wr, ro) in captured:
            # the whole tracker table (file secrets, 2N cut, filter, pairing) as the selector built it
            line = "uptrackers %s %s %d %d %s" % (hx(secret), hx(usi), total, alloc, " ".join(srv_tok(a, b, b"", c) for (a, b, c) in recs))
            cut = recs[:2 * total]
            ref = guard(lambda: r_trackers(cut, alloc, REF2["file_renewal_secret_hash"](REF1["my_renewal_secret_hash"](secret), usi),
                                           REF2["file_cancel_secret_hash"](REF1["my_cancel_secret_hash"](secret), usi)))
            cs.add("history Tahoe2ServerSelector tracker table", line, trackers_str(wr, ro), ref, args=args,
                   signature="secret-at-use-differs:upload-trackers:pairing")
            ctx.count("selector:tracker tables with %s" % ("a filtered server" if ro else "all servers writeable"))
        ctx.count("selector:allocate_buckets calls", len(log))
        if not log:
            ctx.count("selector:no allocate_buckets call")
        for (seed, si_seen, renew, cancel) in log:
            cs.add("history Tahoe2ServerSelector->allocate_buckets renew", "renew %s %s %s" % (hx(secret), hx(usi), hx(seed)),
                   hx(renew) if si_seen == usi else "wrong-si", guard(r_renew, secret, usi, seed), args=args)
            cs.add("history Tahoe2ServerSelector->allocate_buckets cancel", "cancel %s %s %s" % (hx(secret), hx(usi), hx(seed)),
                   hx(cancel) if si_seen == usi else "wrong-si", guard(r_cancel, secret, usi, seed), args=args)


def run_trackers_case(ctx, cs, recs, alloc, frs, fcs, kind="Tahoe2ServerSelector._create_trackers"):
    """Tahoe2ServerSelector._create_trackers called directly on server records [(serverid, lease seed, max share size)]"""
    from allmydata.immutable import upload
    from twisted.internet import task
    sel = upload.Tahoe2ServerSelector(b"c17", upload_status=upload.UploadStatus(), reactor=task.Clock())
    sel.peer_selector = upload.PeerSelector(1, max(len(recs), 1), 1, 1)
    captured = []
    observe_create_trackers(sel, captured)
    servers = [FakeServer(a, b, b"", None, c) for (a, b, c) in recs]

    class T:   # stands in for ServerTracker: keeps what it was given
        def __init__(self, s, r, c): self.s, self.renew_secret, self.cancel_secret = s, r, c
        def get_server(self): return self.s
        def get_serverid(self): return self.s.get_serverid()

    def call():
        sel._create_trackers(servers, alloc, frs, fcs, T)
        (_c, _a, _f, _g, wr, ro) = captured[-1]
        return trackers_str(wr, ro)
    line = "trackers %d %s %s%s" % (alloc, hx(frs), hx(fcs), "".join(" " + srv_tok(a, b, b"", c) for (a, b, c) in recs))
    cs.add(kind, line, guard(call), guard(r_trackers, recs, alloc, frs, fcs),
           signature="secret-at-use-differs:create-trackers:pairing")
    ctx.count("trackers:%s" % ("some filtered" if any(c < alloc for (_a, _b, c) in recs) else "none filtered"))


def gen_trackers(ctx, cs, n):
    """arbitrary candidate lists and share-size limits"""
    rng = ctx.rng
    for _ in range(n):
        ns = rng.choice([0, 1, 2, 3, 5, 8, 12])
        alloc = rng.choice([1, 100, 1400, 2 ** 32])
        recs = []
        for j in range(ns):
            lease = rbytes(rng, 20 if rng.random() < 0.97 else rng.choice([0, 19, 21]))
            recs.append((rbytes(rng, 20), lease, rng.choice([0, alloc - 1, alloc, alloc + 1, 2 ** 40, 2 ** 40])))
        run_trackers_case(ctx, cs, recs, alloc, rbytes(rng, 32), rbytes(rng, 32))


def make_dirnode_history(rng):
    wks = [rbytes(rng, 16) for _ in range(rng.choice([2, 3]))]
    uris = [b"URI:SSK:" + b32(rbytes(rng, 16)) + b":" + b32(rbytes(rng, 32)) for _ in range(3)] + [rbytes(rng, rng.randrange(0, 60))]
    calls = [[rng.randrange(len(wks)), rng.randrange(len(uris))] for _ in range(rng.choice([8, 16]))]
    return {"type": "dirnode", "wks": [_h(x) for x in wks], "uris": [_h(x) for x in uris], "calls": calls}


def run_dirnode_history(ctx, cs, H):
    from allmydata import dirnode
    from allmydata.crypto import aes
    wks = [_u(x) for x in H["wks"]]
    uris = [_u(x) for x in H["uris"]]

    class _N:  # DirectoryNode._decrypt_rwcapdata only needs _node.get_writekey()
        def __init__(self, wk): self.wk = wk
        def get_writekey(self): return self.wk
    dns = []
    for wk in wks:   # one long-lived DirectoryNode stand-in per write key
        dn = dirnode.DirectoryNode.__new__(dirnode.DirectoryNode)
        dn._node = _N(wk)
        dns.append(dn)
    for step, (wi, ui) in enumerate(H["calls"]):
        args = {"history": H, "step": step}
        dwk, rw_uri = wks[wi], uris[ui]
        blob = dirnode._encrypt_rw_uri(dwk, rw_uri)
        salt, crypttext, mac = blob[:16], blob[16:-32], blob[-32:]
        rsalt = REF1["mutable_rwcap_salt_hash"](rw_uri)
        rkey = REF2["mutable_rwcap_key_hash"](rsalt, dwk)
        dec = aes.decrypt_data(aes.create_decryptor(rkey), crypttext)
        impl = "%s:%s" % (hx(salt), hx(rkey) if dec == rw_uri else "key-does-not-decrypt")
        cs.add("history dirnode._encrypt_rw_uri salt+key", "dirkey %s %s" % (hx(dwk), hx(rw_uri)), impl,
               "%s:%s" % (hx(rsalt), hx(rkey)), args=args)
        cs.add("history dirnode._encrypt_rw_uri mac", "dirmac %s %s %s" % (hx(rkey), hx(salt), hx(crypttext)), hx(mac), args=args)
        back = guard(dns[wi]._decrypt_rwcapdata, blob)
        if back != hx(rw_uri):
            ctx.violation("dirnode rw-cap encryption does not round-trip through a long-lived node's _decrypt_rwcapdata",
                          {"kind": "history dirnode-roundtrip", "line": "dirkey %s %s" % (hx(dwk), hx(rw_uri)), "args": args},
                          "dirnode-rwcap-roundtrip")
        ctx.case(("dirnode-roundtrip-history", dwk, rw_uri, step))


def make_pool_history(rng):
    """a hashutil function (or cap class) called repeatedly on arguments drawn from small pools, so that calls share one
    argument and differ in the other"""
    name = rng.choice(sorted(F2_DOC) + sorted(F1_DOC) + ["wcap", "rcap", "chk"])
    la, lb = F2_DOC.get(name, (F1_DOC.get(name, 16), 0))
    pa = [rbytes(rng, la) for _ in range(3)]
    pb = [rbytes(rng, lb) for _ in range(3)]
    calls = [[rng.randrange(3), rng.randrange(3)] for _ in range(10)]
    return {"type": "pool", "fn": name, "pa": [_h(x) for x in pa], "pb": [_h(x) for x in pb], "calls": calls}


def run_pool_history(ctx, cs, H):
    name = H["fn"]
    for step, (i, j) in enumerate(H["calls"]):
        a, b = H["pa"][i], H["pb"][j]
        if name in F2_DOC:
            line = "f2 %s %s %s" % (name, a, b)
        elif name in F1_DOC:
            line = "f1 %s %s" % (name, a)
        else:
            line = "%s %s" % (name, a)
        impl, ref = eval_line(line)
        cs.add("history " + name, line, impl, ref, args={"history": H, "step": step})


# --- secrets at the point of USE, on an in-process grid --------------------------------------------
#
# Real _Client / Uploader / Checker / Repairer / mutable Publish against real StorageServers (harness/grid.py).  Every
# allocate_buckets / add_lease / slot_testv_and_readv_and_writev call is recorded at the server it arrives at, and the
# renew secret, cancel secret and write enabler it carries are compared with the specification's value for
# (the client's private/secret, the storage index or write key, THAT server's lease seed / write-enabler seed).
# Some servers are read-only / full / advertise a tiny maximum-immutable-share-size, at varying places of the permuted
# order (several storage indexes per grid).  Each server stand-in has a lease seed and a write-enabler seed that differ
# from each other and from its server id, so a secret derived from the wrong accessor or the wrong server shows.

def make_grid_scenario(rng):
    ns = rng.randrange(4, 9)
    kinds = {}
    nlim = rng.choice([0, 1, 1, 1, 2, 2, 3])
    for i in rng.sample(range(ns), min(nlim, ns - 2)):
        kinds[str(i)] = rng.choice(["readonly", "full", "small"])
    n = rng.randrange(max(3, (ns + 1) // 2), 11)
    k = rng.randrange(1, min(3, n) + 1)
    files = [{"data": _h(rbytes(rng, rng.choice([56, 200, 700, 3000]))), "conv": _h(rbytes(rng, 16))}
             for _ in range(rng.choice([2, 3, 4]))]
    return {"type": "grid", "seed": rng.randrange(10 ** 6), "servers": ns, "limited": kinds, "k": k, "n": n,
            "files": files, "repair": rng.random() < 0.6, "mutable": rng.random() < 0.7, "mdmf": rng.random() < 0.3,
            "mkey": rng.randrange(3), "seeds": [[_h(rsecret(rng, 20)), _h(rsecret(rng, 20))] for _ in range(ns)],
            "master": _h(rsecret(rng, 32))}


def run_grid_scenario(ctx, cs, S):
    import os
    import grid
    from allmydata.immutable import upload
    from allmydata.monitor import Monitor
    from allmydata.mutable.publish import MutableData
    from allmydata.storage.immutable import ShareFile
    from allmydata.storage.mutable import MutableShareFile
    from allmydata.interfaces import MDMF_VERSION, SDMF_VERSION
    from allmydata import uri
    from props import _mutable_common
    basedir = grid.fresh_dir("c17use")
    V1 = b"http://allmydata.org/tahoe/protocols/storage/v1"
    try:
        with grid.Runtime(seed=S["seed"], policy="fifo") as rt:
            g = grid.Grid(basedir, rt, num_servers=0, num_clients=0, k=S["k"], happy=1, n=S["n"])
            lease_seed, we_seed = {}, {}
            for i in range(S["servers"]):
                kind = S["limited"].get(str(i))
                gs = g.add_server(i, readonly=(kind == "readonly"), reserved_space=(10 ** 18 if kind == "full" else 0))
                if kind == "small":
                    g.wrappers[i].version[V1][b"maximum-immutable-share-size"] = 10
                lease_seed[i], we_seed[i] = _u(S["seeds"][i][0]), _u(S["seeds"][i][1])
                gs.get_lease_seed = (lambda v=lease_seed[i]: v)
                gs.get_foolscap_write_enabler_seed = (lambda v=we_seed[i]: v)
            # the node's master lease secret is an input of the scenario: private/secret as `tahoe create-node` writes it
            master = _u(S["master"])
            os.makedirs(os.path.join(basedir, "clients", "00", "private"), 0o700)
            with open(os.path.join(basedir, "clients", "00", "private", "secret"), "wb") as f:
                f.write(b32(master) + b"\n")
            c = g.make_client(0, S["k"], 1, S["n"], 128, b"\x00" * 16)
            g.clients.append(c)
            seen = []
            seen_writes = {}

            def spy(i):
                def _fault(methname, args, kwargs):
                    if methname in ("allocate_buckets", "add_lease"):
                        seen.append((i, methname, args[0], None, args[1], args[2]))
                    elif methname == "slot_testv_and_readv_and_writev":
                        we, rs, cns = args[1]
                        rec = (i, methname, args[0], we, rs, cns)
                        seen.append(rec)
                        seen_writes[id(rec)] = list(args[2].keys())   # share numbers written by this call
                    return None
                return _fault
            for i, w in g.wrappers.items():
                w.fault = spy(i)

            def audit(op, si_expected, writekey=None):
                for (i, meth, si, we, rs, cns) in seen:
                    args = {"history": S, "step": op, "server": i, "method": meth}
                    what = "use %s:%s" % (op, meth)
                    cs.add(what + " renew", "renew %s %s %s" % (hx(master), hx(si), hx(lease_seed[i])),
                           hx(rs) if si == si_expected else "wrong-si", guard(r_renew, master, si_expected, lease_seed[i]),
                           args=args, signature="secret-at-use-differs:%s:renew" % op)
                    cs.add(what + " cancel", "cancel %s %s %s" % (hx(master), hx(si), hx(lease_seed[i])),
                           hx(cns) if si == si_expected else "wrong-si", guard(r_cancel, master, si_expected, lease_seed[i]),
                           args=args, signature="secret-at-use-differs:%s:cancel" % op)
                    if we is not None:
                        cs.add(what + " write-enabler", "f2 ssk_write_enabler_hash %s %s" % (hx(writekey), hx(we_seed[i])),
                               hx(we), guard(_r_we, writekey, we_seed[i]), args=args,
                               signature="secret-at-use-differs:%s:write-enabler" % op)
                # the same traffic through the model of the call sites (Tahoe/Crypto/Use.lean)
                writers = []
                for rec in seen:
                    (i, meth, si, we, rs, cns) = rec
                    args = {"history": S, "step": op, "server": i, "method": meth}
                    tok = srv_tok(g.serverid(i), lease_seed[i], we_seed[i], 0)
                    if meth == "add_lease":
                        if writekey is None:
                            line = "chkaddlease %s %s %s" % (hx(master), hx(si_expected), tok)
                        else:
                            line = "mutaddlease %s %s %s" % (hx(master), hx(writekey), tok)
                        cs.add("use %s:add_lease message" % op, line, "%s:%s:%s" % (hx(si), hx(rs), hx(cns)),
                               guard(lambda: "%s:%s:%s" % (hx(si_expected), hx(r_renew(master, si_expected, lease_seed[i])),
                                                           hx(r_cancel(master, si_expected, lease_seed[i])))),
                               args=args, signature="secret-at-use-differs:%s:add-lease-message" % op)
                    elif meth == "slot_testv_and_readv_and_writev":
                        for shnum in sorted(seen_writes.get(id(rec), [])):
                            writers.append((shnum, i, si, we, rs, cns))
                if writers:
                    writers = sorted(set(writers))
                    line = "pubwriters %s %s %s" % (hx(master), hx(writekey), " ".join(
                        "%s/%d" % (srv_tok(g.serverid(i), lease_seed[i], we_seed[i], 0), shnum) for (shnum, i, _s, _w, _r, _c) in writers))
                    impl = ",".join("%d=%s=%s=%s=%s=%s" % (shnum, hx(g.serverid(i)), hx(si), hx(we), hx(rs), hx(cns))
                                    for (shnum, i, si, we, rs, cns) in writers)
                    ref = guard(lambda: ",".join("%d=%s=%s=%s=%s=%s" % (
                        shnum, hx(g.serverid(i)), hx(si_expected), hx(_r_we(writekey, we_seed[i])),
                        hx(r_renew(master, si_expected, lease_seed[i])), hx(r_cancel(master, si_expected, lease_seed[i])))
                        for (shnum, i, _s, _w, _r, _c) in writers))
                    cs.add("use %s:writer table" % op, line, impl, ref, args={"history": S, "step": op},
                           signature="secret-at-use-differs:%s:writer-table" % op)
                ctx.count("use:%s calls" % op, len(seen))
                del seen[:]
                seen_writes.clear()

            def leases_on_disk(op, si, mutable, exactly_one):
                """every share's leases: renewable with the spec secret for its server; optionally exactly one lease"""
                for (i, shnum, path) in g.share_files(si):
                    leases = list((MutableShareFile(path) if mutable else ShareFile(path)).get_leases())
                    want_r = r_renew(master, si, lease_seed[i])
                    want_c = r_cancel(master, si, lease_seed[i])
                    case = {"kind": "use %s lease on disk" % op, "line": "renew %s %s %s" % (hx(master), hx(si), hx(lease_seed[i])),
                            "args": {"history": S, "step": op, "server": i, "shnum": shnum}}
                    ctx.case(("lease-on-disk", op, si, i, shnum))
                    if not any(l.is_renew_secret(want_r) and l.is_cancel_secret(want_c) for l in leases):
                        ctx.violation("no lease on the share carries the specification's renew/cancel secret for its server "
                                      "(the client cannot renew the lease it created)", case,
                                      "lease-not-renewable-with-spec-secret:" + op,
                                      {"leases": [str(l.present_renew_secret()) for l in leases], "spec": hx(want_r)})
                    if exactly_one and len(leases) != 1:
                        ctx.violation("renewing through add-lease did not renew the client's lease but added another one",
                                      case, "lease-count-after-add-lease:" + op, {"leases": len(leases)})

            def deletable(shares, stride):
                """every stride-th share file, but never so many that fewer than k distinct share numbers remain"""
                out, remaining = [], [sh for (_i, sh, _p) in shares]
                for (i, shnum, path) in shares[::stride]:
                    rest = list(remaining)
                    rest.remove(shnum)
                    if len(set(rest)) >= S["k"]:
                        remaining = rest
                        out.append(path)
                return out

            def position_stats(si):
                order = [s.get_serverid() for s in g.broker.get_servers_for_psi(si)]
                idx = {g.serverid(j): j for j in g.servers}
                order = [idx[sid] for sid in order]
                for j in S["limited"]:
                    p = order.index(int(j))
                    ctx.count("use:limited server %s in permuted order" % ("first" if p == 0 else "last" if p == len(order) - 1 else "middle"))

            for fno, f in enumerate(S["files"]):
                res = rt.wait(c.upload(upload.Data(_u(f["data"]), convergence=_u(f["conv"]))))
                cap = uri.from_string(res.get_uri())
                si = cap.get_storage_index()
                position_stats(si)
                cs.add("use upload storage index", "chk " + hx(cap.key), hx(si), hx(REF1["storage_index_hash"](cap.key)),
                       args={"history": S, "step": "upload"})
                audit("upload", si)
                leases_on_disk("upload", si, False, True)
                node = c.create_node_from_uri(res.get_uri())
                rt.wait(node.check(Monitor(), verify=False, add_lease=True))
                audit("check-add-lease", si)
                leases_on_disk("check-add-lease", si, False, True)
                if S["repair"] and fno % 2 == 0:
                    for path in deletable(g.share_files(si), 2):
                        os.unlink(path)
                    rt.wait(node.check_and_repair(Monitor(), verify=False, add_lease=True))
                    audit("repair", si)
                    leases_on_disk("repair", si, False, False)
                    rt.wait(node.check(Monitor(), verify=False, add_lease=True))
                    audit("check-add-lease", si)
                    leases_on_disk("check-add-lease-after-repair", si, False, True)

            if S["mutable"]:
                ver = MDMF_VERSION if S["mdmf"] else SDMF_VERSION
                mn = rt.wait(c.create_mutable_file(MutableData(b"C17 mutable contents " * 7), version=ver,
                                                   unique_keypair=_mutable_common.keypair(S["mkey"])))
                wk, msi = mn.get_writekey(), mn.get_storage_index()
                cs.add("use mutable storage index", "wcap " + hx(wk),
                       ":".join(hx(x) for x in (mn.get_readkey(), msi, mn.get_readkey(), msi, msi, msi)),
                       ":".join(hx(x) for x in (REF1["ssk_readkey_hash"](wk),) + (REF1["ssk_storage_index_hash"](REF1["ssk_readkey_hash"](wk)),) * 1
                                + (REF1["ssk_readkey_hash"](wk),) + (REF1["ssk_storage_index_hash"](REF1["ssk_readkey_hash"](wk)),) * 3),
                       args={"history": S, "step": "mutable-create"})
                audit("mutable-create", msi, wk)
                leases_on_disk("mutable-create", msi, True, True)
                rt.wait(mn.overwrite(MutableData(b"second version " * 11)))
                audit("mutable-publish", msi, wk)
                leases_on_disk("mutable-publish", msi, True, True)
                rt.wait(mn.check(Monitor(), verify=False, add_lease=True))
                audit("mutable-check-add-lease", msi, wk)
                leases_on_disk("mutable-check-add-lease", msi, True, True)
                if S["repair"]:
                    for path in deletable(g.share_files(msi), 3):
                        os.unlink(path)
                    rt.wait(mn.check_and_repair(Monitor(), verify=False, add_lease=True))
                    audit("mutable-repair", msi, wk)
                    leases_on_disk("mutable-repair", msi, True, False)
            g.close()
    finally:
        import shutil
        shutil.rmtree(basedir, ignore_errors=True)


# --- dirnode child-cap keys at the point of USE: directories built from another directory's listing ---------------
#
# A directory's packed contents hold, per child, salt + AES-CTR(key, write cap) + MAC with
# key = H(child-cap tag, salt, write key of THE DIRECTORY THE ENTRY IS STORED IN) and salt = H(salt tag, write cap).
# `DirectoryNode.list()` returns an AuxValueDict whose auxiliary values are the packed entries of the directory that
# was read; that very mapping (unchanged, modified, copied) is a legal `initial_children` argument.  Whatever route a
# directory was created or modified by, every rwcap field of its raw contents must decrypt, under the key the MODEL
# derives for that directory's own write key and the entry's salt, to the child's write cap.

def split_ns(data):
    """strict split of a concatenation of netstrings"""
    out, pos = [], 0
    while pos < len(data):
        colon = data.index(b":", pos)
        n = int(data[pos:colon])
        out.append(data[colon + 1:colon + 1 + n])
        if data[colon + 1 + n:colon + 2 + n] != b",":
            raise ValueError("malformed netstring")
        pos = colon + 2 + n
    return out


DIRCOPY_ROUTES = ["create_dirnode(listing)", "create_dirnode(listing,MDMF)", "create_subdirectory(listing)",
                  "create_subdirectory(listing,MDMF)", "nodemaker.create_new_mutable_directory(listing)",
                  "create_dirnode(modified listing)", "create_dirnode(dict(listing))", "modified in place",
                  "create_dirnode(listing of a copy)"]


def make_dircopy_scenario(rng):
    routes = [r for r in DIRCOPY_ROUTES if rng.random() < 0.6] or [rng.choice(DIRCOPY_ROUTES)]
    rng.shuffle(routes)
    return {"type": "dircopy", "seed": rng.randrange(10 ** 6), "src_mdmf": rng.random() < 0.4, "routes": routes,
            "children": sorted(rng.sample(["m1", "m2", "imm", "sub", "ro"], rng.randrange(2, 6))),
            "data": _h(rbytes(rng, rng.choice([60, 300])))}


def run_dircopy_scenario(ctx, cs, S):
    import grid
    import shutil
    from allmydata.immutable import upload
    from allmydata.mutable.publish import MutableData
    from allmydata.interfaces import MDMF_VERSION, SDMF_VERSION
    from allmydata.crypto import aes
    from props import _mutable_common
    basedir = grid.fresh_dir("c17dir")
    try:
        with grid.Runtime(seed=S["seed"], policy="fifo") as rt:
            g = grid.Grid(basedir, rt, num_servers=4, num_clients=1, k=1, happy=1, n=2)
            c = g.clients[0]
            nkey = [0]

            def kp():
                nkey[0] += 1
                return _mutable_common.keypair(nkey[0] - 1)

            kids, expected = {}, {}
            m1 = rt.wait(c.create_mutable_file(MutableData(b"mutable one"), unique_keypair=kp()))
            m2 = rt.wait(c.create_mutable_file(MutableData(b"mutable two"), unique_keypair=kp()))
            if "m1" in S["children"]:
                kids[u"m1"] = (m1, {})
            if "m2" in S["children"]:
                kids[u"m2"] = (m2, {"k": "v"})
            if "imm" in S["children"]:
                res = rt.wait(c.upload(upload.Data(_u(S["data"]), convergence=b"c" * 16)))
                kids[u"imm"] = (c.create_node_from_uri(res.get_uri()), {})
            if "sub" in S["children"]:
                kids[u"sub"] = (rt.wait(c.create_dirnode(unique_keypair=kp())), {})
            if "ro" in S["children"]:
                kids[u"ro"] = (c.create_node_from_uri(m2.get_readonly_uri()), {})
            for name, (node, _md) in kids.items():
                expected[name] = node.get_write_uri() or b""

            def dir_writekey(dn):
                # URI:DIR2:<b32 writekey>:<b32 fingerprint> / URI:DIR2-MDMF:… (docs/specifications/uri.rst)
                parts = dn.get_uri().split(b":")
                if parts[0] != b"URI" or parts[1] not in (b"DIR2", b"DIR2-MDMF"):
                    raise ValueError("not a directory write cap: %r" % (dn.get_uri()[:20],))
                return unb32(parts[2])

            def check_directory(route, dn, want):
                args = {"history": S, "step": route}
                raw = rt.wait(dn._node.download_best_version())
                wk = dir_writekey(dn)
                seen = {}
                for entry in split_ns(raw):
                    name, ro_uri, rwcapdata, metadata = split_ns(entry)
                    name = name.decode("utf-8")
                    salt, crypttext, mac = rwcapdata[:16], rwcapdata[16:-32], rwcapdata[-32:]
                    seen[name] = True
                    rw = want.get(name)
                    if rw is None:
                        continue
                    rsalt = REF1["mutable_rwcap_salt_hash"](rw)
                    rkey = REF2["mutable_rwcap_key_hash"](rsalt, wk)
                    key_here = REF2["mutable_rwcap_key_hash"](salt, wk)       # spec key for THIS directory and the entry's salt
                    plain = aes.decrypt_data(aes.create_decryptor(key_here), crypttext)
                    impl = "%s:%s" % (hx(salt), hx(key_here) if plain == rw else "key-does-not-decrypt")
                    cs.add("use dircopy %s: rwcap key" % route, "dirkey %s %s" % (hx(wk), hx(rw)), impl,
                           "%s:%s" % (hx(rsalt), hx(rkey)), args=dict(args, child=name),
                           signature="dirnode-rwcap-key-differs:" + route)
                    rmac = hashlib.sha256(bytes(x ^ 0x5c for x in key_here) + hashlib.sha256(
                        bytes(x ^ 0x36 for x in key_here) + salt + crypttext).digest()).hexdigest()
                    cs.add("use dircopy %s: rwcap mac" % route, "dirmac %s %s %s" % (hx(key_here), hx(salt), hx(crypttext)),
                           hx(mac), rmac, args=dict(args, child=name), signature="dirnode-rwcap-mac-differs:" + route)
                if sorted(seen) != sorted(want):
                    ctx.violation("directory does not hold the children it was given",
                                  {"kind": "use dircopy children", "line": "dirkey %s -" % hx(wk), "args": args},
                                  "dirnode-children-differ:" + route, {"seen": sorted(seen), "want": sorted(want)})
                # what the production reader, holding the new directory's write cap, hands out
                listing = rt.wait(c.create_node_from_uri(dn.get_uri()).list())
                for name, rw in want.items():
                    got = (listing[name][0].get_write_uri() or b"") if name in listing else b"<missing>"
                    ctx.case(("dircopy-reader", route, name, rw))
                    if got != rw:
                        ctx.violation("the production reader returns a different write cap for a child than the one stored",
                                      {"kind": "use dircopy reader", "line": "dirkey %s %s" % (hx(wk), hx(rw)),
                                       "args": dict(args, child=name)}, "dirnode-rwcap-reader-differs:" + route,
                                      {"got": hx(got[:40]), "want": hx(rw[:40])})
                ctx.count("dircopy:" + route)

            src_ver = MDMF_VERSION if S["src_mdmf"] else SDMF_VERSION
            a = rt.wait(c.create_dirnode(dict(kids), version=src_ver, unique_keypair=kp()))
            check_directory("create_dirnode(dict)", a, expected)
            b = None
            for route in S["routes"]:
                listing = rt.wait(a.list())
                if route == "create_dirnode(listing)":
                    check_directory(route, rt.wait(c.create_dirnode(listing, unique_keypair=kp())), expected)
                elif route == "create_dirnode(listing,MDMF)":
                    check_directory(route, rt.wait(c.create_dirnode(listing, version=MDMF_VERSION, unique_keypair=kp())), expected)
                elif route in ("create_subdirectory(listing)", "create_subdirectory(listing,MDMF)"):
                    if b is None:
                        b = rt.wait(c.create_dirnode(unique_keypair=kp()))
                    ver = MDMF_VERSION if route.endswith("MDMF)") else None
                    sub = rt.wait(b.create_subdirectory(u"copy-%d" % nkey[0], listing, mutable_version=ver))
                    check_directory(route, sub, expected)
                elif route == "nodemaker.create_new_mutable_directory(listing)":
                    check_directory(route, rt.wait(c.nodemaker.create_new_mutable_directory(listing, keypair=kp())), expected)
                elif route == "create_dirnode(modified listing)":
                    want = dict(expected)
                    names = sorted(listing)
                    del listing[names[0]]; want.pop(names[0])
                    node, md = listing[names[-1]]
                    listing[names[-1]] = (node, dict(md, touched=True))          # __setitem__ clears the cached entry
                    listing[u"extra"] = (m1, {}); want[u"extra"] = m1.get_write_uri()
                    check_directory(route, rt.wait(c.create_dirnode(listing, unique_keypair=kp())), want)
                elif route == "create_dirnode(dict(listing))":
                    check_directory(route, rt.wait(c.create_dirnode(dict(listing), unique_keypair=kp())), expected)
                elif route == "create_dirnode(listing of a copy)":
                    copy1 = rt.wait(c.create_dirnode(dict(listing), unique_keypair=kp()))
                    check_directory(route, rt.wait(c.create_dirnode(rt.wait(copy1.list()), unique_keypair=kp())), expected)
                elif route == "modified in place":
                    want = dict(expected)
                    rt.wait(a.set_node(u"added", m2)); want[u"added"] = m2.get_write_uri()
                    first = sorted(expected)[0]
                    rt.wait(a.delete(first)); want.pop(first)
                    check_directory(route, a, want)
                    expected = want
            g.close()
    finally:
        shutil.rmtree(basedir, ignore_errors=True)


def gen_dircopy(ctx, cs, n):
    for i in range(n):
        S = make_dircopy_scenario(ctx.rng)
        attempt(ctx, "dirnode child-cap keys at use", lambda: run_dircopy_scenario(ctx, cs, S))
        ctx.count("use:dircopy scenarios")


# --- from a storage announcement to the seeds: real NativeStorageServer / HTTPNativeStorageServer -------------------
#
# lease.rst: the peer id that enters the bucket secrets is the server's Tub id (the id in its storage FURL); the write
# enabler uses the same node id (mutable.rst).  The permutation seed a server announces only orders servers (C32).  Real
# server objects are built from announcements of every shape and their getters, and the secrets the real Checker /
# ServermapUpdater(add_lease) / MutableFileNode / Tahoe2ServerSelector put on the wire for them, are compared with the
# spec for THE FURL'S TUB ID and with the model (`nativeserver`, `chkaddlease`, `mutaddlease`, `renew`, …).

ANN_SHAPES = ["modern", "legacy", "legacy-relocated", "legacy-relocated-32", "no-seed", "no-seed-nonpubkey-id", "short-seed"]


def make_announcement_case(rng, shape=None, http=None):
    shape = shape or rng.choice(ANN_SHAPES)
    tubid = rsecret(rng, 20)
    pub = rbytes(rng, 32)
    server_id = (b"v0-" + b32(pub)) if shape != "no-seed-nonpubkey-id" else (b"srv-" + b32(rbytes(rng, 5)))
    seed = {"modern": pub, "legacy": tubid, "legacy-relocated": rsecret(rng, 20), "legacy-relocated-32": rbytes(rng, 32),
            "no-seed": None, "no-seed-nonpubkey-id": None, "short-seed": rbytes(rng, 10)}[shape]
    return {"type": "announce", "shape": shape, "http": (rng.random() < 0.35) if http is None else http,
            "server_id": server_id.decode("ascii"), "tubid": _h(tubid), "seed": None if seed is None else _h(seed),
            "swiss": _h(rbytes(rng, 20)), "secret": _h(rsecret(rng, 32)), "si": _h(rbytes(rng, 16)), "wk": _h(rbytes(rng, 16)),
            "fp": _h(rbytes(rng, 32))}


class _Wire:
    """records what reaches the storage server; plays both the foolscap RemoteReference (callRemote) and the
    IStorageServer of the HTTP client (direct methods)"""

    def __init__(self):
        self.calls = []
        self.version = {b"http://allmydata.org/tahoe/protocols/storage/v1": {b"maximum-immutable-share-size": 2 ** 40,
                                                                             b"maximum-mutable-share-size": 2 ** 40}}

    def callRemote(self, methname, *args, **kwargs):
        from twisted.internet import defer
        self.calls.append((methname, args))
        if methname in ("get_buckets", "slot_readv"):
            return defer.succeed({})
        if methname == "allocate_buckets":
            return defer.succeed((set(), {}))
        return defer.succeed(None)

    def notifyOnDisconnect(self, *a, **kw): return None
    def get_version(self): return self.callRemote("get_version")
    def get_buckets(self, si): return self.callRemote("get_buckets", si)
    def slot_readv(self, si, shares, readv): return self.callRemote("slot_readv", si, shares, readv)
    def add_lease(self, si, renew, cancel): return self.callRemote("add_lease", si, renew, cancel)

    def allocate_buckets(self, si, renew, cancel, sharenums, size, canary):
        return self.callRemote("allocate_buckets", si, renew, cancel, sharenums, size, canary)


def run_announcement_case(ctx, cs, A):
    import re
    from twisted.internet import task
    from allmydata import uri
    from allmydata.client import SecretHolder
    from allmydata.monitor import Monitor
    from allmydata.node import config_from_string
    from allmydata.storage_client import NativeStorageServer, HTTPNativeStorageServer, StorageClientConfig, ANONYMOUS_STORAGE_NURLS
    from allmydata.immutable import upload
    from allmydata.immutable.checker import Checker
    from allmydata.mutable.filenode import MutableFileNode
    from allmydata.mutable.servermap import ServermapUpdater, ServerMap
    from allmydata.mutable.common import MODE_CHECK
    import common
    shape, http = A["shape"], A["http"]
    tag = shape + (":http" if http else "")
    tubid, secret, si, wk, fp = _u(A["tubid"]), _u(A["secret"]), _u(A["si"]), _u(A["wk"]), _u(A["fp"])
    seed = None if A["seed"] is None else _u(A["seed"])
    server_id = A["server_id"].encode("ascii")
    ann = {"anonymous-storage-FURL": "pb://%s@tcp:127.0.0.1:1/%s" % (b32(tubid).decode("ascii"), b32(_u(A["swiss"])).decode("ascii")),
           "nickname": "srv-" + shape}
    if seed is not None:
        ann["permutation-seed-base32"] = b32(seed).decode("ascii")
    wire = _Wire()
    if http:
        ann[ANONYMOUS_STORAGE_NURLS] = ["pb://%s@127.0.0.1:1/%s#v=1" % (b32(_pat(7, 32)).decode("ascii"), b32(_pat(9, 16)).decode("ascii"))]
        srv = HTTPNativeStorageServer(server_id, ann, {"tcp": "tcp"}, reactor=task.Clock())
        srv._istorage_server = wire            # what a successful connection would have installed
        srv._version = wire.version
        from allmydata.util.connection_status import ConnectionStatus
        srv._connection_status = ConnectionStatus(True, "connected", {}, 0.0, 0.0)
    else:
        cfg = config_from_string(common.WORK + "/c17-unused-node", "", "")
        srv = NativeStorageServer(server_id, ann, None, {}, cfg, StorageClientConfig())
        srv._rref = wire                       # what NativeStorageServer._got_connection does, minus the network
        srv._is_connected = True
    args = {"history": A, "step": "announcement"}
    # -- the seeds the server object answers; model inputs are the decoded announcement, parsed here independently
    m = re.match(rb"^v0-([0-9a-zA-Z]{52})$", server_id)
    pubkey = unb32(m.group(1)) if m else None
    want_perm = seed if seed is not None else (pubkey if pubkey is not None else hashlib.sha256(server_id).digest())
    got = (srv.get_permutation_seed(), srv.get_tubid(), srv.get_lease_seed(), srv.get_foolscap_write_enabler_seed())
    line = "nativeserver %s %s %s %s %s" % ("http" if http else "foolscap", hx(server_id), hx(tubid),
                                            "none" if seed is None else hx(seed), "none" if pubkey is None else hx(pubkey))
    cs.add("announcement->seeds " + tag, line, ":".join(hx(x) for x in got), ":".join(hx(x) for x in (want_perm, tubid, tubid, tubid)),
           args=args, signature=("lease-seed-not-tubid:" + tag) if got[2] != tubid else ("server-seeds-differ:" + tag))
    ctx.count("announce:" + tag)
    sh = SecretHolder(secret, b"convergence")
    tok = srv_tok(server_id, tubid, tubid, 0)          # the record the SPEC prescribes for this server

    class OneServerBroker:
        def get_servers_for_psi(self, psi, for_upload=False): return [srv]
        def get_connected_servers(self): return [srv]
        def get_all_serverids(self): return [srv.get_serverid()]

    def sent(meth):
        out = [a for (mn, a) in wire.calls if mn == meth]
        del wire.calls[:]
        return out

    def lease_case(what, line, got_si, want_si, renew, cancel):
        cs.add("announcement %s: %s" % (tag, what), line, "%s:%s:%s" % (hx(got_si), hx(renew), hx(cancel)),
               guard(lambda: "%s:%s:%s" % (hx(want_si), hx(r_renew(secret, want_si, tubid)), hx(r_cancel(secret, want_si, tubid)))),
               args=dict(args, step=what), signature="lease-seed-not-tubid:%s:%s" % (tag, what))

    # -- immutable check --add-lease
    vcap = uri.CHKFileVerifierURI(si, fp, 3, 10, 12345)
    Checker(vcap, [srv], verify=False, add_lease=True, secret_holder=sh, monitor=Monitor()).start().addErrback(lambda f: None)
    for (s_si, s_r, s_c) in sent("add_lease"):
        lease_case("checker add_lease", "chkaddlease %s %s %s" % (hx(secret), hx(si), tok), s_si, si, s_r, s_c)
    # -- uploader: allocate_buckets
    sel = upload.Tahoe2ServerSelector(b"c17", upload_status=upload.UploadStatus(), reactor=task.Clock())
    sel.get_shareholders(OneServerBroker(), sh, si, 1000, 100, 1, 1, 1, 1, 500).addErrback(lambda f: None)
    for a in sent("allocate_buckets"):
        lease_case("upload allocate_buckets", "chkaddlease %s %s %s" % (hx(secret), hx(si), tok), a[0], si, a[1], a[2])
    # -- mutable node getters and mutable check --add-lease
    cap = uri.WriteableSSKFileURI(wk, fp)
    msi = REF1["ssk_storage_index_hash"](REF1["ssk_readkey_hash"](wk))
    node = MutableFileNode(OneServerBroker(), sh, {"k": 3, "n": 10}, None).init_from_cap(cap)
    cs.add("announcement %s: MutableFileNode.get_renewal_secret" % tag, "renew %s %s %s" % (hx(secret), hx(msi), hx(tubid)),
           guard(node.get_renewal_secret, srv), guard(r_renew, secret, msi, tubid), args=dict(args, step="node renew"),
           signature="lease-seed-not-tubid:%s:node-renew" % tag)
    cs.add("announcement %s: MutableFileNode.get_cancel_secret" % tag, "cancel %s %s %s" % (hx(secret), hx(msi), hx(tubid)),
           guard(node.get_cancel_secret, srv), guard(r_cancel, secret, msi, tubid), args=dict(args, step="node cancel"),
           signature="lease-seed-not-tubid:%s:node-cancel" % tag)
    cs.add("announcement %s: MutableFileNode.get_write_enabler" % tag, "f2 ssk_write_enabler_hash %s %s" % (hx(wk), hx(tubid)),
           guard(node.get_write_enabler, srv), guard(_r_we, wk, tubid), args=dict(args, step="node write enabler"),
           signature="write-enabler-seed-not-tubid:%s" % tag)
    ServermapUpdater(node, OneServerBroker(), Monitor(), ServerMap(), MODE_CHECK, add_lease=True).update().addErrback(lambda f: None)
    for (s_si, s_r, s_c) in sent("add_lease"):
        lease_case("servermap add_lease", "mutaddlease %s %s %s" % (hx(secret), hx(wk), tok), s_si, msi, s_r, s_c)


def gen_announcements(ctx, cs, n):
    for i in range(n):
        A = make_announcement_case(ctx.rng)
        attempt(ctx, "announcement->seeds", lambda: run_announcement_case(ctx, cs, A))


def gen_grid_use(ctx, cs, n):
    for i in range(n):
        S = make_grid_scenario(ctx.rng)
        if i == 0:   # always one grid whose limited server is in the middle of the list of a 6-server grid
            S["servers"], S["limited"], S["n"], S["k"] = 6, {"2": "readonly"}, 5, 2
            S["seeds"] = S["seeds"][:6] + [[_h(rbytes(ctx.rng, 20)), _h(rbytes(ctx.rng, 20))] for _ in range(6 - len(S["seeds"][:6]))]
            while len(S["files"]) < 4:
                S["files"].append({"data": _h(rbytes(ctx.rng, 300)), "conv": _h(rbytes(ctx.rng, 16))})
        attempt(ctx, "grid secrets at use", lambda: run_grid_scenario(ctx, cs, S))
        ctx.count("use:grid scenarios")
        ctx.count("use:grids with %d limited servers" % len(S["limited"]))


HISTORY_RUNNERS = {"objects": run_object_history, "selector": run_selector_history, "dirnode": run_dirnode_history,
                   "pool": run_pool_history, "grid": run_grid_scenario, "dircopy": run_dircopy_scenario,
                   "announce": run_announcement_case}


def gen_histories(ctx, cs, n):
    rng = ctx.rng
    for i in range(n):
        H = make_object_history(rng)
        attempt(ctx, "history objects", lambda: run_object_history(ctx, cs, H))
        ctx.count("history:objects")
        if i % 4 == 0:
            Hs = make_selector_history(rng)
            attempt(ctx, "history selector", lambda: run_selector_history(ctx, cs, Hs))
            ctx.count("history:selector")
        if i % 2 == 0:
            Hd = make_dirnode_history(rng)
            attempt(ctx, "history dirnode", lambda: run_dirnode_history(ctx, cs, Hd))
            ctx.count("history:dirnode")
        Hp = make_pool_history(rng)
        attempt(ctx, "history pool", lambda: run_pool_history(ctx, cs, Hp))
        ctx.count("history:pool")


def gen_mutable_keys(ctx, cs, n):
    """derive_mutable_keys on real RSA keys (key generation is the slow part, so only a few)"""
    from allmydata.crypto import rsa
    from allmydata.mutable.common import derive_mutable_keys
    from allmydata import uri
    for _ in range(n):
        priv, pub = rsa.create_signing_keypair(2048)
        pub_s = rsa.der_string_from_verifying_key(pub)
        priv_s = rsa.der_string_from_signing_key(priv)
        writekey, encprivkey, fingerprint = derive_mutable_keys((pub, priv))
        ref = "%s:%s" % (hx(REF1["ssk_writekey_hash"](priv_s)), hx(REF1["ssk_pubkey_fingerprint_hash"](pub_s)))
        cs.add("derive_mutable_keys", "mutkeys %s %s" % (hx(pub_s), hx(priv_s)), "%s:%s" % (hx(writekey), hx(fingerprint)), ref)
        w = uri.WriteableSSKFileURI(writekey, fingerprint)
        cs.add("derive_mutable_keys->cap", "wcap " + hx(writekey),
               ":".join(hx(x) for x in (w.readkey, w.storage_index, w.get_readonly().readkey, w.get_readonly().storage_index,
                                        w.get_verify_cap().storage_index, w.get_readonly().get_verify_cap().storage_index)))


def known_answers(ctx, cs):
    from allmydata.util import hashutil
    for tag, v, exp in KA_TH:
        cs.add("KA tagged_hash", "th %s %s none" % (hx(tag), hx(v)), hx(hashutil.tagged_hash(tag, v)),
               hx(r_tagged(tag, v)), expect=hx(unb32(exp)))
    for tag, a, b, exp in KA_TPH:
        cs.add("KA tagged_pair_hash", "tph %s %s %s none" % (hx(tag), hx(a), hx(b)), hx(hashutil.tagged_pair_hash(tag, a, b)),
               hx(r_pair(tag, a, b)), expect=hx(unb32(exp)))
    for name, a, exp in KA_F1:
        cs.add("KA " + name, "f1 %s %s" % (name, hx(a)), guard(getattr(hashutil, name), a), guard(REF1[name], a),
               expect=hx(unb32(exp)))
    for name, a, b, exp in KA_F2:
        cs.add("KA " + name, "f2 %s %s %s" % (name, hx(a), hx(b)), guard(getattr(hashutil, name), a, b),
               guard(REF2[name], a, b), expect=hx(unb32(exp)))
    for k, n, seg, data, conv, exp in KA_CONV:
        cs.add("KA convergence_hash", "conv %d %d %d %s %s" % (k, n, seg, hx(data), hx(conv)),
               guard(hashutil.convergence_hash, k, n, seg, data, conv), hx(r_tagged(r_convtag(k, n, seg, conv), data, 16)),
               expect=hx(unb32(exp)))
    for k, n, seg, conv, exp in KA_CONVTAG:
        cs.add("KA convergence_tag", "convtag %d %d %d %s" % (k, n, seg, hx(conv)),
               guard(hashutil._convergence_hasher_tag, k, n, seg, conv), hx(r_convtag(k, n, seg, conv)), expect=hx(exp))
    for (k, n) in [(0, 1), (2, 1), (257, 1), (2, 0), (2, 1), (2, 257)]:   # test_convergence_hasher_out_of_bounds
        cs.add("KA convergence_tag bounds", "convtag %d %d 1024 %s" % (k, n, hx(b"\x42" * 16)),
               guard(hashutil._convergence_hasher_tag, k, n, 1024, b"\x42" * 16), "ValueError", expect="ValueError")
    for tag, data, exp in KA_HMAC:
        cs.add("KA hmac", "hmac %s %s" % (hx(tag), hx(data)), hx(hashutil.hmac(tag, data)), expect=hx(unb32(exp)))
    for psi, seed, exp in KA_PERMUTE:
        cs.add("KA permute_server_hash", "permute %s %s" % (hx(psi), hx(seed)), hx(hashutil.permute_server_hash(psi, seed)),
               hashlib.sha1(psi + seed).hexdigest(), expect=hx(unb32(exp)))
    for ls, si, tub, exp in KA_RENEW:
        ls, si, tub = unb32(ls), unb32(si), unb32(tub)
        impl = hashutil.bucket_renewal_secret_hash(
            hashutil.file_renewal_secret_hash(hashutil.my_renewal_secret_hash(ls), si), tub)
        cs.add("KA lease.rst renewal secret", "renew %s %s %s" % (hx(ls), hx(si), hx(tub)), hx(impl), hx(r_renew(ls, si, tub)),
               expect=hx(unb32(exp)))


def extracted_constants_monitor(ctx):
    """the property statement names lengths: SI/keys 16 bytes, secrets/hashes 32 bytes — check the live constants and outputs"""
    from allmydata.util import hashutil
    if (hashutil.CRYPTO_VAL_SIZE, hashutil.KEYLEN, hashutil.IVLEN) != (32, 16, 16):
        ctx.violation("CRYPTO_VAL_SIZE/KEYLEN/IVLEN differ from the documented 32/16/16",
                      {"kind": "sizes", "values": [hashutil.CRYPTO_VAL_SIZE, hashutil.KEYLEN, hashutil.IVLEN]}, "sizes")
    ctx.case(None)


# --- fixed corpus: one minimal input / history per known mechanism, independent of VERIF_SEED -----------
#
# Runs before any random generation (and alone when VERIF_CORPUS_ONLY=1).  All bytes are literal patterns, nothing is
# drawn from an rng, so editing the random generators cannot silently lose one of these mechanisms:
#   known answers   — any edit of a tag, a truncation, the netstring/pair shape (test_hashutil.py, lease.rst vectors)
#   corpus:ws-secret (seeded C17-b) — a master lease secret whose first/last byte is ASCII white space must be hashed as is
#   corpus:reannounced (seeded C17-a) — one long-lived MutableFileNode asked about two servers with the same server id and
#                     different seeds (and the converse), in both orders
#   corpus:filtered (seeded C17-c) — uploader tracker tables / allocate_buckets traffic when a candidate server is filtered
#                     out first / in the middle / last; a grid with a read-only server; add-lease and the leases on disk
#   corpus:dircopy (seeded C17-d) — directories created from another directory's listing (AuxValueDict) by every route,
#                     modified copies, in-place modification: each rwcap field under the NEW directory's child-cap key
#   corpus:announcement (seeded C17-e) — real NativeStorageServer / HTTPNativeStorageServer from announcements of every shape
#                     (modern, legacy, legacy-relocated 20-byte seed != TubID, no seed, …): lease seed = the FURL's Tub id
#   corpus:caps, corpus:dirnode — cap classes and dirnode child-cap keys on crossed arguments (call-site mutations of round 1)

def _pat(start, n, step=1):
    return bytes((start + step * i) & 0xff for i in range(n))


def fixed_corpus(ctx, cs):
    attempt(ctx, "corpus known answers", lambda: known_answers(ctx, cs))
    attempt(ctx, "corpus constants", lambda: extracted_constants_monitor(ctx))

    sidA, sidB, sidC = b"\xa1" * 20, b"\xb2" * 20, b"\xc3" * 32
    L = [_pat(0x10, 20), _pat(0x40, 20, 3), _pat(0x90, 20, 5)]
    W = [_pat(0x21, 20, 7), _pat(0x55, 20, 2), _pat(0xe0, 20, 9)]
    wk1, wk2 = _pat(0x01, 16), _pat(0x77, 16, 5)
    fp = _pat(0x30, 32)

    # -- C17-b: white space (and other text-sensitive bytes) at the ends of the binary master secret
    ws_secrets = [bytes([a]) + _pat(0x61 + n, 30) + bytes([b])
                  for n, (a, b) in enumerate([(0x09, 0x0a), (0x0b, 0x0c), (0x0d, 0x20), (0x20, 0x41), (0x41, 0x0a), (0x00, 0x00)])]
    Hb = {"type": "objects", "secrets": [_h(x) for x in ws_secrets],
          "servers": [[_h(sidA), _h(L[0]), _h(W[0])], [_h(sidB), _h(L[1]), _h(W[1])]],
          "nodes": [{"wk": _h(wk1), "fp": _h(fp), "holder": i, "mdmf": bool(i % 2)} for i in range(len(ws_secrets))],
          "checkers": [{"key": _h(wk2), "fp": _h(fp), "holder": i} for i in range(len(ws_secrets))],
          "calls": [c for i in range(len(ws_secrets)) for c in (
              ["holder", i, "get_renewal_secret", 0], ["holder", i, "get_cancel_secret", 0],
              ["node", i, "get_renewal_secret", 0], ["node", i, "get_cancel_secret", 1],
              ["checker", i, "_get_renewal_secret", 1], ["checker", i, "_get_cancel_secret", 0])]}
    attempt(ctx, "corpus:ws-secret", lambda: run_object_history(ctx, cs, Hb))

    # -- C17-a: a re-announced server (same id, new seeds), the converse (new id, same seeds), both orders, repeated
    servers = [[sidA, L[0], W[0]], [sidA, L[1], W[1]], [sidB, L[0], W[0]], [sidA, L[0], W[2]], [sidA, L[2], W[0]], [sidC, L[1], W[1]]]
    calls = []
    for m in ("get_renewal_secret", "get_cancel_secret", "get_write_enabler"):
        calls += [["node", 0, m, j] for j in (0, 1, 2, 3, 4, 5, 0, 1)]      # node 0: old announcement first
        calls += [["node", 1, m, j] for j in (1, 0, 4, 3, 2, 5, 1, 0)]      # node 1: new announcement first
    for m in ("_get_renewal_secret", "_get_cancel_secret"):
        calls += [["checker", 0, m, j] for j in (0, 1, 2, 0)]
    calls.append(["node", 0, "init_from_cap", 0])                            # node 0 pointed at another cap …
    for m in ("get_renewal_secret", "get_cancel_secret", "get_write_enabler"):
        calls += [["node", 0, m, j] for j in (0, 1)] + [["node", 1, m, 0]]   # … its answers follow, node 1's do not
    Ha = {"type": "objects", "rekeys": [_h(wk2)], "secrets": [_h(_pat(0x80, 32, 3))], "servers": [[_h(x) for x in sv] for sv in servers],
          "nodes": [{"wk": _h(wk1), "fp": _h(fp), "holder": 0, "mdmf": False}, {"wk": _h(wk1), "fp": _h(fp), "holder": 0, "mdmf": True}],
          "checkers": [{"key": _h(wk2), "fp": _h(fp), "holder": 0}], "calls": calls}
    attempt(ctx, "corpus:reannounced", lambda: run_object_history(ctx, cs, Ha))

    # -- C17-c: pairing of servers with lease secrets when a candidate is filtered out (first / middle / last / two / none / all)
    frs, fcs = _pat(0x11, 32, 3), _pat(0x99, 32, 5)
    ids = [bytes([0xd0 + j]) * 20 for j in range(5)]
    seeds = [_pat(0x05 + 0x21 * j, 20, 1 + j) for j in range(5)]
    BIG = 2 ** 40
    for small in ([0], [2], [4], [1, 3], [], [0, 1, 2, 3, 4]):
        recs = [(ids[j], seeds[j], (10 if j in small else BIG)) for j in range(5)]
        attempt(ctx, "corpus:filtered trackers", lambda: run_trackers_case(ctx, cs, recs, 1400, frs, fcs,
                                                                          kind="corpus Tahoe2ServerSelector._create_trackers"))
    Hc = {"type": "selector", "secret": _h(_pat(0x0a, 32, 7)), "rounds": [
        {"si": _h(_pat(0x31, 16)), "total": 3, "servers": [[_h(ids[j]), _h(seeds[j]), (0 if j == 0 else BIG)] for j in range(4)]},
        {"si": _h(_pat(0x32, 16)), "total": 2, "servers": [[_h(ids[j]), _h(seeds[j]), (10 if j == 1 else BIG)] for j in range(4)]},
        {"si": _h(_pat(0x31, 16)), "total": 4, "servers": [[_h(ids[j]), _h(seeds[(j + 1) % 5]), (1400 if j == 3 else BIG)] for j in range(4)]}]}
    attempt(ctx, "corpus:filtered selector", lambda: run_selector_history(ctx, cs, Hc))
    # the same on a real grid: read-only server #2 of 6, four storage indexes (it is first / middle / last in some permutation),
    # upload, check --add-lease, repair, mutable create / publish / check / repair; the master secret ends in a newline byte
    Sg = {"type": "grid", "seed": 3, "servers": 6, "limited": {"2": "readonly"}, "k": 2, "n": 5,
          "files": [{"data": _h(_pat(n, 300 + 7 * n, 3)), "conv": _h(_pat(0x63 + n, 16))} for n in range(4)],
          "repair": True, "mutable": True, "mdmf": False, "mkey": 0,
          "seeds": [[_h(_pat(0x12 + 0x17 * j, 20, 2 + j)), _h(_pat(0xa3 + 0x0b * j, 20, 3 + j))] for j in range(6)],
          "master": _h(b"\x20" + _pat(0x3c, 30, 5) + b"\x0a")}
    attempt(ctx, "corpus:filtered grid", lambda: run_grid_scenario(ctx, cs, Sg))

    # -- round-1 call-site mutations: cap classes and dirnode keys on crossed arguments
    for fn in ("wcap", "rcap", "chk", "ssk_write_enabler_hash", "file_cancel_secret_hash", "mutable_rwcap_key_hash"):
        la, lb = F2_DOC.get(fn, (16, 0))
        Hp = {"type": "pool", "fn": fn, "pa": [_h(_pat(0x10 * (i + 1), la, i + 1)) for i in range(3)],
              "pb": [_h(_pat(0x07 * (i + 3), lb, i + 2)) for i in range(3)],
              "calls": [[0, 0], [0, 1], [1, 0], [1, 1], [2, 2], [0, 0]]}
        attempt(ctx, "corpus:caps " + fn, lambda: run_pool_history(ctx, cs, Hp))
    Hd = {"type": "dirnode", "wks": [_h(wk1), _h(wk2)],
          "uris": [_h(b"URI:SSK:" + b32(_pat(0x21, 16)) + b":" + b32(_pat(0x51, 32))), _h(b"URI:CHK:short"), _h(b"")],
          "calls": [[0, 0], [1, 0], [0, 1], [1, 1], [0, 2], [0, 0]]}
    attempt(ctx, "corpus:dirnode", lambda: run_dirnode_history(ctx, cs, Hd))
    # -- C17-d: a directory built from another directory's listing must encrypt under ITS OWN write key (all routes)
    Sd = {"type": "dircopy", "seed": 17, "src_mdmf": False, "routes": list(DIRCOPY_ROUTES),
          "children": ["imm", "m1", "m2", "ro", "sub"], "data": _h(_pat(0x20, 200, 3))}
    attempt(ctx, "corpus:dircopy", lambda: run_dircopy_scenario(ctx, cs, Sd))
    # -- C17-e: announcement -> seeds; the lease seed is the FURL's Tub id whatever permutation seed is announced
    for n, shape in enumerate(ANN_SHAPES):
        for http in (False, True):
            tub = _pat(0x15 + 9 * n, 20, 3)
            pub = _pat(0x40 + n, 32, 5)
            sid = (b"v0-" + b32(pub)) if shape != "no-seed-nonpubkey-id" else b"srv-legacyname"
            seed = {"modern": pub, "legacy": tub, "legacy-relocated": _pat(0xc1 + n, 20, 7), "legacy-relocated-32": _pat(0xd1, 32, 3),
                    "no-seed": None, "no-seed-nonpubkey-id": None, "short-seed": _pat(0x33, 10)}[shape]
            Ae = {"type": "announce", "shape": shape, "http": http, "server_id": sid.decode("ascii"), "tubid": _h(tub),
                  "seed": None if seed is None else _h(seed), "swiss": _h(_pat(0x77, 20)), "secret": _h(_pat(0x0b + n, 32, 3)),
                  "si": _h(_pat(0x61 + n, 16)), "wk": _h(_pat(0x81 + n, 16, 5)), "fp": _h(_pat(0x30, 32))}
            attempt(ctx, "corpus:announcement " + shape, lambda: run_announcement_case(ctx, cs, Ae))
    ctx.count("corpus cases", len(cs.rows))


def run(ctx):
    import os
    cs = Cases(ctx)
    if ctx.replay:
        replay(ctx, ctx.replay)
        return
    fixed_corpus(ctx, cs)          # always first, independent of VERIF_SEED
    steps = [("primitives", lambda: gen_primitives(ctx, cs, ctx.budget(60, 1500))),
             ("generic tagged hashes", lambda: gen_generic(ctx, cs, ctx.budget(250, 8000))),
             ("named derivations", lambda: gen_named(ctx, cs, ctx.budget(30, 1500))),
             ("convergence", lambda: gen_convergence(ctx, cs, ctx.budget(150, 5000))),
             ("hmac/permute", lambda: gen_untagged(ctx, cs, ctx.budget(100, 3000))),
             ("call sites", lambda: gen_callsites(ctx, cs, ctx.budget(120, 3000))),
             ("uploader tracker tables", lambda: gen_trackers(ctx, cs, ctx.budget(150, 5000))),
             ("call-site histories", lambda: gen_histories(ctx, cs, ctx.budget(40, 1200))),
             ("secrets at the point of use (in-process grid)", lambda: gen_grid_use(ctx, cs, ctx.budget(8, 150))),
             ("dirnode child-cap keys at the point of use (in-process grid)", lambda: gen_dircopy(ctx, cs, ctx.budget(2, 40))),
             ("announcement -> seeds (real NativeStorageServer objects)", lambda: gen_announcements(ctx, cs, ctx.budget(60, 2000))),
             ("derive_mutable_keys", lambda: gen_mutable_keys(ctx, cs, ctx.budget(2, 12)))]
    if os.environ.get("VERIF_CORPUS_ONLY") == "1":
        ctx.note("VERIF_CORPUS_ONLY=1: only the fixed corpus was run (%d cases)" % len(cs.rows))
        steps = []
    for label, f in steps:
        attempt(ctx, label, f)
    cs.finish()
    for kind, case, line, impl, ref, expect in cs.rows[:200:40]:
        ctx.sample({"kind": kind, "line": line[:160], "impl": impl[:80]})


def eval_line(line):
    """(implementation output, specification-reference output or None) for a self-contained driver line, at hashutil level"""
    from allmydata.util import hashutil
    from common import unhx
    t = line.split(" ")
    op = t[0]
    tr = lambda x: None if x == "none" else int(x)
    if op == "f1":
        a = unhx(t[2])
        return guard(getattr(hashutil, t[1]), a), guard(REF1[t[1]], a)
    if op == "f2":
        a, b = unhx(t[2]), unhx(t[3])
        return guard(getattr(hashutil, t[1]), a, b), guard(REF2[t[1]], a, b)
    if op == "th":
        tag, v = unhx(t[1]), unhx(t[2])
        return guard(hashutil.tagged_hash, tag, v, tr(t[3])), hx(ref_trunc(r_tagged(tag, v), tr(t[3])))
    if op == "tph":
        tag, a, b = unhx(t[1]), unhx(t[2]), unhx(t[3])
        return guard(hashutil.tagged_pair_hash, tag, a, b, tr(t[4])), hx(ref_trunc(r_pair(tag, a, b), tr(t[4])))
    if op == "hasher":
        tag, chunks = unhx(t[1]), [unhx(c) for c in t[3:]]
        h = hashutil.tagged_hasher(tag, tr(t[2]))
        for c in chunks:
            h.update(c)
        return hx(h.digest()), hx(ref_trunc(r_tagged(tag, b"".join(chunks)), tr(t[2])))
    if op == "conv":
        k, n, seg, data, conv = int(t[1]), int(t[2]), int(t[3]), unhx(t[4]), unhx(t[5])
        return (guard(hashutil.convergence_hash, k, n, seg, data, conv),
                guard(lambda: r_tagged(r_convtag(k, n, seg, conv), data, 16)))
    if op == "convtag":
        k, n, seg, conv = int(t[1]), int(t[2]), int(t[3]), unhx(t[4])
        return guard(hashutil._convergence_hasher_tag, k, n, seg, conv), guard(r_convtag, k, n, seg, conv)
    if op in ("renew", "cancel"):
        s_, si, seed = unhx(t[1]), unhx(t[2]), unhx(t[3])
        if op == "renew":
            return (guard(lambda: hashutil.bucket_renewal_secret_hash(hashutil.file_renewal_secret_hash(
                hashutil.my_renewal_secret_hash(s_), si), seed)), guard(r_renew, s_, si, seed))
        return (guard(lambda: hashutil.bucket_cancel_secret_hash(hashutil.file_cancel_secret_hash(
            hashutil.my_cancel_secret_hash(s_), si), seed)), guard(r_cancel, s_, si, seed))
    if op == "hmac":
        tag, data = unhx(t[1]), unhx(t[2])
        return guard(hashutil.hmac, tag, data), hashlib.sha256(
            bytes(c ^ 0x5c for c in tag) + hashlib.sha256(bytes(c ^ 0x36 for c in tag) + data).digest()).hexdigest()
    if op == "permute":
        return guard(hashutil.permute_server_hash, unhx(t[1]), unhx(t[2])), hashlib.sha1(unhx(t[1]) + unhx(t[2])).hexdigest()
    if op in ("wcap", "rcap", "chk", "dirkey"):
        from allmydata import uri
        if op == "wcap":
            wk = unhx(t[1])
            w = uri.WriteableSSKFileURI(wk, b"\x00" * 32)
            ro = w.get_readonly()
            rk = REF1["ssk_readkey_hash"](wk)
            si = REF1["ssk_storage_index_hash"](rk)
            return (":".join(hx(x) for x in (w.readkey, w.storage_index, ro.readkey, ro.storage_index,
                                             w.get_verify_cap().storage_index, ro.get_verify_cap().storage_index)),
                    ":".join(hx(x) for x in (rk, si, rk, si, si, si)))
        if op == "rcap":
            return hx(uri.ReadonlySSKFileURI(unhx(t[1]), b"\x00" * 32).storage_index), hx(REF1["ssk_storage_index_hash"](unhx(t[1])))
        if op == "chk":
            return (guard(lambda: uri.CHKFileURI(unhx(t[1]), b"\x00" * 32, 3, 10, 1).get_storage_index()),
                    hx(REF1["storage_index_hash"](unhx(t[1]))))
        rsalt = REF1["mutable_rwcap_salt_hash"](unhx(t[2]))
        return (guard(lambda: "%s:%s" % (hx(hashutil.mutable_rwcap_salt_hash(unhx(t[2]))),
                                         hx(hashutil.mutable_rwcap_key_hash(hashutil.mutable_rwcap_salt_hash(unhx(t[2])), unhx(t[1]))))),
                "%s:%s" % (hx(rsalt), hx(REF2["mutable_rwcap_key_hash"](rsalt, unhx(t[1])))))
    return None, None


def replay(ctx, obj):
    """re-evaluate one recorded case.  The driver line is self-contained; the implementation side and the specification
    reference are recomputed at hashutil / cap-class level (a call-site case is replayed through the functions it calls)."""
    case = obj.get("case") or {}
    line = case.get("line")
    H = (case.get("args") or {}).get("history")
    if H and H.get("type") in HISTORY_RUNNERS:
        # a history case is replayed as the whole history on fresh long-lived objects
        cs = Cases(ctx)
        attempt(ctx, "replay history " + H["type"], lambda: HISTORY_RUNNERS[H["type"]](ctx, cs, H))
        cs.finish()
        ctx.sample({"history": H["type"], "steps": len(H.get("calls", H.get("rounds", []))), "failing step": (case.get("args") or {}).get("step")})
        return
    if not line:
        ctx.note("replay file carries no driver line (e.g. a broken proof obligation only): running the full generator instead")
        ctx.replay = None
        run(ctx)
        return
    cs = Cases(ctx)
    impl, ref = None, None
    try:
        impl, ref = eval_line(line)
    except Exception as e:  # malformed replay file
        ctx.note("replay: could not recompute the implementation side: %r" % e)
    expect = (obj.get("detail") or {}).get("expected")
    if impl is None:
        out = ctx.model([line])
        ctx.case((line,))
        ctx.sample({"line": line[:200], "model": out[0] if out else None})
        return
    cs.add("replay " + case.get("kind", "?"), line, impl, ref, expect=expect)
    cs.finish()
    ctx.sample({"line": line[:200], "impl": impl, "spec": ref, "expected": expect})
