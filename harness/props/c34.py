"""C34 — introducer announcements are authentic and fresh (introducer/client.py, introducer/common.py)."""
import json
import math
import os
import shutil

ID = "C34"
LEAN_PROPS = "Tahoe.Props.C34"
DRIVER = "C34"
GENERATED = []
SOURCES = ["src/allmydata/introducer/client.py", "src/allmydata/introducer/common.py", "src/allmydata/crypto/ed25519.py"]
DESIGN_REF = "DESIGN.md §2 C34, §3 (C34 row)"
TECHNIQUE = ("Lean 4 theorems over an executable model of unsign_from_foolscap, IntroducerClient.got_announcements, _process_announcement and "
             "subscribe_to with symbolic Ed25519 and key strings decoded to verifying keys; differential correspondence on a real "
             "IntroducerClient fed seeded histories of really signed / forged / replayed / reordered / malformed / re-spelled announcement "
             "tuples, late subscriptions and many-key crowds; monitor written from the statement: authenticity and attribution, the seqnum "
             "rule per verifying key on the delivered sequence, and batch-independence against a second real client fed one announcement "
             "per call")
LEVEL_TEXT = ("11 theorems in Tahoe.Props.C34, for all histories of batches of arbitrary wire tuples (and subscribe_to calls): "
              "accepted_implies_verified_and_attributed, accepted_implies_signed_by_key_owner (under Unforgeable), "
              "accepted_implies_verified_with_subscriptions, late_subscriber_is_told_the_stored_announcements, "
              "replace_requires_higher_seqnum, seqnum_monotone, seqnum_monotone_with_subscriptions, seqnum_rule_per_verifying_key, "
              "respelling_is_irrelevant, bad_one_does_not_stop_batch, batch_is_sequential.  The table of remembered announcements is unbounded "
              "in the model.  Tied to introducer/client.py and common.py by comparing, per got_announcements / subscribe_to call, every "
              "unsign_from_foolscap outcome, the _debug_counts deltas, the notifications and the final _inbound_announcements.")
LEVEL_NOTE = ("Lean kernel + standard axioms only; Ed25519 unforgeability is an explicit hypothesis (symbolic instance); UTF-8/JSON decoding "
              "and the reads made of the decoded object are the model parameter `parse`, key-string decoding the parameter `dec`, both "
              "computed by the harness with the code's own library calls.  The batch-abort defect found here (only BadSignature was caught) "
              "is repaired in /repo (fixes/C34-batch-except.diff, committed); the model is the repaired loop.  Not modelled: the announcement "
              "cache file (_load_announcements delivers locally cached announcements without re-verifying them), announcements containing NaN.")
RULE = ("seeded histories against a real allmydata.introducer.client.IntroducerClient (no tub, no network): got_announcements batches of "
        "wire tuples (new / replay / old / same, lower, missing, non-integer seqnum; first seqnum regularly 0, negative or huge; wrong key, "
        "flipped message or signature, bad encodings, other spellings of a genuine key string, correctly signed malformed content, wrong "
        "tuple shapes) interleaved with subscribe_to calls; a case is one wire tuple or subscribe_to call; distinct = distinct (symbolic "
        "history prefix, event); non-trivial = not the first event of its history.  A fixed corpus runs first (batch-abort kinds, stored "
        "seqnum 0 / negative / huge, signature re-used on other bytes, key spellings, late subscription, 2 victims + 257 one-shot keys then "
        "replays); the random many-key family runs in the thorough tier; VERIF_CORPUS_ONLY=1 runs only the corpus")
TRUSTED = ["lean/Tahoe/Introducer/Model.lean is a hand transcription of unsign_from_foolscap / got_announcements / _process_announcement / subscribe_to",
           "harness classify_*(): outcomes of key-string decoding (ed25519.verifying_key_from_string), base32 decoding of the signature, utf-8/json decoding, "
           "str(ann['service-name']), the log-description code and the type of ann['seqnum'] are computed with the same library calls the code uses",
           "mapping of real Ed25519 signatures to symbolic ids (re-signing every message with the pool keys; Ed25519 is deterministic)"]
ASSUMPTIONS = ["Ed25519: verification succeeds only for a signature produced with the matching private key on exactly those bytes (explicit hypothesis Unforgeable; every tuple's real verification outcome is compared with the symbolic one)",
               "key strings: the model files announcements under the decoded verifying key; the code files them under the received string; they agree because the decoder accepts one spelling per key — checked on every run by sending case / whitespace / pad-bit variants of genuine key strings (kind key-spelling), which must be refused",
               "the first observer of each service records the notifications (one entry per ObserverList.notify call); many-key histories use one client (the one-call-per-tuple reference client is left out for cost: the client rewrites its whole YAML cache on every accepted announcement)",
               "announcements containing NaN are not generated (a dict holding NaN is not == to an equal copy, so the duplicate test differs)"]

N_KEYS = 3
FURL_OK = "pb://62ubehyunnyhzs7r6vdonnm2hpi52w6y@127.0.0.1:36106/gydnp"


class Intern:
    def __init__(self):
        self.d = {}

    def __call__(self, x):
        if x not in self.d:
            self.d[x] = len(self.d)
        return self.d[x]


class EqIntern:
    """ids up to Python `==` (dict equality is what the duplicate test uses: 1 == 1.0 == True)"""
    def __init__(self):
        self.seen = []

    def __call__(self, x):
        for i, y in enumerate(self.seen):
            if type(x) is type(y) and x == y:
                return i
            if isinstance(x, dict) and isinstance(y, dict) and x == y:
                return i
        self.seen.append(x)
        return len(self.seen) - 1


_KEYCACHE = {}


def keypool(seeds):
    from allmydata.crypto import ed25519
    from allmydata.util.base32 import b2a
    res = []
    for h in seeds:
        if h not in _KEYCACHE:
            sk, pk = ed25519.signing_keypair_from_string(b"priv-v0-" + b2a(bytes.fromhex(h)))
            _KEYCACHE[h] = (sk, pk, ed25519.string_from_verifying_key(pk)[len(b"pub-"):])
        res.append(_KEYCACHE[h])
    return res


def big_pool_seeds(n):
    """a fixed pool of announcer keys shared by all many-key histories (key generation and lookup are cached)"""
    import hashlib
    return [hashlib.sha256(b"C34-pool-%d" % i).hexdigest() for i in range(n)]


# ----------------------------------------------------------------------------- wire encoding (JSON-able)

def enc(f):
    if f is None:
        return None
    if isinstance(f, bytes):
        return {"b": f.hex()}
    return {"s": f}


def dec(f):
    if f is None:
        return None
    if "b" in f:
        return bytes.fromhex(f["b"])
    return f["s"]


# ----------------------------------------------------------------------------- generation

def gen_stream(rng):
    from allmydata.crypto import ed25519
    from allmydata.util.base32 import b2a
    seeds = [rng.randbytes(32).hex() for _ in range(N_KEYS)]
    pool = keypool(seeds)
    subs = rng.choice([["storage"], ["storage"], ["storage"], ["storage", "helper"], []])
    # first sequence number of each announcer: regularly 0, small, negative or huge
    seq = [rng.choice([0, 0, 0, 1, 2, -1, -7, 2**63, 10**30, rng.randrange(1, 50)]) for _ in range(N_KEYS)]
    started = [False] * N_KEYS
    # a "stuck" announcer never raises its sequence number after the first announcement: everything it sends later
    # (equal / lower / missing / non-integer seqnum, different content) must be refused
    stuck = [rng.random() < 0.4 for _ in range(N_KEYS)]
    sent = [[] for _ in range(N_KEYS)]      # honest wires per key
    allw = []

    def sign(k, msg):
        return b"v0-" + b2a(ed25519.sign_data(pool[k][0], msg))

    def honest(k, d):
        msg = json.dumps(d).encode("utf-8")
        return [msg, sign(k, msg), pool[k][2]]

    def base_ann(k, s, svc="storage"):
        d = {"service-name": svc, "nickname": "n%d" % k, "x": rng.randrange(3)}
        if s is not None:
            d["seqnum"] = s
        if rng.random() < 0.5:
            d["anonymous-storage-FURL"] = FURL_OK
        return d

    def one():
        k = rng.randrange(N_KEYS)
        kind = rng.choices(
            ["new", "replay", "old", "same-seq", "lower-seq", "weird-seq", "other-service", "wrong-key", "flip-msg", "flip-sig",
             "bad-encoding", "signed-malformed", "garbage-shape", "key-spelling"],
            [30, 8, 6, 5, 5, 8, 5, 7, 5, 5, 10, 8, 3, 6])[0]
        meta = {"kind": kind, "signer": k, "claimed": k, "intact": True}
        if kind in ("replay", "old") and not sent[k]:
            kind = meta["kind"] = "new"
        if kind == "new" and started[k] and stuck[k]:
            kind = meta["kind"] = rng.choice(["same-seq", "lower-seq", "weird-seq", "weird-seq"])
        if kind == "new":
            if started[k]:
                seq[k] += rng.choice([1, 1, 2, 10])
            started[k] = True
            w = honest(k, base_ann(k, seq[k], rng.choice(["storage", "storage", "storage", "storage", "helper"])))
            sent[k].append(w)
        elif kind == "replay":
            w = list(sent[k][-1])
        elif kind == "old":
            w = list(rng.choice(sent[k]))
        elif kind == "same-seq":
            w = honest(k, dict(base_ann(k, seq[k]), y=rng.randrange(1000)))
        elif kind == "lower-seq":
            w = honest(k, dict(base_ann(k, seq[k] - rng.choice([1, 2, 30])), y=rng.randrange(1000)))
        elif kind == "weird-seq":
            v = rng.choice([None, "MISSING", "MISSING", "7", 2.5, seq[k] + 0.5, float(seq[k] + 3), float(seq[k]), -0.5, True, False, [1],
                            {"a": 1}, 10**30, -5, float("inf"), float("-inf"), "abc", str(seq[k] + 1)])
            d = base_ann(k, None)
            if v != "MISSING":
                d["seqnum"] = v
            d["y"] = rng.randrange(1000)
            w = honest(k, d)
            if not (stuck[k] and started[k]):
                sent[k].append(w)
                started[k] = True
        elif kind == "other-service":
            w = honest(k, base_ann(k, seq[k] + 1, rng.choice(["stub_client", "other", 5, None, ["storage"]])))
        elif kind == "wrong-key":
            a = rng.choice([x for x in range(N_KEYS) if x != k])
            w = honest(a, base_ann(k, seq[k] + rng.choice([1, 100])))
            w[2] = pool[k][2]                      # attacker a claims to be k
            meta.update(signer=a, claimed=k)
        elif kind == "flip-msg":
            w = list(rng.choice(sent[k])) if sent[k] and rng.random() < 0.7 else honest(k, base_ann(k, seq[k] + 1))
            m = w[0]
            if b'"seqnum": ' in m and rng.random() < 0.6:
                m = m.replace(b'"seqnum": ', b'"seqnum": 9', 1)       # bump the sequence number under the old signature
            else:
                i = rng.randrange(len(m))
                m = m[:i] + bytes([m[i] ^ (1 << rng.randrange(7))]) + m[i + 1:]
            w[0] = m
            meta["intact"] = False
        elif kind == "flip-sig":
            w = honest(k, base_ann(k, seq[k] + 1))
            from allmydata.util.base32 import a2b
            raw = a2b(w[1][3:])
            c = rng.random()
            if c < 0.6:
                i = rng.randrange(len(raw))
                raw = raw[:i] + bytes([raw[i] ^ (1 << rng.randrange(8))]) + raw[i + 1:]
            elif c < 0.8:
                raw = raw[:rng.choice([0, 5, 32, 40])]
            else:
                raw = rng.randbytes(64)
            w[1] = b"v0-" + b2a(raw)
            meta["intact"] = False
        elif kind == "key-spelling":
            # a genuinely signed announcement (fresh, equal or stale seqnum; or a replay) whose key string is another spelling
            # of the same key: case variants, trailing whitespace, non-zero pad bits.  The client must either refuse the
            # spelling or treat it as the same identity (one seqnum rule per verifying key).
            if sent[k] and rng.random() < 0.4:
                w = list(rng.choice(sent[k]))
            else:
                w = honest(k, dict(base_ann(k, seq[k] + rng.choice([1, 0, -1, -5])), y=rng.randrange(1000)))
            body = w[2][3:]
            c = rng.choice(["upper", "mixed", "space", "tab-space", "padbits", "lead-space"])
            if c == "upper":
                body = body.upper()
            elif c == "mixed":
                body = bytes((ch - 32) if (97 <= ch <= 122 and rng.random() < 0.5) else ch for ch in body)
                if body == w[2][3:]:
                    body = body[:1].upper() + body[1:]
            elif c == "space":
                body = body + b" "
            elif c == "tab-space":
                body = body + b"\t "
            elif c == "lead-space":
                body = body + b"\n"
            else:
                alpha = b"abcdefghijklmnopqrstuvwxyz234567"
                j = alpha.index(body[-1:])
                body = body[:-1] + bytes([alpha[(j & 16) | rng.randrange(1, 16)]])
            w[2] = b"v0-" + body
            meta["spelling"] = c
        elif kind == "bad-encoding":
            w = honest(k, base_ann(k, seq[k] + 1))
            c = rng.choice(["nosig", "emptysig", "nokey", "emptykey", "sigprefix", "keyprefix", "keyb32", "keytrunc", "keyshort",
                            "keyempty", "sigb32", "sigtrunc", "keyupper", "sigupper", "both"])
            if c == "nosig":
                w[1] = None
            elif c == "emptysig":
                w[1] = b""
            elif c == "nokey":
                w[2] = None
            elif c == "emptykey":
                w[2] = b""
            elif c == "sigprefix":
                w[1] = rng.choice([b"v1-", b"zz-", b""]) + w[1][3:]
            elif c == "keyprefix":
                w[2] = rng.choice([b"v1-", b"pub-v0-", b""]) + w[2][3:]
            elif c == "keyb32":
                w[2] = b"v0-" + rng.choice([b"!!!!", b"0189", w[2][3:-1] + b"1"])
            elif c == "keytrunc":
                w[2] = w[2][:-rng.randrange(1, 9)]
            elif c == "keyshort":
                w[2] = b"v0-" + b2a(rng.randbytes(rng.choice([5, 16, 31, 33, 40])))
            elif c == "keyempty":
                w[2] = b"v0-"
            elif c == "sigb32":
                w[1] = b"v0-" + rng.choice([b"!!!", b"0189", w[1][3:-1] + b"1"])
            elif c == "sigtrunc":
                w[1] = w[1][:-rng.randrange(1, 9)]
            elif c == "keyupper":
                w[2] = b"v0-" + w[2][3:].upper()
            elif c == "sigupper":
                w[1] = b"v0-" + w[1][3:].upper()
            else:
                w[1] = b"v0-!!!"
                w[2] = rng.choice([None, b"v0-!!!", b"v9-abc", b"v0-" + b2a(b"short")])
            meta["intact"] = False
            meta["enc"] = c
        elif kind == "signed-malformed":
            c = rng.choice(["notjson", "notutf8", "list", "number", "null", "nosvc", "nickint", "nicknull", "furlbad", "furlnull",
                            "furlint", "empty"])
            d = base_ann(k, seq[k] + 1)
            if c in ("notjson", "notutf8", "empty"):
                msg = {"notjson": b"not json", "notutf8": b"\xff\xfe{}", "empty": b""}[c]
                w = [msg, sign(k, msg), pool[k][2]]
            else:
                if c == "list":
                    d = [1, 2]
                elif c == "number":
                    d = 5
                elif c == "null":
                    d = None
                elif c == "nosvc":
                    del d["service-name"]
                elif c == "nickint":
                    d["nickname"] = 5
                elif c == "nicknull":
                    d["nickname"] = None
                elif c == "furlbad":
                    d["anonymous-storage-FURL"] = "http://example.com/"
                elif c == "furlnull":
                    d["anonymous-storage-FURL"] = None
                elif c == "furlint":
                    d["anonymous-storage-FURL"] = 7
                w = honest(k, d)
            meta["malformed"] = c
        else:   # garbage-shape
            w = honest(k, base_ann(k, seq[k] + 1))
            c = rng.choice(["two", "four", "strkey", "strsig", "strmsg", "nonemsg", "intsig"])
            if c == "two":
                w = w[:2]
            elif c == "four":
                w = w + [b"extra"]
            elif c == "strkey":
                w[2] = w[2].decode("ascii")
            elif c == "strsig":
                w[1] = w[1].decode("ascii")
            elif c == "strmsg":
                w[0] = w[0].decode("utf-8")
            elif c == "nonemsg":
                w[0] = None
            else:
                w[1] = 5
            meta["intact"] = False
        allw.append(w)
        return {"w": [enc(f) if not isinstance(f, int) else {"i": f} for f in w], "meta": meta}

    batches = []
    for _ in range(rng.choice([2, 4, 6, 10])):
        batches.append([one() for _ in range(rng.choice([1, 1, 2, 3, 5]))])
        if rng.random() < 0.25:
            batches.append([{"subscribe": rng.choice(["storage", "storage", "helper", "stub_client"])}])
    return {"seeds": seeds, "subs": subs, "batches": batches}


def wire_tuple(wj):
    return tuple(f["i"] if (isinstance(f, dict) and "i" in f) else dec(f) for f in wj)


# ----------------------------------------------------------------------------- classification (model's abstract inputs)

class Tables:
    def __init__(self, pool, subs):
        self.pool = pool
        self.msgid, self.junk, self.svcid = Intern(), Intern(), Intern()
        self.content = EqIntern()
        self.keyid = {p[2]: i for i, p in enumerate(pool)}
        self.spell = Intern()
        self.keyraw = {}
        for s in subs:
            self.svcid(s)
        self.honest = {}
        self.signed = set()
        self.parsed = {}

    def learn(self, msg, cands=None):
        from allmydata.crypto import ed25519
        if msg not in self.parsed:
            self.parsed[msg] = self.classify_msg(msg)
        # small pools: every key's signature on the message is known; large pools: only the keys the generator used on it
        ks = range(len(self.pool)) if (cands is None or len(self.pool) <= 8) else cands
        for k in ks:
            if (k, msg) not in self.signed:
                self.signed.add((k, msg))
                self.honest[ed25519.sign_data(self.pool[k][0], msg)] = (k, self.msgid(msg))

    def classify_msg(self, msg):
        from allmydata.introducer.common import get_tubid_string_from_ann
        try:
            ann = json.loads(msg.decode("utf-8"))
        except Exception:
            return "X"
        c = self.content(ann)
        if not isinstance(ann, dict) or "service-name" not in ann:
            return "c%d.U.0.A" % c
        svc = "s%d" % self.svcid(str(ann["service-name"]))
        desc = 0
        try:
            ann.get("nickname", u"").encode("utf-8")
            if "anonymous-storage-FURL" in ann:
                get_tubid_string_from_ann(ann)
        except Exception:
            desc = 1
        if "seqnum" not in ann:
            q = "A"
        else:
            v = ann["seqnum"]
            if isinstance(v, int):
                q = "i%d" % int(v)
            elif isinstance(v, float):
                q = "P" if v == math.inf else "N" if (v == -math.inf or v != v) else "f%d" % math.floor(v)
            else:
                q = "J"
        return "c%d.%s.%d.%s" % (c, svc, desc, q)

    def b32(self, body):
        from allmydata.util import base32
        try:
            return base32.a2b(body)
        except AssertionError:
            return None

    def decode_key(self, key):
        """what the code's own decoder (ed25519.verifying_key_from_string) makes of a `v0-` key string: 'B', 'L' or the id of
        the verifying key (pool index; 100+ for foreign keys).  This is the model's abstract `dec`."""
        from allmydata.crypto import ed25519
        try:
            vk = ed25519.verifying_key_from_string(b"pub-" + key)
        except AssertionError:
            return "B"
        except ValueError:
            return "L"
        canon = ed25519.string_from_verifying_key(vk)[len(b"pub-"):]
        if canon in self.keyid:
            return self.keyid[canon]
        return 100 + self.junk(("key", canon))

    def token(self, w, cands=None):
        if len(w) != 3 or not isinstance(w[0], bytes) or any(not (f is None or isinstance(f, bytes)) for f in w[1:]):
            return "G"
        msg, sig, key = w
        self.learn(msg, cands)
        if not sig:
            s = "F"
        elif not sig.startswith(b"v0-"):
            s = "P"
        else:
            raw = self.b32(sig[3:])
            if raw is None:
                s = "B"
            elif raw in self.honest:
                s = "s%d_%d" % self.honest[raw]
            else:
                s = "j%d" % self.junk(raw)
        if not key:
            k = "F"
        elif not key.startswith(b"v0-"):
            k = "P"
        else:
            d = self.decode_key(key)
            k = d if isinstance(d, str) else "k%d~%d" % (d, self.spell(key))
            if not isinstance(d, str) and key not in self.keyid and d < 100:
                self.noncanonical = getattr(self, "noncanonical", 0) + 1
        return "%d:%s/%s/%s" % (self.msgid(msg), self.parsed[msg], s, k)


UERR = {"UnknownKeyError": "unknownKey", "AssertionError": "assertion", "ValueError": "value", "BadSignature": "badSignature",
        "JSONDecodeError": "json", "UnicodeDecodeError": "json"}


# ----------------------------------------------------------------------------- execution on the real client

def make_client(workdir, n, subs, sink):
    from twisted.python.filepath import FilePath
    from allmydata.introducer.client import IntroducerClient
    ic = IntroducerClient(None, "pb://abc@127.0.0.1:1/introducer", u"nick", "ver", "oldest", lambda: (1, "nonce"),
                          FilePath(os.path.join(workdir, "cache-%d.yaml" % n)))
    for s in subs:
        ic.subscribe_to(s, lambda key_s, ann, s=s: sink.append((key_s, ann)))
    return ic


def run_stream(ctx, case, workdir, n):
    from allmydata.introducer.common import unsign_from_foolscap
    pool = keypool(case["seeds"])
    subs = case["subs"]
    T = Tables(pool, subs)
    # a batch `[{"subscribe": name}]` is a subscribe_to(name) call at that point of the history
    marker = lambda cb: cb[0]["subscribe"] if (len(cb) == 1 and "subscribe" in cb[0]) else None
    batches = [None if marker(b) is not None else [wire_tuple(x["w"]) for x in b] for b in case["batches"]]
    toks = [["+%d" % T.svcid(marker(cb))] if b is None else
            [T.token(w, sorted(set(k for k in (x["meta"].get("signer"), x["meta"].get("claimed")) if isinstance(k, int))))
             for w, x in zip(b, cb)] for b, cb in zip(batches, case["batches"])]
    line = "intro %s %s" % (",".join(str(T.svcid(s)) for s in subs) or "-", " | ".join(" ".join(b) for b in toks))
    line = " ".join(line.split())

    def kid(key_s):
        d = T.decode_key(key_s)
        return d if isinstance(d, int) else -1

    # A: batches as given; B: the same tuples, one call each (monitor reference for batch independence)
    sinkA, sinkB = [], []
    A = make_client(workdir, 2 * n, subs, sinkA)
    single = bool(case.get("single_client"))      # many-key histories: the one-call-per-tuple reference client is left out (cost)
    B = None if single else make_client(workdir, 2 * n + 1, subs, sinkB)
    outs = []
    raisedA = []
    seenwires = []
    subscribed = set(subs)
    for bi, b in enumerate(batches):
        if b is None:
            name = marker(case["batches"][bi])
            first = name not in subscribed          # only the first observer of a service records: one entry per notify() call
            subscribed.add(name)
            d0 = len(sinkA)
            for client, sink in ((A, sinkA),) + (() if single else ((B, sinkB),)):
                client.subscribe_to(name, (lambda key_s, ann, sink=sink: sink.append((key_s, ann))) if first else (lambda key_s, ann: None))
            outs.append("U=-;C=0.0.0.0.0;D=%s" % (",".join("%d:%d" % (kid(k), T.content(a)) for (k, a) in sinkA[d0:]) or "-"))
            ctx.count("subscribe_to:" + ("new-service" if first else "further-observer"))
            ctx.case(("|".join(" ".join(t) for t in toks[:bi]) + "//" + toks[bi][0]) if bi > 0 else None)
            continue
        us = []
        for w, tok in zip(b, toks[bi]):
            try:
                unsign_from_foolscap(w)
                u = "ok"
            except Exception as e:
                u = UERR.get(type(e).__name__, "other")
                if tok == "G":
                    u = "other"
            us.append(u)
            ctx.count("unsign:" + u)
        c0 = dict(A._debug_counts)
        d0 = len(sinkA)
        raised = None
        try:
            A.remote_announce_v2(list(b))
        except Exception as e:
            raised = type(e).__name__
            raisedA.append(raised)
        c1 = A._debug_counts
        delta = [c1[k] - c0[k] for k in ("inbound_announcement", "wrong_service", "duplicate_announcement", "update", "new_announcement")]
        dl = ["%d:%d" % (kid(k), T.content(a)) for (k, a) in sinkA[d0:]]
        o = "U=%s;C=%s;D=%s" % (",".join(us) or "-", ".".join(map(str, delta)), ",".join(dl) or "-")
        if raised:
            o += ";raised=" + raised
        outs.append(o)
        for w in ([] if single else b):
            try:
                B.remote_announce_v2([w])
            except Exception:
                pass
        for i, (w, x) in enumerate(zip(b, case["batches"][bi])):
            seenwires.append((w, x["meta"]))
            ctx.count("kind:" + x["meta"]["kind"])
            ctx.case(("|".join(" ".join(t) for t in toks[:bi]) + "//" + " ".join(toks[bi][:i + 1])) if (bi > 0 or i > 0) else None)
        # ---- monitor (a): everything delivered so far in this batch is authentic
        for (key_s, ann) in sinkA[d0:]:
            ok = False
            for (w, m) in seenwires:
                if m["intact"] and m["signer"] == m["claimed"] and len(w) == 3 and w[2] == key_s and pool[m["signer"]][2] == key_s:
                    try:
                        if json.loads(w[0].decode("utf-8")) == ann:
                            ok = True
                            break
                    except Exception:
                        pass
            if not ok and kid(key_s) in range(len(pool)) and pool[kid(key_s)][2] != key_s:
                ctx.violation("an announcement was attributed to %r, another spelling of a signer's key string %r: one key, two identities"
                              % (key_s, pool[kid(key_s)][2]), case, "attributed-to-noncanonical-key-spelling")
            elif not ok:
                ctx.violation("an announcement was delivered that no owner of the attributed key signed", case, "accepted-unverified")
    store = ["%d.%d:%d" % (T.svcid(idx[0]), kid(idx[1]), T.content(v[0])) for idx, v in A._inbound_announcements.items()]
    out = "|".join(outs) + "#S=" + (",".join(store) or "-")
    # ---- monitor (b): "for each (service, key) it never replaces a stored announcement with one carrying an equal or lower
    # sequence number" — evaluated on the delivered sequence (every store is a delivery), independently of the model.  A stored
    # announcement that carries a number as seqnum may only be replaced by one carrying a strictly greater number; one that
    # carries none / not a number does not carry a higher one either.  Stored announcements without a numeric seqnum: no demand.
    num = lambda v: isinstance(v, (int, float)) and v == v
    for name, sink in ((("batched", sinkA),) if single else (("batched", sinkA), ("single", sinkB))):
        last = {}
        for (key_s, ann) in sink:
            idx = (str(ann["service-name"]), kid(key_s))        # per verifying key, whatever the spelling
            if idx in last and T.content(last[idx]) == T.content(ann):
                continue                    # the stored announcement notified again (late subscription), not a replacement
            if idx in last and "seqnum" in last[idx] and num(last[idx]["seqnum"]):
                o = last[idx]["seqnum"]
                ocls = "0" if o == 0 else "negative" if o < 0 else "huge" if o >= 2**63 else "non-integer-number" if not isinstance(o, int) else "positive"
                if "seqnum" not in ann:
                    ncls = "missing"
                elif not num(ann["seqnum"]):
                    ncls = "not-a-number:" + type(ann["seqnum"]).__name__
                elif ann["seqnum"] == o:
                    ncls = "equal"
                elif ann["seqnum"] < o:
                    ncls = "lower"
                else:
                    ncls = None
                if ncls:
                    ctx.violation("stored announcement (seqnum %r) replaced by one that does not carry a higher sequence number (%s)"
                                  % (o, ann.get("seqnum", "<missing>")), case, "replaced-by-not-higher-seqnum:%s->%s" % (ocls, ncls))
                    ctx.count("seqnum-rule-broken")
            last[idx] = ann
    for idx, v in A._inbound_announcements.items():
        s0 = v[0].get("seqnum")
        ctx.count("stored-seqnum:" + ("missing" if "seqnum" not in v[0] else "0" if (num(s0) and s0 == 0) else "negative" if (num(s0) and s0 < 0)
                                       else "huge" if (num(s0) and s0 >= 2**63) else "other-number" if num(s0) else "not-a-number"))
    # ---- monitor (c): a bad announcement does not stop the others of its batch
    same = single or ([(k, T.content(a)) for (k, a) in sinkA] == [(k, T.content(a)) for (k, a) in sinkB] and
            [(i, T.content(v[0])) for i, v in A._inbound_announcements.items()] == [(i, T.content(v[0])) for i, v in B._inbound_announcements.items()])
    if not same:
        ctx.violation("announcements batched with a bad one were not processed: deliveries differ from the same tuples sent one per call "
                      "(got_announcements raised %s)" % (sorted(set(raisedA)) or "nothing"),
                      case, "batch-aborted:" + "+".join(sorted(set(raisedA)) or ["no-exception"]))
        ctx.count("batch-aborted")
    for r in raisedA:
        ctx.count("raised:" + r)
    ctx.count("delivered", len(sinkA))
    if getattr(T, "noncanonical", 0):
        ctx.count("noncanonical-key-spelling-accepted-by-decoder", T.noncanonical)
    return out, line


CORPUS = [
    # DESIGN §3 probe: UnknownKeyError (no v0- signature prefix) in front of a good announcement
    {"bad": "sigprefix"}, {"bad": "keyb32"}, {"bad": "notjson"}, {"bad": "nosvc"},
    # the seqnum rule with a stored sequence number 0 / negative / huge: none of the followers may replace it
    {"first": 0, "then": [0, -1, "MISSING", "1", 0.0, None, True]},
    {"first": -3, "then": [-3, -4, "MISSING", 2.5]},
    {"first": 2**63, "then": [2**63, 2**63 - 1, 0, "MISSING", float(2**63)]},
    # a verified signature re-used on other message bytes (seed C34-a remembered signature -> key without the message)
    {"reuse_sig": True},
    # other spellings of a genuine key string on genuinely signed stale / fresh announcements (seed C34-c accepted them as new identities)
    {"spellings": True},
    # late subscribe_to: a further observer of "storage" is told the stored announcement again, a first observer of "helper"
    # nothing (nothing is stored for unsubscribed services); the stale announcement afterwards is still refused
    {"late_subscribe": True},
    # the table of remembered announcements must not forget: a victim publishes seqnum 1..5, 257 one-shot keys announce, then
    # the victim's seqnum 3 is replayed (seed C34-e evicted the oldest entries beyond 256; 2 victims + 257 one-shot keys)
    {"many_keys": 257},
]


def many_keys_history(rng, nkeys):
    """victim keys with growing sequence numbers, a few hundred one-shot announcers in between, replays of the victims' older
    announcements afterwards; rng None = the fixed corpus history"""
    from allmydata.crypto import ed25519
    from allmydata.util.base32 import b2a
    import random
    rng = rng or random.Random("C34-many-keys")
    seeds = big_pool_seeds(nkeys + 2)
    pool = keypool(seeds)

    def wire(k, d, kind):
        msg = json.dumps(d).encode("utf-8")
        w = [msg, b"v0-" + b2a(ed25519.sign_data(pool[k][0], msg)), pool[k][2]]
        return {"w": [enc(f) for f in w], "meta": {"kind": kind, "signer": k, "claimed": k, "intact": True}}
    batches = []
    hist = {0: [], 1: []}
    for v in (0, 1):
        for sq in range(1, 6):
            x = wire(v, {"service-name": "storage", "seqnum": sq, "nickname": "victim%d" % v, "x": sq}, "new")
            hist[v].append(x)
            batches.append([x])
    # the crowd's announcements are as small as an announcement can be: the client rewrites its whole YAML cache on every accept
    oneshot = [wire(2 + j, {"service-name": "storage"}, "new") for j in range(nkeys)]
    pos = 0
    while pos < len(oneshot):
        step = rng.choice([20, 50, 80])
        b = oneshot[pos:pos + step]
        pos += step
        if rng.random() < 0.5:       # replays interleaved with the crowd
            b = b + [dict(rng.choice(hist[rng.randrange(2)][:4]), meta=dict(hist[0][0]["meta"], kind="old"))]
        batches.append(b)
    for v in (0, 1):
        batches.append([dict(hist[v][2], meta=dict(hist[v][2]["meta"], kind="old"))])          # seqnum 3 again: refused, 5 stays
        batches.append([dict(hist[v][4], meta=dict(hist[v][4]["meta"], kind="replay"))])       # seqnum 5 again: duplicate
    batches.append([wire(0, {"service-name": "storage", "seqnum": 6, "nickname": "victim0", "x": 6}, "new")])
    return {"seeds": seeds, "subs": ["storage"], "batches": batches, "single_client": True}


def corpus_case(spec):
    from allmydata.crypto import ed25519
    from allmydata.util.base32 import b2a
    seeds = ["%02x" % (i + 1) * 32 for i in range(N_KEYS)]
    pool = keypool(seeds)

    def honest(k, d):
        msg = json.dumps(d).encode("utf-8") if not isinstance(d, bytes) else d
        return [msg, b"v0-" + b2a(ed25519.sign_data(pool[k][0], msg)), pool[k][2]]
    if "many_keys" in spec:
        return many_keys_history(None, spec["many_keys"])
    if "late_subscribe" in spec:
        ok = {"kind": "new", "signer": 0, "claimed": 0, "intact": True}
        mk = lambda svc, sq: {"w": [enc(f) for f in honest(0, {"service-name": svc, "seqnum": sq, "nickname": "a"})], "meta": ok}
        return {"seeds": seeds, "subs": ["storage"],
                "batches": [[mk("storage", 5), mk("helper", 5)], [mk("storage", 7)], [{"subscribe": "storage"}], [{"subscribe": "helper"}],
                            [dict(mk("storage", 5), meta=dict(ok, kind="old")), mk("helper", 6)], [{"subscribe": "helper"}]]}
    if "reuse_sig" in spec:
        g = honest(0, {"service-name": "storage", "seqnum": 1, "nickname": "a", "x": 0})
        batches = [[{"w": [enc(f) for f in g], "meta": {"kind": "new", "signer": 0, "claimed": 0, "intact": True}}]]
        for j, svc in enumerate(["storage", "storage", "helper"]):
            forged = json.dumps({"service-name": svc, "seqnum": 9 + j, "nickname": "attacker", "x": j,
                                 "anonymous-storage-FURL": FURL_OK}).encode("utf-8")
            batches.append([{"w": [enc(forged), enc(g[1]), enc(g[2])],
                             "meta": {"kind": "flip-msg", "signer": 0, "claimed": 0, "intact": False}}])
        return {"seeds": seeds, "subs": ["storage", "helper"], "batches": batches}
    if "spellings" in spec:
        ok = {"kind": "new", "signer": 0, "claimed": 0, "intact": True}
        batches = [[{"w": [enc(f) for f in honest(0, {"service-name": "storage", "seqnum": 5, "nickname": "a", "x": 0})], "meta": ok}]]
        key = pool[0][2]
        variants = [b"v0-" + key[3:].upper(), key + b" ", key + b"\t ", b"v0-" + key[3:4].upper() + key[4:], key + b"\n"]
        for j, (sq, kv) in enumerate([(4, variants[0]), (5, variants[1]), (6, variants[0]), (3, variants[2]), (7, variants[3]), (4, variants[4])]):
            w = honest(0, {"service-name": "storage", "seqnum": sq, "nickname": "a", "x": j + 1})
            w[2] = kv
            batches.append([{"w": [enc(f) for f in w], "meta": dict(ok, kind="key-spelling", spelling="corpus")}])
        return {"seeds": seeds, "subs": ["storage"], "batches": batches}
    if "first" in spec:
        ok = {"kind": "new", "signer": 0, "claimed": 0, "intact": True}
        batches = [[{"w": [enc(f) for f in honest(0, {"service-name": "storage", "seqnum": spec["first"], "nickname": "a", "x": 0})],
                     "meta": ok}]]
        for j, v in enumerate(spec["then"]):
            d = {"service-name": "storage", "nickname": "a", "x": j + 1}
            if v != "MISSING" or isinstance(v, bool):
                d["seqnum"] = v
            batches.append([{"w": [enc(f) for f in honest(0, d)], "meta": dict(ok, kind="weird-seq")}])
        return {"seeds": seeds, "subs": ["storage"], "batches": batches}
    good = honest(0, {"service-name": "storage", "seqnum": 1, "nickname": "a"})
    bad = honest(1, {"service-name": "storage", "seqnum": 1, "nickname": "b"})
    meta = {"kind": "bad-encoding", "signer": 1, "claimed": 1, "intact": False}
    if spec["bad"] == "sigprefix":
        bad[1] = b"zz-" + bad[1][3:]
    elif spec["bad"] == "keyb32":
        bad[2] = b"v0-!!!!"
    elif spec["bad"] == "notjson":
        bad = honest(1, b"not json")
        meta = {"kind": "signed-malformed", "signer": 1, "claimed": 1, "intact": True}
    else:
        bad = honest(1, {"seqnum": 1})
        meta = {"kind": "signed-malformed", "signer": 1, "claimed": 1, "intact": True}
    return {"seeds": seeds, "subs": ["storage"],
            "batches": [[{"w": [enc(f) for f in bad], "meta": meta},
                         {"w": [enc(f) for f in good], "meta": {"kind": "new", "signer": 0, "claimed": 0, "intact": True}}]]}


def run(ctx):
    workdir = os.path.join(os.path.dirname(os.path.dirname(os.path.dirname(os.path.abspath(__file__)))), ".work", "c34-%d" % os.getpid())
    os.makedirs(workdir, exist_ok=True)
    try:
        if ctx.replay:
            cases = [ctx.replay["case"]]
        else:
            cases = [corpus_case(s) for s in CORPUS]
            if not os.environ.get("VERIF_CORPUS_ONLY"):
                for _ in range(ctx.budget(600, 8000)):
                    cases.append(gen_stream(ctx.rng))
                mrng = ctx.subrng("many-keys")
                for _ in range(ctx.budget(0, 25)):
                    cases.append(many_keys_history(mrng, mrng.choice([256, 258, 263, 270, 300])))
        impl, lines = [], []
        for n, case in enumerate(cases):
            out, line = run_stream(ctx, case, workdir, n)
            impl.append(out)
            lines.append(line)
        model = ctx.model(lines)
        ctx.compare("got_announcements stream (unsign outcomes, _debug_counts deltas, deliveries per call; final _inbound_announcements)",
                    cases, impl, model)
        ctx.sample({"line": lines[0], "impl": impl[0]})
        if len(lines) > 5:
            ctx.sample({"line": lines[5][:600], "impl": impl[5][:600]})
    finally:
        shutil.rmtree(workdir, ignore_errors=True)
