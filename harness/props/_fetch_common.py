"""Shared machinery of C03 / C46: the real SegmentFetcher and the real DownloadNode driven by fake
Share objects under a seeded event script (the same script goes to the Lean drivers drv_c03 /
drv_c46), and end-to-end grid scenarios with fault schedules.

Fake shares offer what fetcher.py / node.py use of a Share: `_shnum`, `_server`, `_dyhb_rtt`,
`get_block(segnum)` (returns an observer with subscribe/cancel), `is_alive()`.  The `eventually`
of fetcher.py / node.py is replaced by a queue owned by the script, so that the script decides when
each queued `loop` runs.
"""
import contextlib

import os


def corpus_only():
    """VERIF_CORPUS_ONLY=1: run only the fixed corpus (no random families)"""
    return bool(os.environ.get("VERIF_CORPUS_ONLY"))


ST = {"O": "OVERDUE", "C": "COMPLETE", "X": "CORRUPT", "D": "DEAD", "B": "BADSEGNUM"}


class FakeObserver:
    def __init__(self):
        self.cb = None
        self.kw = None
        self.cancelled = False

    def subscribe(self, cb, **kw):
        self.cb, self.kw = cb, kw

    def cancel(self):
        self.cancelled = True


class FakeServer:
    def __init__(self, num):
        self.num = num

    def get_name(self):
        return b"srv%d" % self.num

    def __repr__(self):
        return "<srv%d>" % self.num


class FakeShare:
    def __init__(self, sid, shnum, server, rtt, calls):
        self.sid = sid
        self._shnum = shnum
        self._server = server
        self._dyhb_rtt = rtt
        self._alive = True
        self.calls = calls
        self.observers = []     # (fetcher tag, observer)
        self.tag = None

    def is_alive(self):
        return self._alive

    def get_block(self, segnum):
        o = FakeObserver()
        self.observers.append(o)
        self.calls.append("start=%d" % self.sid)
        return o

    def __repr__(self):
        return "Share(sh%d-on-%s#%d)" % (self._shnum, self._server.num, self.sid)


def show_ids(ids, sort=True):
    ids = list(ids)
    if sort:
        ids.sort()
    return ",".join(str(i) for i in ids) or "-"


def show_blocks(blocks):
    return ",".join("%d=%d" % (k, v) for k, v in sorted(blocks.items())) or "-"


def fetcher_digest(f, queue_len, verdict):
    """`unused|outstanding|active|overdue|blocks|max|nomore|running|pending|verdict` of a real SegmentFetcher"""
    d = f.__dict__
    unused = show_ids([s.sid for s in d.get("_shares", [])], sort=False)
    outst = show_ids(s.sid for ss in d.get("_shares_from_server", {}).values() for s in ss)
    act = show_ids(s.sid for s in d.get("_active_share_map", {}).values())
    ovd = show_ids(s.sid for ss in f._overdue_share_map.values() for s in ss)
    return "|".join([unused, outst, act, ovd, show_blocks(f._blocks), str(f._max_shares_per_server),
                     "1" if f._no_more_shares else "0", "1" if f._running else "0", str(queue_len), verdict or "-"])


@contextlib.contextmanager
def patched_eventually(queue):
    """fetcher.py and node.py schedule through this queue instead of foolscap's eventual-send."""
    from allmydata.immutable.downloader import fetcher as fm, node as nm

    def ev(f, *a, **k):
        queue.append((f, a, k))
    saved = (fm.eventually, nm.eventually)
    fm.eventually = ev
    nm.eventually = ev
    try:
        yield
    finally:
        fm.eventually, nm.eventually = saved


def exc_name(e):
    if isinstance(e, KeyError):
        return "exc=key"
    if isinstance(e, AttributeError):
        return "exc=attr"
    return "exc=" + type(e).__name__


# ----------------------------------------------------------------------------- fetcher level

class FetchNode:
    """What SegmentFetcher uses of its parent node."""

    def __init__(self, calls):
        self._si_prefix = b"fakefake"
        self.calls = calls
        self.bad = False
        self.num_segments = 0
        self.verdict = None
        self.verdicts = 0

    def get_num_segments(self):
        return (0, True) if self.bad else (1, False)

    def want_more_shares(self):
        self.calls.append("want")

    def process_blocks(self, segnum, blocks):
        self.verdicts += 1
        self.verdict = "blocks:" + show_blocks(blocks)

    def fetch_failed(self, sf, f):
        self.verdicts += 1
        self.verdict = "failed:" + f.value.__class__.__name__.replace("Error", "")


class FetcherRun:
    """One real SegmentFetcher under a script; `apply(tok)` executes one event token and returns the digest."""

    def __init__(self, k):
        from allmydata.immutable.downloader.fetcher import SegmentFetcher
        from allmydata.immutable.downloader import common as dc
        self.dc = dc
        self.calls = []
        self.queue = []
        self.node = FetchNode(self.calls)
        self.servers = {}
        self.shares = {}
        self.cm = patched_eventually(self.queue)
        self.cm.__enter__()
        self.f = SegmentFetcher(self.node, 0, k, None)
        self.started = []

    def close(self):
        self.cm.__exit__(None, None, None)

    def share(self, sid, shnum, server, rtt):
        if sid in self.shares:          # a re-announcement (malformed stream) is the same object again
            return self.shares[sid]
        if server not in self.servers:
            self.servers[server] = FakeServer(server)
        sh = FakeShare(sid, shnum, self.servers[server], rtt, self.calls)
        self.shares[sid] = sh
        return sh

    def apply(self, tok):
        del self.calls[:]
        f = self.f
        parts = tok.split(":")
        try:
            if parts[0] == "a":
                shs = []
                if parts[1] != "-":
                    for t in parts[1].split(","):
                        sid, shnum, server, rtt = [int(x) for x in t.split(".")]
                        shs.append(self.share(sid, shnum, server, rtt))
                f.add_shares(shs)
            elif parts[0] == "n":
                f.no_more_shares()
            elif parts[0] == "s":
                sh = self.shares[int(parts[1])]
                state = getattr(self.dc, ST[parts[2]])
                kw = {}
                if parts[2] == "C":
                    kw["block"] = sh.sid
                if parts[2] == "D":
                    kw["f"] = None
                    sh._alive = False
                f._block_request_activity(share=sh, shnum=sh._shnum, state=state, **kw)
            elif parts[0] == "b":
                self.node.bad = True
            elif parts[0] == "l":
                if self.queue:
                    (fn, a, k) = self.queue.pop(0)
                    fn(*a, **k)
                else:
                    f.loop()
            elif parts[0] == "x":
                f.stop()
            else:
                raise ValueError(tok)
        except ValueError:
            raise
        except Exception as e:
            self.calls.append(exc_name(e))
        return (",".join(self.calls) or "-") + "|" + fetcher_digest(f, len(self.queue), self.node.verdict)

    def started_ids(self):
        return [sid for sid, sh in self.shares.items() if sh.observers]


def share_tok(sh):
    return "%d.%d.%d.%d" % sh


def gen_fetch_script(rng, malformed=False, max_events=200):
    """Run one seeded environment against the real fetcher; returns (k, tokens, digests, info).
    The environment: a set of shares (id, shnum, server, rtt) with a disposition each
    (good / corrupt / dead / late = OVERDUE first), announced in batches, then no_more_shares."""
    k = rng.choice([1, 1, 2, 2, 3, 4])
    nshnums = rng.choice([1, 2, 3, 4, 6])
    nservers = rng.choice([1, 2, 3, 5])
    nshares = rng.choice([0, 1, 2, 3, 4, 5, 6, 8, 10])
    pgood = rng.choice([0.3, 0.6, 0.9, 1.0])
    shares = []
    seen = set()
    for i in range(nshares):
        shnum, server = rng.randrange(nshnums), rng.randrange(nservers)
        if (shnum, server) in seen and rng.random() < 0.8:
            continue
        seen.add((shnum, server))
        shares.append((len(shares), shnum, server, rng.choice([0, 0, 1, 2, 3])))
    disp = {}
    for sh in shares:
        r = rng.random()
        disp[sh[0]] = ("C" if r < pgood else rng.choice(["X", "D", "D"]), rng.random() < 0.3)
    R = FetcherRun(k)
    toks, digs = [], []

    def do(tok):
        toks.append(tok)
        digs.append(R.apply(tok))
    try:
        unannounced = list(shares)
        rng.shuffle(unannounced)
        # the node starts a fetcher with the shares it already knows (possibly none)
        first = rng.randrange(0, len(unannounced) + 1) if rng.random() < 0.5 else 0
        batch, unannounced = unannounced[:first], unannounced[first:]
        do("a:" + (",".join(share_tok(s) for s in batch) or "-"))
        finished, overdue, nomore, stopped_events = set(), set(), False, 0
        while len(toks) < max_events:
            started = [sid for sid in R.started_ids() if sid not in finished]
            acts = []
            if R.queue:
                acts += ["loop"] * 4
            if unannounced:
                acts += ["announce"] * 2
            elif not nomore:
                acts += ["nomore"]
            if started and R.f._running:
                acts += ["term"] * 3
                if any(disp[s][1] and s not in overdue for s in started):
                    acts += ["overdue"] * 2
            if malformed and rng.random() < 0.15:
                acts += ["bogus"] * 3
            if not acts:
                break
            a = rng.choice(acts)
            if a == "loop":
                do("l")
            elif a == "announce":
                n = rng.randrange(1, min(3, len(unannounced)) + 1)
                batch, unannounced = unannounced[:n], unannounced[n:]
                if R.f._running or malformed:
                    do("a:" + ",".join(share_tok(s) for s in batch))
            elif a == "nomore":
                nomore = True
                if R.f._running or malformed:
                    do("n")
            elif a == "term":
                late = [s for s in started if disp[s][1] and s not in overdue]
                cands = [s for s in started if s not in late] or started
                sid = rng.choice(cands)
                finished.add(sid)
                do("s:%d:%s" % (sid, disp[sid][0]))
            elif a == "overdue":
                sid = rng.choice([s for s in started if disp[s][1] and s not in overdue])
                overdue.add(sid)
                do("s:%d:O" % sid)
            else:
                r = rng.random()
                if r < 0.2:
                    do("b")
                elif r < 0.3:
                    do("x")
                elif r < 0.5:
                    do("l")
                elif r < 0.6 and nomore and shares:
                    do("a:" + share_tok(rng.choice(shares)))      # re-announcement after no_more_shares
                elif R.shares:
                    sid = rng.choice(list(R.shares))
                    do("s:%d:%s" % (sid, rng.choice("OCXDBO")))
                    if toks[-1][-1] != "O":
                        finished.add(sid)
                else:
                    do("n")
        info = {"k": k, "shares": shares, "disp": {str(a): list(b) for a, b in disp.items()},
                "verdict": R.node.verdict, "verdicts": R.node.verdicts, "running": R.f._running,
                "queue": len(R.queue), "outstanding": [s for s in R.started_ids() if s not in finished],
                "complete": not unannounced and nomore}
    finally:
        R.close()
    return k, toks, digs, info


def replay_fetch_script(k, toks):
    R = FetcherRun(k)
    try:
        return [R.apply(t) for t in toks], R.node.verdict
    finally:
        R.close()


# ----------------------------------------------------------------------------- node level

ERRNAME = {"NotEnoughSharesError": "NotEnoughShares", "NoSharesError": "NoShares",
           "BadSegmentNumberError": "BadSegmentNumber", "BadCiphertextHashError": "decode-failed"}


class FakeFinder:
    def __init__(self, run):
        self.run = run

    def hungry(self):
        self.run.calls.append("%d:want" % self.run.cur)

    def stop(self):
        pass

    def update_num_segments(self):
        pass


class NodeRun:
    """A real DownloadNode (segment queue, fetch_failed, process_blocks, _cancel_request, got_shares …)
    with fake shares, a fake finder and stubbed decode / ciphertext-hash check."""

    def __init__(self, k, numsegs, badsegs, filesize=None, segsize=None):
        from twisted.internet import defer
        from allmydata import uri
        from allmydata.immutable.downloader import node as nm, fetcher as fm, common as dc
        from allmydata.immutable.downloader.status import DownloadStatus
        self.dc = dc
        self.calls = []
        self.queue = []
        self.cur = -1
        self.fetchers = {}
        self.servers = {}
        self.shares = {}
        self.reqs = {}
        self.retired = []
        self.unhandled = []
        self.cancelled = []
        self.numsegs = numsegs
        run = self

        class GenFetcher(fm.SegmentFetcher):
            def __init__(self, *a, **kw):
                fm.SegmentFetcher.__init__(self, *a, **kw)
                self.gen = len(run.fetchers)
                self.verdict_s = None
                run.fetchers[self.gen] = self
        self.cm = patched_eventually(self.queue)
        self.cm.__enter__()
        self._saved_sf = nm.SegmentFetcher
        nm.SegmentFetcher = GenFetcher
        vcap = uri.CHKFileVerifierURI(b"s" * 16, b"u" * 32, k, 10, filesize if filesize else max(1, numsegs) * k * 10)
        self.node = node = nm.DownloadNode(vcap, None, None, None, None, DownloadStatus(b"s" * 16, vcap.size))
        node._sharefinder = FakeFinder(self)

        def decode(segnum, blocks):
            if filesize:
                return defer.succeed((b"x" * max(0, min(segsize, filesize - segnum * segsize)), 0.0))
            return defer.succeed((b"x" * 10, 0.0))

        def check(segment_and_decodetime, segnum):
            if segnum in badsegs:
                raise dc.BadCiphertextHashError("stub")
            return (segnum * (segsize if filesize else 10), segment_and_decodetime[0], 0.0)
        node._decode_blocks = decode
        node._check_ciphertext_hash = check
        orig_ff, orig_pb = node.fetch_failed, node.process_blocks

        def ff(sf, f):
            sf.verdict_s = "failed:" + f.value.__class__.__name__.replace("Error", "")
            return orig_ff(sf, f)

        def pb(segnum, blocks):
            if node._active_segment is not None:
                node._active_segment.verdict_s = "blocks:" + show_blocks(blocks)
            return orig_pb(segnum, blocks)
        node.fetch_failed = ff
        node.process_blocks = pb

    def close(self):
        from allmydata.immutable.downloader import node as nm
        nm.SegmentFetcher = self._saved_sf
        self.cm.__exit__(None, None, None)

    def share(self, sid, shnum, server, rtt):
        if sid in self.shares:          # a re-announcement (malformed stream) is the same object again
            return self.shares[sid]
        if server not in self.servers:
            self.servers[server] = FakeServer(server)
        calls = _TaggedCalls(self)
        sh = FakeShare(sid, shnum, self.servers[server], rtt, calls)
        self.shares[sid] = sh
        return sh

    def _drain_delivers(self):
        rest = []
        for item in self.queue:
            fn = item[0]
            if getattr(fn, "__name__", "") == "_deliver":
                fn(*item[1], **item[2])
            else:
                rest.append(item)
        self.queue[:] = rest

    def apply(self, tok):
        del self.calls[:]
        node = self.node
        parts = tok.split(":")
        act = node._active_segment
        self.cur = act.gen if act is not None else -1
        try:
            if parts[0] == "g":
                seg, req = int(parts[1]), int(parts[2])
                self.cur = len(self.fetchers)      # a fetcher created now gets this generation
                d, c = node.get_segment(seg)
                self.reqs[req] = c

                def _ok(res, req=req):
                    self.retired.append("%d=ok" % req)

                def _err(f, req=req):
                    self.retired.append("%d=%s" % (req, ERRNAME.get(f.value.__class__.__name__, f.value.__class__.__name__)))
                d.addCallbacks(_ok, _err)
            elif parts[0] == "c":
                self.cur = len(self.fetchers)
                c = self.reqs.get(int(parts[1]))
                if c is not None:
                    self.cancelled.append(int(parts[1]))
                    c.cancel()
            elif parts[0] == "a":
                shs = []
                if parts[1] != "-":
                    for t in parts[1].split(","):
                        sid, shnum, server, rtt = [int(x) for x in t.split(".")]
                        shs.append(self.share(sid, shnum, server, rtt))
                try:
                    node.got_shares(shs)
                except AttributeError:
                    self.calls.append("%d:exc=attr" % self.cur)
            elif parts[0] == "n":
                node.no_more_shares()
            elif parts[0] == "u":
                node.num_segments = self.numsegs
            elif parts[0] == "s":
                g, sh = int(parts[1]), self.shares[int(parts[2])]
                state = getattr(self.dc, ST[parts[3]])
                kw = {}
                if parts[3] == "C":
                    kw["block"] = sh.sid
                if parts[3] == "D":
                    kw["f"] = None
                    sh._alive = False
                f = self.fetchers.get(g)
                if f is not None:
                    self.cur = g
                    try:
                        f._block_request_activity(share=sh, shnum=sh._shnum, state=state, **kw)
                    except KeyError:
                        self.calls.append("%d:exc=key" % g)
            elif parts[0] == "l":
                g = int(parts[1])
                f = self.fetchers.get(g)
                if f is not None:
                    self.cur = g
                    for i, item in enumerate(self.queue):
                        if getattr(item[0], "__self__", None) is f:
                            del self.queue[i]
                            item[0](*item[1], **item[2])
                            break
                    else:
                        f.loop()
            else:
                raise ValueError(tok)
        except ValueError:
            raise
        except Exception as e:          # what foolscap's eventual-send queue would log as "Unhandled Error"
            self.calls.append("%d:exc=%s" % (self.cur, type(e).__name__))
            self.unhandled.append("%s in %s" % (type(e).__name__, tok))
        finally:
            try:
                self._drain_delivers()
            except Exception as e:
                self.calls.append("%d:exc=%s" % (self.cur, type(e).__name__))
                self.unhandled.append("%s in _deliver after %s" % (type(e).__name__, tok))
        act = node._active_segment
        reqs = ",".join("%d.%d" % (t[0], self._reqid(t[2])) for t in node._segment_requests) or "-"
        if act is None:
            a_s, fd = "-", "-"
        else:
            a_s = "%d.%d.%d" % (act.gen, act.segnum, 1 if act._running else 0)
            pend = sum(1 for item in self.queue if getattr(item[0], "__self__", None) is act)
            fd = "-|" + fetcher_digest(act, pend, act.verdict_s)
        return "|".join([",".join(self.calls) or "-", reqs, a_s, ",".join(self.retired) or "-", fd])

    def _reqid(self, c):
        for r, cc in self.reqs.items():
            if cc is c:
                return r
        return -1


class _TaggedCalls:
    """list-like sink that tags `start=` entries of fake shares with the running fetcher's generation"""

    def __init__(self, run):
        self.run = run

    def append(self, s):
        self.run.calls.append("%d:%s" % (self.run.cur, s))


def gen_node_script(rng, malformed=False, max_events=160):
    """Seeded environment for the node: several get_segment requests (also concurrent and for the same
    segment), cancels, share announcements, answers, UEB arrival, decode failures on `badsegs`."""
    k = rng.choice([1, 1, 2, 2, 3])
    numsegs = rng.choice([1, 2, 3])
    badsegs = sorted(s for s in range(numsegs) if rng.random() < 0.3)
    nshnums = rng.choice([1, 2, 3, 4])
    nservers = rng.choice([1, 2, 3])
    shares = []
    used_keys = set()
    for i in range(rng.choice([0, 1, 2, 3, 4, 6, 8])):
        shnum, server = rng.randrange(nshnums), rng.randrange(nservers)
        rtt = rng.randrange(0, 50)
        if (shnum, rtt) in used_keys or (shnum, server) in [(s[1], s[2]) for s in shares]:
            continue          # the node keeps its shares in a set: avoid sort-key ties (iteration order unspecified)
        used_keys.add((shnum, rtt))
        shares.append((len(shares), shnum, server, rtt))
    pgood = rng.choice([0.4, 0.8, 1.0])
    # per share and segment: the terminal answer
    def answer(sid, seg):
        r = rng.random()
        return "C" if r < pgood else rng.choice(["X", "D"])
    R = NodeRun(k, numsegs, badsegs)
    toks, digs = [], []

    def do(tok):
        toks.append(tok)
        digs.append(R.apply(tok))
    try:
        unannounced = list(shares)
        rng.shuffle(unannounced)
        nreq = rng.choice([1, 2, 3, 4, 5])
        next_req = 0
        finished = {}     # (gen, sid) -> True
        overdue = set()
        told_nomore = set()
        ueb = False
        while len(toks) < max_events:
            act = R.node._active_segment
            acts = []
            if next_req < nreq:
                acts += ["get"] * 2
            if R.reqs and rng.random() < 0.15:
                acts += ["cancel"]
            loops = [it for it in R.queue if getattr(it[0], "__name__", "") == "loop"]
            if loops:
                acts += ["loop"] * 4
            started = []
            if act is not None and act._running:
                started = [sh.sid for sh in set(s for ss in act._shares_from_server.values() for s in ss)]
                if unannounced:
                    acts += ["announce"] * 2
                elif act.gen not in told_nomore:
                    acts += ["nomore"] * 2
                if started:
                    acts += ["term"] * 3
                    if rng.random() < 0.3:
                        acts += ["overdue"]
            if not ueb and rng.random() < 0.3:
                acts += ["ueb"]
            if malformed and rng.random() < 0.1:
                acts += ["bogus"] * 2
            if not acts:
                break
            a = rng.choice(acts)
            if a == "get":
                seg = rng.randrange(numsegs + (1 if rng.random() < 0.3 else 0))
                do("g:%d:%d" % (seg, next_req))
                next_req += 1
            elif a == "cancel":
                do("c:%d" % rng.choice(list(R.reqs)))
            elif a == "loop":
                f = loops[0][0].__self__
                do("l:%d" % f.gen)
            elif a == "announce":
                n = rng.randrange(1, min(3, len(unannounced)) + 1)
                batch, unannounced = unannounced[:n], unannounced[n:]
                do("a:" + ",".join(share_tok(s) for s in batch))
            elif a == "nomore":
                told_nomore.add(act.gen)
                do("n")
            elif a == "term":
                sid = rng.choice(started)
                do("s:%d:%d:%s" % (act.gen, sid, answer(sid, act.segnum)))
            elif a == "overdue":
                cands = [s for s in started if (act.gen, s) not in overdue and
                         any(x.sid == s for x in act._active_share_map.values())]
                if cands:
                    sid = rng.choice(cands)
                    overdue.add((act.gen, sid))
                    do("s:%d:%d:O" % (act.gen, sid))
            elif a == "ueb":
                ueb = True
                do("u")
            else:
                r = rng.random()
                if r < 0.3 and R.fetchers:
                    do("l:%d" % rng.choice(list(R.fetchers)))
                elif r < 0.7 and R.shares and R.fetchers:
                    do("s:%d:%d:%s" % (rng.choice(list(R.fetchers)), rng.choice(list(R.shares)), rng.choice("CXDB")))
                elif R.reqs:
                    do("c:%d" % rng.choice(list(R.reqs)))
                else:
                    do("n")
        act = R.node._active_segment
        info = {"k": k, "numsegs": numsegs, "badsegs": badsegs, "requests": next_req,
                "waiting": [R._reqid(t[2]) for t in R.node._segment_requests],
                "retired": list(R.retired),
                "active": None if act is None else (act.gen, act.segnum, bool(act._running)),
                "queued": len(R.queue),
                "outstanding": 0 if act is None or not act._running else
                sum(len(ss) for ss in act._shares_from_server.values()),
                "nomore": act is not None and act.gen in told_nomore,
                "unannounced": len(unannounced), "unhandled": list(R.unhandled),
                "submitted": sorted(R.reqs), "cancelled": sorted(set(R.cancelled))}
    finally:
        R.close()
    return (k, numsegs, badsegs), toks, digs, info


def replay_node_script(k, numsegs, badsegs, toks):
    R = NodeRun(k, numsegs, badsegs)
    try:
        digs = [R.apply(t) for t in toks]
        act = R.node._active_segment
        info = {"waiting": [R._reqid(t[2]) for t in R.node._segment_requests], "retired": list(R.retired),
                "active": None if act is None else (act.gen, act.segnum, bool(act._running)),
                "unhandled": list(R.unhandled), "submitted": sorted(R.reqs), "cancelled": sorted(set(R.cancelled)),
                "queued": len(R.queue),
                "outstanding": 0 if act is None or not act._running else sum(len(ss) for ss in act._shares_from_server.values()),
                "nomore": act is not None and bool(act._no_more_shares), "unannounced": 0}
        return digs, info
    finally:
        R.close()


# ----------------------------------------------------------------------------- end-to-end grid scenarios

def _grid():
    import grid
    return grid


UNHANDLED = []      # exceptions nobody handled (eventual-send queue) during the current grid scenario


def make_fault_wrapper():
    """LocalWrapper with per-server fault plans evaluated per call:
    plan(methname, nth_call) -> None | ("delay", secs) | "error" | "hang" | "disconnect".
    A hung call is failed (DeadReferenceError) when the server is disconnected later."""
    grid = _grid()
    from twisted.internet import defer
    from twisted.python.failure import Failure
    from foolscap.api import DeadReferenceError

    Base = grid.LocalWrapper
    assert Base.__name__ == "LocalWrapper"

    class FaultWrapper(Base):
        def callRemote(self, methname, *args, **kwargs):
            owner = self.owner
            owner.ncalls = getattr(owner, "ncalls", 0) + 1
            plan = getattr(owner, "plan", None)
            act = plan(methname, owner.ncalls) if (plan and not owner.broken) else None   # a dropped connection fails at once
            if act == "disconnect":
                self.drop()
            d = Base.callRemote(self, methname, *args, **kwargs)
            if act == "error":
                d.addBoth(lambda r: Failure(grid.IntentionalError("injected error in %s" % methname)))
                return d
            if isinstance(act, tuple) and act[0] == "delay":
                d2 = defer.Deferred()
                if len(act) > 2 and act[2] == "error":      # the answer is late *and* an error
                    d.addBoth(lambda r: Failure(grid.IntentionalError("injected late error in %s" % methname)))
                d.addBoth(lambda r: self.rt.clock.callLater(act[1], d2.callback, r))
                return d2
            if act == "hold":           # the (correct) answer is kept back until release_held(): a server answering late
                d2 = defer.Deferred()
                if not hasattr(owner, "held_calls"):
                    owner.held_calls = []
                owner.held_calls.append((d2, d))
                return d2
            if act == "hang":
                d2 = defer.Deferred()
                if not hasattr(owner, "hung_calls"):
                    owner.hung_calls = []
                owner.hung_calls.append(d2)
                d.addBoth(lambda r: None)
                return d2
            return d

        def release_held(self):
            owner = self.owner
            held, owner.held_calls = getattr(owner, "held_calls", []), []
            for (d2, d) in held:
                d.addBoth(d2.callback)
            return len(held)

        def drop(self):
            owner = self.owner
            owner.broken = True
            ds, owner.disconnectors = owner.disconnectors, {}
            for (f, a, k) in ds.values():
                f(*a, **k)
            hung, owner.hung_calls = getattr(owner, "hung_calls", []), []
            for d in hung:
                d.errback(Failure(DeadReferenceError("connection lost")))
    return FaultWrapper


@contextlib.contextmanager
def fault_grid(seed, policy, tag, **kw):
    """A grid whose wrappers are FaultWrappers; yields (rt, g)."""
    grid = _grid()
    saved = grid.LocalWrapper
    grid.LocalWrapper = make_fault_wrapper()
    from twisted.python import log as _tlog2

    def _observer(ev):
        # foolscap's eventual-send queue and Deferred garbage report exceptions nobody handled through log.err
        if ev.get("isError") and ev.get("failure") is not None and "Unhandled" in str(ev.get("why") or ev.get("message") or "Unhandled"):
            try:
                UNHANDLED.append(ev["failure"].value.__class__.__name__ + ": " + str(ev["failure"].value)[:80])
            except Exception:
                UNHANDLED.append("?")
    _tlog2.addObserver(_observer)
    try:
        # injected faults make the real code log.err() a lot; twisted's pre-startLogging observer prints those
        from twisted.python import log as _tlog
        if getattr(_tlog, "defaultObserver", None) is not None:
            _tlog.defaultObserver.stop()
            _tlog.defaultObserver = None
    except Exception:
        pass
    try:
        with grid.Runtime(seed=seed, policy=policy) as rt:
            # (grid.Runtime makes the import-bound `now` of finder.py / share.py / node.py follow the virtual
            # clock, so DYHB round-trip times — the fetcher's sort key — are the injected delays, ties by shnum)
            g = grid.Grid(grid.fresh_dir(tag), rt, **kw)
            try:
                yield rt, g
            finally:
                g.close()
    finally:
        _tlog2.removeObserver(_observer)
        grid.LocalWrapper = saved


WAIT_STATS = {}


def wait_all(rt, ds, horizon=400.0, max_steps=400000):
    """Pump until every Deferred in ds has fired or the system is quiescent: nothing deliverable and no
    timer within `horizon` virtual seconds (the storage servers' crawlers re-arm timers forever, so
    "no timers at all" never happens).  Returns the list of results: ("ok", value) | ("err", Failure) |
    ("stuck", None)."""
    boxes = [[] for _ in ds]
    for d, b in zip(ds, boxes):
        d.addBoth(b.append)
    t0 = rt.clock.seconds()
    steps = 0
    busy, thresh = 0, 5000
    while True:
        steps += 1
        if steps > max_steps:
            break
        if all(boxes) and not rt.pending_now():
            break
        if rt.step():
            # Real time passes even while the system is busy.  The grid's clock only moves when nothing
            # is deliverable, so a component that keeps itself busy at one instant (Share re-requests a
            # span it already knows is unavailable on every answer, as long as another answer is
            # outstanding) would starve every timer: after a long busy stretch, let time move on.
            busy += 1
            if busy > thresh:
                future = [c.getTime() for c in rt.clock.getDelayedCalls() if c.getTime() > rt.clock.seconds()]
                if future and min(future) - t0 <= horizon:
                    rt.clock.advance(min(future) - rt.clock.seconds())
                    WAIT_STATS["forced-time-advance"] = WAIT_STATS.get("forced-time-advance", 0) + 1
                busy, thresh = 0, 200
            continue
        busy, thresh = 0, 5000
        if all(boxes):
            break
        calls = rt.clock.getDelayedCalls()
        if not calls:
            break
        nxt = min(c.getTime() for c in calls)
        if nxt - t0 > horizon:
            break
        rt.clock.advance(max(0, nxt - rt.clock.seconds()))
    from twisted.python.failure import Failure
    res = []
    for b in boxes:
        if not b:
            res.append(("stuck", None))
        elif isinstance(b[0], Failure):
            res.append(("err", b[0]))
        else:
            res.append(("ok", b[0]))
    return res


def share_layout(path):
    """offsets of an immutable v1 share file (container header 12 bytes)"""
    import struct
    b = open(path, "rb").read()
    base = 12
    ver, block_size, data_size = struct.unpack(">LLL", b[base:base + 12])
    offs = struct.unpack(">6L", b[base + 0x0c:base + 0x24])
    names = ["data", "plaintext_hash_tree", "crypttext_hash_tree", "block_hashes", "share_hashes", "uri_extension"]
    o = dict(zip(names, offs))
    ueblen, = struct.unpack(">L", b[base + o["uri_extension"]:base + o["uri_extension"] + 4])
    o["ueb_end"] = o["uri_extension"] + 4 + ueblen
    return base, ver, block_size, data_size, o, b


REGIONS = ["header", "data", "crypttext_hash_tree", "block_hashes", "share_hashes", "uri_extension"]


def corrupt_share(path, region, rnd):
    """flip one byte inside the named region; returns the absolute offset or None if the region is empty"""
    base, ver, block_size, data_size, o, b = share_layout(path)
    if region == "header":
        lo, hi = 0, 0x24
    elif region == "data":
        lo, hi = o["data"], o["plaintext_hash_tree"]
    elif region == "crypttext_hash_tree":
        lo, hi = o["crypttext_hash_tree"], o["block_hashes"]
    elif region == "block_hashes":
        lo, hi = o["block_hashes"], o["share_hashes"]
    elif region == "share_hashes":
        lo, hi = o["share_hashes"], o["uri_extension"]
    else:
        lo, hi = o["uri_extension"], o["ueb_end"]
    if hi <= lo:
        return None
    pos = base + rnd.randrange(lo, hi)
    bb = bytearray(b)
    bb[pos] ^= 1 << rnd.randrange(8)
    with open(path, "wb") as f:
        f.write(bytes(bb))
    return pos


HASH_FAULTS = ["shc-leaf", "shc-mid", "shc-top", "cht-node", "bht-node"]


def damage_hash_node(path, kind, rnd):
    """Flip one bit inside ONE hash of a share: an entry of the share hash chain at leaf / middle / top level
    (`shc-*`; entries are (hashnum, hash) pairs, depth = floor(log2(hashnum+1))), a leaf-level node of the share's copy
    of the ciphertext hash tree (`cht-node`) or of its block hash tree (`bht-node`).  Returns a description or None."""
    import struct
    base, ver, block_size, data_size, o, b = share_layout(path)
    bb = bytearray(b)
    if kind.startswith("shc-"):
        lo, hi = o["share_hashes"], o["uri_extension"]
        n = (hi - lo) // 34
        if n < 1:
            return None
        ents = []
        for i in range(n):
            (hn,) = struct.unpack(">H", b[base + lo + 34 * i: base + lo + 34 * i + 2])
            ents.append(((hn + 1).bit_length() - 1, hn, i))
        ents.sort()
        pick = ents[-1] if kind == "shc-leaf" else ents[0] if kind == "shc-top" else ents[len(ents) // 2]
        if kind == "shc-leaf" and rnd.random() < 0.5 and len(ents) > 1 and ents[-2][0] == ents[-1][0]:
            pick = ents[-2]
        pos = base + lo + 34 * pick[2] + 2 + rnd.randrange(32)
        what = "share-hash node %d (depth %d)" % (pick[1], pick[0])
    else:
        lo, hi = (o["crypttext_hash_tree"], o["block_hashes"]) if kind == "cht-node" else (o["block_hashes"], o["share_hashes"])
        n = (hi - lo) // 32
        if n < 1:
            return None
        first_leaf = (n + 1) // 2 - 1
        node = first_leaf + rnd.randrange(min(2, n - first_leaf))
        pos = base + lo + 32 * node + rnd.randrange(32)
        what = "%s node %d of %d" % (kind[:3], node, n)
    bb[pos] ^= 1 << rnd.randrange(8)
    with open(path, "wb") as f:
        f.write(bytes(bb))
    return what


def craft_bad_ciphertext_hashes(g, cap, bad_segs):
    """Rewrite every share of `cap` so that block / share hash validation still passes but the
    ciphertext hash tree has wrong leaves for `bad_segs` (consistently: new tree in every share, new
    crypttext_root_hash in the UEB); returns the cap with the matching UEB hash.  Reading a bad
    segment then fails in DownloadNode._check_ciphertext_hash *after* block validation."""
    import struct
    from allmydata import uri
    from allmydata.hashtree import HashTree
    from allmydata.util import hashutil
    u = uri.from_string(cap)
    si = u.get_storage_index()
    newueb = None
    for (srv, shnum, path) in g.share_files(si):
        base, ver, block_size, data_size, o, b = share_layout(path)
        b = bytearray(b)
        o_cht, o_bh, o_ueb = o["crypttext_hash_tree"], o["block_hashes"], o["uri_extension"]
        n_nodes = (o_bh - o_cht) // 32
        nodes = [bytes(b[base + o_cht + 32 * i: base + o_cht + 32 * (i + 1)]) for i in range(n_nodes)]
        ueb = bytes(b[base + o_ueb + 4: base + o["ueb_end"]])
        d = uri.unpack_extension(ueb)
        nseg = d['num_segments']
        first_leaf = (n_nodes + 1) // 2 - 1
        leaves = nodes[first_leaf:first_leaf + nseg]
        for s in bad_segs:
            if s < nseg:
                leaves[s] = hashutil.crypttext_segment_hash(b"bogus%d" % s)
        tree = list(HashTree(leaves))
        assert len(tree) == n_nodes
        for i, h in enumerate(tree):
            b[base + o_cht + 32 * i: base + o_cht + 32 * (i + 1)] = h
        d['crypttext_root_hash'] = tree[0]
        ueb2 = uri.pack_extension(d)
        assert len(ueb2) == len(ueb)
        b[base + o_ueb + 4: base + o["ueb_end"]] = ueb2
        with open(path, "wb") as f:
            f.write(bytes(b))
        newueb = ueb2
    h = hashutil.uri_extension_hash(newueb)
    return uri.CHKFileURI(u.key, h, u.needed_shares, u.total_shares, u.size).to_string()


SERVER_PLANS = ["ok", "ok", "ok", "late", "error-all", "error-nth", "disconnect-nth", "hang-then-drop", "late-dyhb"]


def gen_scenario(rng, want_crafted=False):
    """A JSON-serialisable end-to-end scenario."""
    k = rng.choice([1, 2, 2, 3])
    n = rng.choice([x for x in (2, 3, 4, 5, 6) if x >= k])
    nservers = rng.choice([1, 2, 3, 4, min(n + 3, 7)])
    segsize = rng.choice([32, 64, 128])
    size = rng.choice([1, 30, 56, 64, 100, 150, 300, 500])
    sc = {"k": k, "n": n, "servers": nservers, "segsize": segsize, "size": size,
          "grid_seed": rng.randrange(1 << 30), "policy": rng.choice(["random", "random", "fifo", "lifo"]),
          "dataseed": rng.randrange(1 << 30),
          "copies": [], "share_faults": [], "server_plans": {}, "reads": [], "crafted": []}
    # extra copies of shares on other servers / removals: (op, index into share list, target server)
    for i in range(rng.choice([0, 0, 1, 2, 3])):
        sc["copies"].append([rng.randrange(64), rng.randrange(nservers)])
    nfault = rng.choice([0, 1, 2, 3, 5])
    for i in range(nfault):
        sc["share_faults"].append([rng.randrange(64), rng.choice(["delete", "delete"] + REGIONS), rng.randrange(1 << 30)])
    for s in range(nservers):
        p = rng.choice(SERVER_PLANS)
        if p != "ok":
            sc["server_plans"][str(s)] = [p, rng.randrange(1, 12), rng.choice([1, 5, 11, 25])]
    nreads = rng.choice([1, 2, 3])
    for i in range(nreads):
        if rng.random() < 0.4:
            sc["reads"].append([[0, size]])
        else:
            group = []
            for j in range(rng.choice([1, 1, 2, 3])):
                off = rng.randrange(0, size + 1)
                group.append([off, rng.randrange(0, size - off + 1)])
            sc["reads"].append(group)     # a group = concurrent reads on the same node
    if want_crafted:
        nseg = max(1, -(-size // segsize))
        sc["crafted"] = sorted(set(rng.randrange(nseg) for _ in range(rng.choice([1, 1, 2]))))
        sc["share_faults"] = [f for f in sc["share_faults"] if f[1] == "delete"][:1]
    return sc


def plan_fn(kind, nth, delay):
    if kind == "late":
        return lambda m, i: ("delay", delay)
    if kind == "late-dyhb":
        return lambda m, i: ("delay", delay) if m == "get_buckets" else None
    if kind == "error-all":
        return lambda m, i: "error"
    if kind == "error-nth":
        return lambda m, i: "error" if i >= nth else None
    if kind == "disconnect-nth":
        return lambda m, i: "disconnect" if i == nth else None
    if kind == "hang-then-drop":
        return lambda m, i: "hang" if i >= nth else None
    if kind == "error-reads":          # the server answers the share-location query but fails every block read
        return lambda m, i: "error" if m == "read" else None
    if kind == "error-read-once":
        cnt = {"r": 0}

        def plan(m, i):
            if m != "read":
                return None
            cnt["r"] += 1
            return "error" if cnt["r"] == nth else None
        return plan
    return None


def run_scenario(sc, on_read=None):
    """Executes the scenario on the real code.  Returns a dict with, per read group, the outcome of
    every read ("ok"/"wrong-data"/error class/"stuck") and the oracle sets."""
    import random
    from allmydata.immutable import upload
    from allmydata.util.consumer import MemoryConsumer
    from allmydata import uri
    import shutil
    import os
    rnd = random.Random(sc["dataseed"])
    if sc["size"] > 100000:
        chunk = bytes(rnd.randrange(256) for _ in range(65521))
        data = (chunk * (sc["size"] // len(chunk) + 1))[:sc["size"]]
    else:
        data = bytes(rnd.randrange(256) for _ in range(sc["size"]))
    out = {"groups": [], "upload": "ok"}
    from allmydata.immutable.downloader.node import DownloadNode
    saved_guess = DownloadNode.default_max_segment_size
    if sc.get("gmax"):
        # the reader's segment-size guess (class attribute used by _build_guessed_tables) differs from the
        # max_segment_size the file was encoded with
        DownloadNode.default_max_segment_size = sc["gmax"]
    try:
        return _run_scenario(sc, data, out)
    finally:
        DownloadNode.default_max_segment_size = saved_guess


def next_multiple(x, k):
    return -(-x // k) * k


def guess_relation(sc, off):
    """how the segment number computed from the guessed segment size relates to the real one"""
    k, size = sc["k"], sc["size"]
    from allmydata.interfaces import DEFAULT_IMMUTABLE_MAX_SEGMENT_SIZE
    seg = next_multiple(min(sc["segsize"], size), k)
    guess = next_multiple(min(size, sc.get("gmax") or DEFAULT_IMMUTABLE_MAX_SEGMENT_SIZE), k)
    gs, rs = (0 if off == 0 else off // guess), off // seg
    nseg = -(-size // seg)
    return "beyond" if gs >= nseg else "lt" if gs < rs else "eq" if gs == rs else "gt"


def _run_scenario(sc, data, out):
    import random
    sc = dict(sc, server_plans=dict(sc["server_plans"]))      # "shN" keys are resolved below: do not touch the caller's dict
    from allmydata.immutable import upload
    from allmydata.util.consumer import MemoryConsumer
    from allmydata import uri
    import shutil
    import os
    del UNHANDLED[:]
    with fault_grid(sc["grid_seed"], sc["policy"], "c03", num_servers=sc["servers"], num_clients=1,
                    k=sc["k"], happy=1, n=sc["n"], max_segment_size=sc["segsize"]) as (rt, g):
        c = g.clients[0]
        (st, res), = wait_all(rt, [c.upload(upload.Data(data, convergence=b"c" * 16))], max_steps=20000000)
        if st != "ok":
            out["upload"] = st
            return out
        cap = res.get_uri()
        if isinstance(uri.from_string(cap), uri.LiteralFileURI):
            out["upload"] = "literal"
            return out
        si = uri.from_string(cap).get_storage_index()
        files = g.share_files(si)
        # placement changes: copy a share to another server
        for (idx, target) in sc["copies"]:
            if isinstance(idx, str):            # ["shN", "free"]: copy share number N to a server that holds no share
                cands = [t for t in files if t[1] == int(idx[2:])]
                free = [x for x in sorted(g.storage) if x not in [t[0] for t in files]]
                if not cands or not free:
                    continue
                (srv, shnum, path) = cands[0]
                target = free[0]
            else:
                (srv, shnum, path) = files[idx % len(files)]
            if target != srv and target in g.storage:
                from allmydata.storage.server import storage_index_to_dir
                d = os.path.join(g.storage[target].sharedir, storage_index_to_dir(si))
                os.makedirs(d, exist_ok=True)
                if not os.path.exists(os.path.join(d, str(shnum))):
                    shutil.copy(path, os.path.join(d, str(shnum)))
        files = g.share_files(si)
        if sc["crafted"]:
            cap = craft_bad_ciphertext_hashes(g, cap, sc["crafted"])
        state = {(srv, shnum): "intact" for (srv, shnum, path) in files}
        for (idx, kind, fseed) in sc["share_faults"]:
            if isinstance(idx, str):          # "shN": the (first) copy of share number N, wherever it was placed
                cands = [t for t in files if t[1] == int(idx[2:])]
                if not cands:
                    continue
                (srv, shnum, path) = cands[0]
            else:
                (srv, shnum, path) = files[idx % len(files)]
            if state[(srv, shnum)] != "intact":
                continue
            if kind == "delete":
                os.unlink(path)
                state[(srv, shnum)] = "deleted"
            elif kind in HASH_FAULTS:
                if damage_hash_node(path, kind, random.Random(fseed)) is not None:
                    state[(srv, shnum)] = "corrupt"
            elif kind == "block0":          # one wrong byte in the block of segment 0
                base, ver, bs, ds, o, b = share_layout(path)
                bb = bytearray(b)
                bb[base + o["data"] + min(3, max(0, bs - 1))] ^= 0x20
                with open(path, "wb") as f:
                    f.write(bytes(bb))
                state[(srv, shnum)] = "corrupt"
            elif kind == "truncate-header":
                with open(path, "rb") as f:
                    b = f.read()
                with open(path, "wb") as f:
                    f.write(b[:12 + 0x10])          # container header + 16 bytes: cut inside the offset table
                state[(srv, shnum)] = "corrupt"
            else:
                if corrupt_share(path, kind, random.Random(fseed)) is not None:
                    state[(srv, shnum)] = "corrupt"
        # a plan keyed "shN" applies to the server holding share number N (placement-independent corpus cases)
        for key in [x for x in sc["server_plans"] if x.startswith("sh")]:
            holders = [srv for (srv, shnum) in sorted(state) if shnum == int(key[2:])]
            plan = sc["server_plans"].pop(key)
            if holders:
                sc["server_plans"][str(holders[0])] = plan
        maxdelay = 0
        for s, (kind, nth, delay) in sc["server_plans"].items():
            s = int(s)
            if s in g.wrappers:
                g.wrappers[s].plan = plan_fn(kind, nth, delay)
                if kind in ("late", "late-dyhb"):
                    maxdelay = max(maxdelay, delay)
        answering = [s for s in g.wrappers if sc["server_plans"].get(str(s), ["ok"])[0] in ("ok", "late", "late-dyhb")]
        reachable = [s for s in g.wrappers if sc["server_plans"].get(str(s), ["ok"])[0] != "error-all"]
        good = sorted(set(shnum for (srv, shnum), st in state.items() if st == "intact" and srv in answering))
        possible = sorted(set(shnum for (srv, shnum), st in state.items() if st != "deleted" and srv in reachable))
        out.update({"good": good, "possible": possible, "k": sc["k"],
                    "placement": sorted([srv, shnum, st] for (srv, shnum), st in state.items())})
        node = c.create_node_from_uri(cap)
        for group in sc["reads"]:
            if sc.get("fresh_nodes"):
                c.nodemaker._node_cache.clear()       # the nodemaker caches immutable nodes by cap
                node = c.create_node_from_uri(cap)    # first read(s) on a fresh node: segment size not known yet
            mcs = [MemoryConsumer() for _ in group]
            ds = [node.read(mc, off, sz) for mc, (off, sz) in zip(mcs, group)]
            # hung servers are eventually dropped (so that "every server has answered or failed")
            for s, (kind, nth, delay) in sc["server_plans"].items():
                if kind == "hang-then-drop" and int(s) in g.wrappers:
                    w = g.wrappers[int(s)]
                    rt.clock.callLater(30 + delay, w.drop)
            results = wait_all(rt, ds, horizon=60 + 40 * maxdelay + 200,
                               max_steps=400000 if sc["size"] <= 100000 else 5000000)
            outs = []
            for (st, val), mc, (off, sz) in zip(results, mcs, group):
                if st == "ok":
                    got = b"".join(mc.chunks)
                    outs.append("ok" if got == data[off:off + sz] else "wrong-data")
                elif st == "err":
                    outs.append(val.value.__class__.__name__)
                else:
                    outs.append("stuck")
            out["groups"].append(outs)
        dn = node._cnode._node
        out["active_segment_left"] = dn._active_segment is not None
        out["unhandled"] = sorted(set(UNHANDLED))
    return out


# ----------------------------------------------------------------------------- a share that dies while nobody listens

def gen_late_error_scenario(rng, canonical=False):
    """4 servers with one share each of a 2-of-4 multi-segment file.  Roles (assigned after the upload
    from the finder's server order): V and C answer the DYHB first, so the fetcher of segment 0 uses
    them; V's follow-up speculative read (issued after its first answer, not needed for any block) is
    answered late and with an error — after the block of segment 0 was delivered, i.e. while the share
    has no observer.  C answers block reads slowly and its block of segment `corrupt_seg` is corrupt.
    A (lower share number than V) and L (late DYHB answer) are intact on answering servers."""
    segsize = 1024 if canonical else rng.choice([1024, 1024, 512, 2048])
    nseg = 4 if canonical else rng.choice([2, 3, 4, 6])
    return {"kind": "late-error", "k": 2, "n": 4, "servers": 4, "segsize": segsize,
            "size": segsize * nseg - (0 if canonical else rng.choice([0, 0, 1, 100])),
            "grid_seed": 1 if canonical else rng.randrange(1 << 30),
            "policy": "fifo" if canonical else rng.choice(["fifo", "fifo", "random"]),
            "dataseed": 5 if canonical else rng.randrange(1 << 30),
            "hold_nth": 3 if canonical else rng.choice([3, 3, 3, 2, 4]),   # 3 = the follow-up speculative read
            "corrupt_seg": 1 if canonical else rng.randrange(1, nseg),
            "error_delay": 40 if canonical else rng.choice([40, 40, 60, 10, 0]),   # F2 is built at `slow`, C's bad block arrives at 2*slow
            "slow": 25 if canonical else rng.choice([25, 25, 5, 0])}


def run_late_error(sc):
    import random
    import time as _time
    from allmydata.immutable import upload
    from allmydata.util.consumer import MemoryConsumer
    from allmydata import uri
    import allmydata.immutable.downloader.share as sm
    rnd = random.Random(sc["dataseed"])
    data = bytes(rnd.randrange(256) for _ in range(sc["size"]))
    out = {"upload": "ok", "silent_death": 0, "dead_get_block": 0, "death_with_observer": 0}
    with fault_grid(sc["grid_seed"], sc["policy"], "c03le", num_servers=sc["servers"], num_clients=1,
                    k=sc["k"], happy=1, n=sc["n"], max_segment_size=sc["segsize"]) as (rt, g):
        c = g.clients[0]
        (st, res), = wait_all(rt, [c.upload(upload.Data(data, convergence=b"c" * 16))])
        if st != "ok":
            out["upload"] = st
            return out
        cap = res.get_uri()
        si = uri.from_string(cap).get_storage_index()
        files = {}
        for (srv, shnum, path) in g.share_files(si):
            files.setdefault(srv, []).append((shnum, path))
        if len(files) != 4 or any(len(v) != 1 for v in files.values()):
            out["upload"] = "placement"
            return out
        order = [s for s in (g.broker.servers.index(x) for x in g.broker.get_servers_for_psi(si)) if s in files]
        shn = {s: files[s][0][0] for s in files}
        first2 = order[:2]
        V = max(first2, key=lambda s: shn[s])
        C = [s for s in first2 if s != V][0]
        rest = sorted(order[2:], key=lambda s: shn[s])
        A, L = rest[0], rest[1]
        out["roles"] = {"V": [V, shn[V]], "C": [C, shn[C]], "A": [A, shn[A]], "L": [L, shn[L]]}
        out["good"] = sorted([shn[A], shn[L]])
        # C: corrupt block of one later segment, slow reads
        base, ver, bs, ds, o, b = share_layout(files[C][0][1])
        pos = base + o["data"] + sc["corrupt_seg"] * bs + 3
        if pos < base + o["plaintext_hash_tree"]:
            bb = bytearray(b)
            bb[pos] ^= 0x10
            with open(files[C][0][1], "wb") as f:
                f.write(bytes(bb))
        slow = sc["slow"]
        g.wrappers[C].plan = (lambda m, i: ("delay", slow) if (m == "read" and slow) else None)
        cnt = {"v": 0}

        def vplan(m, i):
            if m != "read":
                return None
            cnt["v"] += 1
            if cnt["v"] == sc["hold_nth"]:
                return ("delay", sc["error_delay"], "error")
            return None
        g.wrappers[V].plan = vplan
        g.wrappers[L].plan = lambda m, i: ("delay", 1) if m == "get_buckets" else None
        orig_fail, orig_gb = sm.Share._fail, sm.Share.get_block

        def fl(self, f, *a, **kw):
            if sum(len(ob) for _, ob in self._requested_blocks) == 0:
                out["silent_death"] += 1
            else:
                out["death_with_observer"] += 1
            return orig_fail(self, f, *a, **kw)

        def gb(self, segnum):
            if not self._alive:
                out["dead_get_block"] += 1
            return orig_gb(self, segnum)
        sm.Share._fail, sm.Share.get_block = fl, gb
        try:
            node = c.create_node_from_uri(cap)
            mc = MemoryConsumer()
            (st, val), = wait_all(rt, [node.read(mc, 0, sc["size"])], horizon=400 + 20 * slow)
        finally:
            sm.Share._fail, sm.Share.get_block = orig_fail, orig_gb
        if st == "ok":
            out["result"] = "ok" if b"".join(mc.chunks) == data else "wrong-data"
        elif st == "err":
            out["result"] = val.value.__class__.__name__
        else:
            out["result"] = "stuck"
    return out


# ----------------------------------------------------------------------------- the reader's segment-size guess is wrong

def gen_badguess_scenario(rng, faults=True):
    """A file encoded with a max_segment_size larger or smaller than the reader's guess; every read group
    is the first use of a fresh node (real segment size unknown), at offsets around guessed / real segment
    boundaries, incl. offsets whose guessed segment number is >= the real number of segments."""
    k = rng.choice([1, 2, 3])
    n = rng.choice([x for x in (2, 3, 4, 5) if x >= k])
    segsize = rng.choice([40, 64, 128, 250, 1000])
    gmax = rng.choice([x for x in (17, 40, 64, 129, 300, 1 << 20) if x != segsize])
    size = rng.choice([257, 333, 500, 700, 1000])
    sc = {"kind": "grid", "k": k, "n": n, "servers": rng.choice([n, n, max(1, n - 1), n + 2]), "segsize": segsize,
          "gmax": gmax, "fresh_nodes": True, "size": size,
          "grid_seed": rng.randrange(1 << 30), "policy": rng.choice(["random", "random", "fifo"]),
          "dataseed": rng.randrange(1 << 30), "copies": [], "share_faults": [], "server_plans": {}, "reads": [], "crafted": []}
    seg = next_multiple(min(segsize, size), k)
    guess = next_multiple(min(size, gmax), k)
    nseg = -(-size // seg)
    bounds = sorted({b for b in list(range(0, size + 1, seg)) + list(range(0, size + 1, guess)) if 0 < b < size})
    beyond = [o for o in range(1, size) if o // guess >= nseg]

    def one_read():
        r = rng.random()
        if beyond and r < 0.35:
            off = rng.choice([beyond[0], beyond[-1], rng.choice(beyond)])
        elif bounds and r < 0.85:
            off = rng.choice(bounds) + rng.choice([-1, 0, 0, 1, 2, seg // 2, guess // 2, -(guess // 2)])
        else:
            off = rng.randrange(0, size)
        off = max(0, min(off, size - 1))
        return [off, rng.choice([1, 2, 7, guess, seg, seg + 1, size - off, rng.randrange(1, size - off + 1)])]
    for i in range(rng.choice([2, 3, 4])):
        sc["reads"].append([one_read() for _ in range(rng.choice([1, 1, 2, 3]))])
    if faults and rng.random() < 0.5:
        for i in range(rng.choice([1, 2])):
            sc["share_faults"].append([rng.randrange(64), rng.choice(["delete"] + REGIONS), rng.randrange(1 << 30)])
        if rng.random() < 0.5:
            sc["server_plans"][str(rng.randrange(sc["servers"]))] = [rng.choice(SERVER_PLANS[3:]), rng.randrange(1, 12),
                                                                    rng.choice([1, 5, 11])]
    return sc


def big_badguess_scenario():
    """nothing patched: 3 MiB file encoded with 2 MiB segments, reader guesses the 1 MiB default"""
    mib = 1 << 20
    return {"kind": "grid", "k": 1, "n": 2, "servers": 2, "segsize": 2 * mib, "fresh_nodes": True, "size": 3 * mib,
            "grid_seed": 11, "policy": "random", "dataseed": 77, "copies": [], "share_faults": [], "server_plans": {},
            "crafted": [],
            "reads": [[[2 * mib + mib // 2, 5000]], [[mib + 5, 1000]], [[3 * mib - 10, 10], [2 * mib + 1, 70000]], [[1, 10]]]}


# ----------------------------------------------------------------------------- Segmentation (one read) with a fake node

SEGERR = {"WrongSegmentError": "WrongSegment", "BadSegmentNumberError": "BadSegmentNumber",
          "DownloadStopped": "DownloadStopped", "AssertionError": "Assertion"}


class _SegNode:
    def __init__(self, run, filesize, guess):
        self.run = run
        self._si_prefix = b"fakefake"
        self.segment_size = None
        self.guessed_segment_size = guess

        class _V:
            size = filesize
        self._verifycap = _V()

    def get_segment(self, segnum, logparent=None):
        from twisted.internet import defer
        run = self.run
        run.calls.append("get=%d" % segnum)
        run.d = defer.Deferred()

        class _C:
            def cancel(self):
                run.calls.append("cancel")
                run.d = None
        return (run.d, _C())


class SegRun:
    """One real Segmentation under a script (tokens of the `seg` line of drv_c46)."""

    def __init__(self, segsize, guess, offset, size):
        from allmydata.immutable.downloader import segmentation as sgm
        self.sgm = sgm
        self.calls = []
        self.queue = []
        self.d = None
        self.result = None
        self.segsize = segsize
        self.pause_in_write = False
        self.node = _SegNode(self, offset + size + 1000, guess)
        run = self

        class _Consumer:
            def registerProducer(self, p, streaming):
                pass

            def unregisterProducer(self):
                pass

            def write(self, data):
                run.calls.append("write=%d+%d" % (run.seg._offset - len(data), len(data)))
                if run.pause_in_write:
                    run.seg.pauseProducing()

        class _Ev:
            def update(self, *a):
                pass
        self._saved = sgm.eventually
        sgm.eventually = lambda f, *a, **k: self.queue.append((f, a, k))
        self.seg = sgm.Segmentation(self.node, offset, size, _Consumer(), _Ev(), None)

    def close(self):
        self.sgm.eventually = self._saved

    def _known(self, k):
        self.node.segment_size = self.segsize if k == "1" else None

    def apply(self, tok):
        from allmydata.immutable.downloader.common import BadSegmentNumberError
        del self.calls[:]
        p = tok.split(":")
        seg = self.seg
        if p[0] == "S":
            self._known(p[1])
            d = seg.start()
            d.addCallbacks(lambda r: setattr(self, "result", "done") or self.calls.append("done"),
                           lambda f: setattr(self, "result", "err:" + SEGERR.get(f.value.__class__.__name__, "other")) or
                           self.calls.append("errback=" + SEGERR.get(f.value.__class__.__name__, "other")))
        elif p[0] == "g":
            self._known(p[4])
            self.pause_in_write = (p[3] == "1")
            d, self.d = self.d, None
            if d is None:
                self.calls.append("no-outstanding-request")
            else:
                d.callback((int(p[1]), b"x" * int(p[2]), 0.0))
            self.pause_in_write = False
        elif p[0] == "f":
            self._known(p[2])
            d, self.d = self.d, None
            if d is None:
                self.calls.append("no-outstanding-request")
            else:
                d.errback(BadSegmentNumberError("x") if p[1] == "B" else RuntimeError("x"))
        elif p[0] == "x":
            seg.stopProducing()
        elif p[0] == "p":
            seg.pauseProducing()
        elif p[0] == "r":
            seg.resumeProducing()
        elif p[0] == "t":
            self._known(p[1])
            (f, a, k) = self.queue.pop(0)
            f(*a, **k)
        else:
            raise ValueError(tok)
        act = "-" if seg._active_segnum is None else str(seg._active_segnum)
        return "|".join([",".join(self.calls) or "-", str(seg._offset), str(seg._size), "1" if seg._alive else "0",
                         "1" if seg._hungry else "0", act, str(len(self.queue)), self.result or "-"])


def gen_seg_script(rng, max_events=60):
    """seeded environment of one read: the node answers each get_segment with the right segment, a wrong
    one (segment number computed from a wrong guess), BadSegmentNumberError or another failure; the
    consumer pauses / resumes / stops."""
    segsize = rng.choice([4, 10, 16, 64])
    guess = rng.choice([3, 4, 10, 16, 64, 1000])
    filesize = rng.choice([1, 5, 30, 100, 300])
    offset = rng.randrange(0, filesize)
    size = rng.randrange(1, filesize - offset + 1)
    nseg = -(-filesize // segsize)
    known = rng.random() < 0.3
    R = SegRun(segsize, guess, offset, size)
    R.node._verifycap.size = filesize
    toks, digs = [], []

    def do(tok):
        toks.append(tok)
        digs.append(R.apply(tok))
    try:
        do("S:%d" % known)
        while len(toks) < max_events and R.result is None:
            acts = []
            if R.d is not None:
                acts += ["answer"] * 6
            if R.queue:
                acts += ["turn"] * 3
            if R.seg._hungry:
                acts += ["pause"]
            else:
                acts += ["resume"] * 3
            if rng.random() < 0.05:
                acts += ["stop"]
            a = rng.choice(acts)
            if a == "answer":
                segnum = R.seg._active_segnum
                r = rng.random()
                known = True if r < 0.9 else known        # an answer normally means the UEB (segment size) is known
                if segnum >= nseg and r < 0.8:
                    do("f:B:%d" % known)
                elif r < 0.05:
                    do("f:O:%d" % known)
                elif r < 0.12:
                    do("g:%d:%d:0:%d" % (rng.randrange(0, filesize), rng.randrange(0, 2 * segsize), known))   # arbitrary segment
                else:
                    sn = min(segnum, nseg - 1)
                    st = sn * segsize
                    do("g:%d:%d:%d:%d" % (st, min(segsize, filesize - st), rng.random() < 0.15, known))
            elif a == "turn":
                do("t:%d" % known)
            elif a == "pause":
                do("p")
            elif a == "resume":
                do("r")
            else:
                do("x")
        info = {"segsize": segsize, "guess": guess, "offset": offset, "size": size, "filesize": filesize,
                "result": R.result, "outstanding": R.d is not None, "hungry": bool(R.seg._hungry),
                "queued": len(R.queue), "written": sum(int(c.split("+")[1]) for d in digs for c in d.split("|")[0].split(",")
                                                      if c.startswith("write="))}
    finally:
        R.close()
    return (segsize, guess, offset, size), toks, digs, info


def replay_seg_script(params, toks):
    R = SegRun(*params)
    try:
        return [R.apply(t) for t in toks], R.result
    finally:
        R.close()


# ----------------------------------------------------------------------------- fixed end-to-end corpus (seed-independent)

def _sc(**kw):
    sc = {"kind": "grid", "k": 1, "n": 2, "servers": 2, "segsize": 64, "size": 100, "grid_seed": 1, "policy": "fifo",
          "dataseed": 1, "copies": [], "share_faults": [], "server_plans": {}, "reads": [[[0, 100]]], "crafted": []}
    sc.update(kw)
    return sc


GRID_CORPUS = [
    # seeded C03-a: the only remaining share is on a server whose DYHB answer comes after the finder's 10 s overdue timer
    ("late-dyhb-needed-share", _sc(share_faults=[[0, "delete", 0]], server_plans={"1": ["late-dyhb", 1, 25]})),
    # seeded C03-c: the server of the first chosen share fails exactly one share read (the first); k good shares elsewhere
    ("one-read-error", _sc(size=300, server_plans={"sh0": ["error-read-once", 1, 1]}, reads=[[[0, 300]], [[10, 200]]])),
    ("one-read-error-k2", _sc(k=2, n=3, servers=3, size=300, server_plans={"sh0": ["error-read-once", 1, 1]},
                              reads=[[[0, 300]], [[10, 200]]])),
    # seeded C46-a: every share-location query fails -> NoSharesError, not a hang
    ("all-dyhb-fail", _sc(server_plans={"0": ["error-all", 1, 1], "1": ["error-all", 1, 1]})),
    # seeded C46-a (second form): too few shares and the failing server's answer is the last event
    ("late-dyhb-failure-too-few", _sc(k=2, n=2, servers=2, server_plans={"1": ["hang-then-drop", 1, 5]})),
    # seeded C46-b: a read that fails with too few shares, then further reads on the same node
    ("reread-after-not-enough", _sc(k=2, n=2, servers=2, share_faults=[[0, "delete", 0]],
                                    reads=[[[0, 10]], [[0, 10]], [[5, 20], [50, 10]]])),
    # fix ea42624: a share truncated inside its header (download looped forever); the other share is intact
    ("truncated-header", _sc(share_faults=[[0, "truncate-header", 0]])),
    ("truncated-header-k2", _sc(k=2, n=3, servers=3, share_faults=[[1, "truncate-header", 0]])),
    # fix b6b8db9: intact file, reader guesses 17-byte segments (real 128), first read at 384; lifo delivers the
    # answer for the block-hash position computed from the guessed tree before the UEB
    ("wrong-guess-lifo", _sc(size=700, segsize=128, gmax=17, fresh_nodes=True, policy="lifo", reads=[[[384, 17]], [[373, 2]]])),
    ("wrong-guess-random", _sc(size=700, segsize=128, gmax=17, fresh_nodes=True, policy="random", grid_seed=816538223,
                               dataseed=268472504, reads=[[[384, 17]], [[373, 2]]])),
    # seeded C46-c: guess (1000) smaller than the real segment size (2000), guessed segnum >= real segment count
    ("bad-segnum-retry", _sc(size=3000, segsize=2000, gmax=1000, fresh_nodes=True, grid_seed=5, dataseed=6,
                             reads=[[[2500, 50]], [[2999, 1], [2100, 700]], [[1500, 10]]])),
    # seeded C03-d (hashtree rollback): all ten shares on one server, in-order delivery, so the damaged sh0 is validated
    # first; its share-hash chain has one wrong leaf-level entry / its ciphertext-hash-tree copy one wrong node; nine
    # intact shares remain (k = 3)
    ("hash-chain-leaf-damage", _sc(k=3, n=10, servers=1, size=700, segsize=128, hashdamage=True,
                                   share_faults=[["sh0", "shc-leaf", 7]], reads=[[[0, 700]]])),
    ("ciphertext-tree-node-damage", _sc(k=3, n=10, servers=1, size=700, segsize=128, hashdamage=True,
                                        share_faults=[["sh0", "cht-node", 3]], reads=[[[0, 700]]])),
    ("hash-damage-two-shares", _sc(k=2, n=6, servers=2, size=500, segsize=64, hashdamage=True,
                                   share_faults=[["sh0", "shc-leaf", 1], ["sh1", "bht-node", 2]], reads=[[[0, 500]], [[130, 70]]])),
    ("hash-chain-top-mid-damage", _sc(k=3, n=10, servers=1, size=700, segsize=128, hashdamage=True,
                                      share_faults=[["sh0", "shc-top", 5], ["sh1", "shc-mid", 6]], reads=[[[0, 700]]])),
    # seeded C46-d: 2-3 concurrent reads on one node waiting for the SAME segment whose fetch fails, then a further read
    ("concurrent-same-segment-too-few", _sc(k=2, n=2, servers=2, share_faults=[[0, "delete", 0]],
                                            reads=[[[0, 100], [0, 100], [10, 20]], [[0, 100]]])),
    ("concurrent-same-segment-reads-fail", _sc(k=1, n=2, servers=2, server_plans={"0": ["error-reads", 1, 1], "1": ["error-reads", 1, 1]},
                                               reads=[[[0, 100], [0, 100]], [[0, 50]]])),
    ("concurrent-same-segment-corrupt-blocks", _sc(k=1, n=2, servers=2, share_faults=[["sh0", "block0", 0], ["sh1", "block0", 0]],
                                                   reads=[[[0, 100], [0, 100], [5, 5]], [[0, 100]]])),
    ("concurrent-same-segment-decode-failure", _sc(k=2, n=4, servers=5, size=200, crafted=[0],
                                                   reads=[[[0, 200], [0, 200]], [[0, 64]], [[70, 20]]])),
    # seeded C46-e: a second copy of share 0 on another server, share 1 lost: < k distinct share numbers -> error, not a hang
    ("duplicate-copy-too-few", _sc(k=2, n=2, servers=3, copies=[["sh0", "free"]], share_faults=[["sh1", "delete", 0]],
                                   reads=[[[0, 100]], [[0, 100], [5, 5]]])),
    # fix 6853eb2: ciphertext hash check of segment 1 fails after block validation; later reads on the same node
    ("decode-failure-then-reads", _sc(k=2, n=4, servers=5, size=200, crafted=[1],
                                      reads=[[[0, 64]], [[64, 64]], [[64, 10]], [[0, 64]]])),
]


def gen_hashdamage_scenario(rng):
    """One or two of the shares that are validated first (lowest share numbers; several shares per server, mostly
    in-order delivery) carry one damaged hash: an entry of the share hash chain at leaf / middle / top level, a node of
    their copy of the ciphertext hash tree, or a block-hash-tree node.  Multi-segment files; >= k shares stay intact."""
    k = rng.choice([1, 2, 3])
    n = rng.choice([x for x in (4, 6, 10) if x >= k + 2])
    segsize = rng.choice([32, 64, 128])
    size = rng.choice([150, 300, 500, 700])
    sc = {"kind": "grid", "k": k, "n": n, "servers": rng.choice([1, 1, 2, 3]), "segsize": segsize, "size": size,
          "hashdamage": True, "grid_seed": rng.randrange(1 << 30), "policy": rng.choice(["fifo", "fifo", "fifo", "random", "lifo"]),
          "dataseed": rng.randrange(1 << 30), "copies": [], "share_faults": [], "server_plans": {}, "reads": [], "crafted": []}
    victims = rng.sample(range(min(n, k + 1)), rng.choice([1, 1, 2]) if k + 1 >= 2 else 1)
    for v in victims[:max(1, n - k - 1)]:
        sc["share_faults"].append(["sh%d" % v, rng.choice(HASH_FAULTS + ["shc-leaf", "cht-node"]), rng.randrange(1 << 30)])
    sc["reads"].append([[0, size]])
    if rng.random() < 0.5:
        off = rng.randrange(0, size)
        sc["reads"].append([[off, rng.randrange(1, size - off + 1)]])
    return sc


# ----------------------------------------------------------------------------- composed system: real reads on a real node

class SysRun(NodeRun):
    """Real `DownloadNode.read()` calls (real Segmentation objects) on a real DownloadNode with fake shares; the
    `_deliver` of every retired request and every queued turn is an explicit script event (tokens of the `sys` line)."""

    def __init__(self, k, numsegs, badsegs, filesize, segsize, guess):
        NodeRun.__init__(self, k, numsegs, badsegs, filesize=filesize, segsize=segsize)
        from allmydata.immutable.downloader import segmentation as sgm
        self.sgm = sgm
        self._saved_sg = sgm.eventually
        sgm.eventually = lambda f, *a, **kw: self.queue.append((f, a, kw))
        self.segsize = segsize
        self.node.guessed_segment_size = guess
        self.next_req = 0
        self.d2req = {}
        self.keep = []
        self.read_req = {}
        self.segs = {}
        self.results = {}
        self.delivered = set()
        self.cancelled_reqs = set()
        self.retired_log = []
        self.seen_delivers = []
        self.cur_read = None
        self.rids = []
        run = self
        orig_gs = self.node.get_segment

        def gs(segnum, logparent=None):
            rid = run.cur_read
            run.cur = len(run.fetchers)
            q = run.next_req
            run.next_req += 1
            run.calls.append("r%d:get=%d" % (rid, segnum))
            d, c = orig_gs(segnum, logparent)
            run.d2req[id(d)] = q
            run.keep.append(d)
            run.reqs[q] = c
            run.read_req[rid] = q

            class _C:
                def cancel(self_inner):
                    run.calls.append("r%d:cancel" % rid)
                    run.cancelled_reqs.add(q)
                    c.cancel()
            return d, _C()
        self.node.get_segment = gs

    def close(self):
        self.sgm.eventually = self._saved_sg
        NodeRun.close(self)

    def _drain_delivers(self):
        # deliveries are explicit events here: only register the newly queued ones (in retirement order)
        for item in self.queue:
            if getattr(item[0], "__name__", "") == "_deliver" and not any(item is x for x in self.seen_delivers):
                self.seen_delivers.append(item)
                d, c, result = item[1]
                q = self.d2req.get(id(d), -1)
                from twisted.python.failure import Failure
                if isinstance(result, Failure):
                    name = result.value.__class__.__name__
                    self.retired_log.append("%d=%s" % (q, ERRNAME.get(name, name)))
                else:
                    self.retired_log.append("%d=ok" % q)

    def pending_delivers(self):
        return [self.d2req.get(id(it[1][0]), -1) for it in self.queue if getattr(it[0], "__name__", "") == "_deliver"]

    def apply(self, tok):
        parts = tok.split(":") if tok is not None else ["-digest-only-"]
        node = self.node
        if tok is None:
            pass
        elif parts[0] in ("a", "n", "u", "s", "l"):
            NodeRun.apply(self, tok)
            if parts[0] == "u":
                node.segment_size = self.segsize
        else:
            del self.calls[:]
            try:
                if parts[0] == "R":
                    rid, off, size = int(parts[1]), int(parts[2]), int(parts[3])
                    self.cur_read = rid
                    self.rids.append(rid)
                    run = self

                    class _Consumer:
                        def registerProducer(self_inner, p, streaming):
                            run.segs[rid] = p

                        def unregisterProducer(self_inner):
                            pass

                        def write(self_inner, data):
                            run.calls.append("r%d:write=%d+%d" % (rid, run.segs[rid]._offset - len(data), len(data)))
                    d = node.read(_Consumer(), off, size)

                    def _ok(res):
                        run.results[rid] = "done"
                        run.calls.append("r%d:done" % rid)

                    def _err(f):
                        nm = SEGERR.get(f.value.__class__.__name__, "other")
                        run.results[rid] = "err." + nm
                        run.calls.append("r%d:errback=%s" % (rid, nm))
                    d.addCallbacks(_ok, _err)
                elif parts[0] == "d":
                    q = int(parts[1])
                    for i, it in enumerate(self.queue):
                        if getattr(it[0], "__name__", "") == "_deliver" and self.d2req.get(id(it[1][0])) == q:
                            del self.queue[i]
                            self.delivered.add(q)
                            owner = [r for r, qq in self.read_req.items() if qq == q]
                            self.cur_read = owner[0] if owner else None
                            it[0](*it[1], **it[2])
                            break
                elif parts[0] in ("X", "P", "U", "T"):
                    rid = int(parts[1])
                    self.cur_read = rid
                    seg = self.segs[rid]
                    if parts[0] == "X":
                        seg.stopProducing()
                    elif parts[0] == "P":
                        seg.pauseProducing()
                    elif parts[0] == "U":
                        seg.resumeProducing()
                    else:
                        for i, it in enumerate(self.queue):
                            if getattr(it[0], "__self__", None) is seg:
                                del self.queue[i]
                                it[0](*it[1], **it[2])
                                break
                else:
                    raise ValueError(tok)
            except ValueError:
                raise
            except Exception as e:
                self.calls.append("exc=%s" % type(e).__name__)
                self.unhandled.append("%s in %s" % (type(e).__name__, tok))
            self._drain_delivers()
        act = node._active_segment
        reqs = ",".join("%d.%d" % (t[0], self._reqid(t[2])) for t in node._segment_requests) or "-"
        a_s = "-" if act is None else "%d.%d.%d" % (act.gen, act.segnum, 1 if act._running else 0)
        rds = []
        for rid in self.rids:
            seg = self.segs[rid]
            turns = sum(1 for it in self.queue if getattr(it[0], "__self__", None) is seg)
            q = self.read_req.get(rid)
            pend = q is not None and q not in self.delivered and q not in self.cancelled_reqs
            rds.append(":".join([str(rid), str(seg._offset), str(seg._size), "1" if seg._alive else "0",
                                 "1" if seg._hungry else "0", "-" if seg._active_segnum is None else str(seg._active_segnum),
                                 str(turns), self.results.get(rid, "-"), str(q) if pend else "-"]))
        return "|".join([",".join(self.calls) or "-", reqs, a_s, ",".join(self.retired_log) or "-", ",".join(rds) or "-"])


def gen_sys_script(rng, max_events=220):
    """seeded environment of the composed system: 1-3 reads (also concurrent, overlapping) on one node, wrong or
    right segment-size guess, share announcements and answers, decode failures, deliveries in any order, pauses /
    resumes / stops."""
    k = rng.choice([1, 1, 2])
    segsize = rng.choice([8, 16, 40])
    numsegs = rng.choice([1, 2, 3, 4])
    filesize = segsize * numsegs - rng.choice([0, 0, 1, 3])
    guess = rng.choice([segsize, segsize, 5, 16, 1000])
    badsegs = sorted(x for x in range(numsegs) if rng.random() < 0.15)
    shares = []
    keys = set()
    for i in range(rng.choice([0, 1, 2, 3, 4, 6])):
        shnum, server, rtt = rng.randrange(3), rng.randrange(3), rng.randrange(50)
        if (shnum, rtt) in keys or (shnum, server) in [(x[1], x[2]) for x in shares]:
            continue
        keys.add((shnum, rtt))
        shares.append((len(shares), shnum, server, rtt))
    pgood = rng.choice([0.5, 0.9, 1.0])
    R = SysRun(k, numsegs, badsegs, filesize, segsize, guess)
    toks, digs = [], []

    def do(tok):
        toks.append(tok)
        digs.append(R.apply(tok))
    try:
        unannounced = list(shares)
        rng.shuffle(unannounced)
        nreads = rng.choice([1, 2, 2, 3])
        started = 0
        told_nomore = set()
        ueb = False
        overdue = set()
        while len(toks) < max_events:
            act = R.node._active_segment
            acts = []
            if started < nreads:
                acts += ["read"] * 2
            pend = R.pending_delivers()
            if pend:
                acts += ["deliver"] * 4
            loops = [it for it in R.queue if getattr(it[0], "__name__", "") == "loop"]
            if loops:
                acts += ["loop"] * 4
            turns = [rid for rid in R.rids if any(getattr(it[0], "__self__", None) is R.segs[rid] for it in R.queue)]
            if turns:
                acts += ["turn"] * 3
            live = [rid for rid in R.rids if rid not in R.results]
            paused = [rid for rid in live if not R.segs[rid]._hungry]
            if paused:
                acts += ["resume"] * 3
            elif live and rng.random() < 0.1:
                acts += ["pause"]
            if live and rng.random() < 0.03:
                acts += ["stop"]
            outst = []
            if act is not None and act._running:
                outst = [sh.sid for sh in set(x for ss in act._shares_from_server.values() for x in ss)]
                if unannounced:
                    acts += ["announce"] * 2
                elif act.gen not in told_nomore:
                    acts += ["nomore"] * 2
                if outst:
                    acts += ["term"] * 3
            if not acts:
                break
            a = rng.choice(acts)
            if a == "read":
                off = rng.randrange(0, filesize)
                do("R:%d:%d:%d" % (started, off, rng.randrange(1, filesize - off + 1)))
                started += 1
            elif a == "deliver":
                do("d:%d" % rng.choice(pend))
            elif a == "loop":
                do("l:%d" % loops[0][0].__self__.gen)
            elif a == "turn":
                do("T:%d" % rng.choice(turns))
            elif a == "resume":
                do("U:%d" % rng.choice(paused))
            elif a == "pause":
                do("P:%d" % rng.choice([r for r in live if R.segs[r]._hungry]))
            elif a == "stop":
                do("X:%d" % rng.choice(live))
            elif a == "announce":
                n = rng.randrange(1, min(3, len(unannounced)) + 1)
                batch, unannounced = unannounced[:n], unannounced[n:]
                do("a:" + ",".join(share_tok(x) for x in batch))
            elif a == "nomore":
                told_nomore.add(act.gen)
                do("n")
            else:
                sid = rng.choice(outst)
                st = "C" if rng.random() < pgood else rng.choice(["X", "D"])
                if st == "C" and not ueb:
                    ueb = True
                    do("u")          # a share can only complete a block after the UEB (segment size) is known
                do("s:%d:%d:%s" % (act.gen, sid, st))
        act = R.node._active_segment
        quiescent = not R.queue and (act is None or not act._running or
                                     (act.gen in told_nomore and not unannounced and
                                      not any(act._shares_from_server.values())))
        info = {"quiescent": quiescent, "unhandled": list(R.unhandled),
                "reads": {rid: {"result": R.results.get(rid), "hungry": bool(R.segs[rid]._hungry)} for rid in R.rids},
                "written": {rid: sum(int(c.split("+")[1]) for d in digs for c in d.split("|")[0].split(",")
                                     if c.startswith("r%d:write=" % rid)) for rid in R.rids},
                "sizes": {rid: int(t.split(":")[3]) for t in toks if t.startswith("R:") for rid in [int(t.split(":")[1])]}}
    finally:
        R.close()
    return (k, numsegs, badsegs, filesize, segsize, guess), toks, digs, info


def replay_sys_script(params, toks):
    R = SysRun(*params)
    try:
        digs = [R.apply(t) for t in toks]
        return digs, {"results": dict(R.results), "unhandled": list(R.unhandled), "queued": len(R.queue)}
    finally:
        R.close()


# ----------------------------------------------------------------------------- a share-location answer arriving while the node is idle

def gen_late_dyhb_scenario(rng, mode=None, canonical=False):
    """3 servers, 2-of-3, one share each, many segments.  Server `late`'s get_buckets answer is kept back until the node
    has no running SegmentFetcher (after the first read finished, or while the consumer pauses between segments); then a
    server that served blocks is lost; then (second-read) another read on the same node / (resume) the paused read goes
    on: k intact shares are on answering servers.  control: both other servers are lost, one share is not enough."""
    if canonical:
        return {"kind": "late-dyhb", "mode": mode or "second-read", "size": 500, "segsize": 64, "grid_seed": 3,
                "policy": "fifo", "dataseed": 9, "late": 2, "victim_pick": 0, "first_read": [0, 100]}
    size = rng.choice([300, 500, 700])
    off = rng.randrange(0, size - 1)
    return {"kind": "late-dyhb", "mode": mode or rng.choice(["second-read", "second-read", "resume", "resume", "control"]),
            "size": size, "segsize": rng.choice([32, 64, 128]), "grid_seed": rng.randrange(1 << 30),
            "policy": rng.choice(["fifo", "random", "random"]), "dataseed": rng.randrange(1 << 30),
            "late": rng.randrange(3), "victim_pick": rng.randrange(2), "first_read": [off, rng.randrange(1, size - off + 1)]}


def run_late_dyhb(sc):
    import random
    from zope.interface import implementer
    from twisted.internet.interfaces import IConsumer
    from allmydata.immutable import upload
    from allmydata.util.consumer import MemoryConsumer
    rnd = random.Random(sc["dataseed"])
    data = bytes(rnd.randrange(256) for _ in range(sc["size"]))
    out = {"upload": "ok", "setup_ok": False, "result": None, "released": 0}

    @implementer(IConsumer)
    class PausingConsumer:
        def __init__(self):
            self.chunks, self.paused, self.producer = [], False, None

        def registerProducer(self, p, streaming):
            self.producer = p
            p.resumeProducing()

        def unregisterProducer(self):
            pass

        def write(self, d):
            self.chunks.append(d)
            if len(self.chunks) == 1:
                self.paused = True
                self.producer.pauseProducing()

    def outcome(st, val, got, want):
        if st == "ok":
            return "ok" if got == want else "wrong-data"
        return val.value.__class__.__name__ if st == "err" else "stuck"
    del UNHANDLED[:]
    with fault_grid(sc["grid_seed"], sc["policy"], "c03ld", num_servers=3, num_clients=1, k=2, happy=1, n=3,
                    max_segment_size=sc["segsize"]) as (rt, g):
        c = g.clients[0]
        (st, res), = wait_all(rt, [c.upload(upload.Data(data, convergence=b"c" * 16))])
        if st != "ok":
            out["upload"] = st
            return out
        X = sc["late"]
        others = [s for s in sorted(g.wrappers) if s != X]
        g.wrappers[X].plan = lambda m, i: "hold" if m == "get_buckets" else None
        node = c.create_node_from_uri(res.get_uri())
        dnf = lambda: node._cnode._node          # created lazily by the first read
        if sc["mode"] == "resume":
            pc = PausingConsumer()
            d = node.read(pc, 0, sc["size"])
            box = []
            d.addBoth(box.append)
            rt.settle()
            if not pc.paused or box or dnf()._active_segment is not None:
                return out                                   # the consumer did not get to pause an idle node
            out["released"] = g.wrappers[X].release_held()   # the late answer arrives during the pause
            rt.settle()
            g.wrappers[others[sc["victim_pick"]]].drop()     # then a server used so far goes away
            out["setup_ok"] = out["released"] > 0
            pc.paused = False
            pc.producer.resumeProducing()
            d2 = defer_from_box(d, box)
            (st, val), = wait_all(rt, [d2], horizon=300)
            out["result"] = outcome(st, val, b"".join(pc.chunks), data)
        else:
            off, sz = sc["first_read"]
            mc = MemoryConsumer()
            (st, val), = wait_all(rt, [node.read(mc, off, sz)], horizon=300)
            out["read1"] = outcome(st, val, b"".join(mc.chunks), data[off:off + sz])
            if out["read1"] != "ok" or dnf()._active_segment is not None:
                return out
            out["released"] = g.wrappers[X].release_held()   # the late answer arrives while the node is idle
            rt.settle()
            lost = others if sc["mode"] == "control" else [others[sc["victim_pick"]]]
            for srv in lost:
                g.wrappers[srv].drop()
            out["setup_ok"] = out["released"] > 0
            mc = MemoryConsumer()
            (st, val), = wait_all(rt, [node.read(mc, 0, sc["size"])], horizon=300)
            out["result"] = outcome(st, val, b"".join(mc.chunks), data)
        out["node_shares"] = len(dnf()._shares)
        out["unhandled"] = sorted(set(UNHANDLED))
    return out


def defer_from_box(d, box):
    """a Deferred that fires with what `d` (already observed through `box`) fires with"""
    from twisted.internet import defer
    d2 = defer.Deferred()
    if box:
        d2.callback(box[0])
    else:
        d.addBoth(d2.callback)
    return d2


# ----------------------------------------------------------------------------- ShareFinder with fake servers

class FinderRun:
    """The real ShareFinder under a script (tokens of the `finder` line of drv_c03): fake servers whose get_buckets
    Deferreds the script fires, fake overdue timers, the eventual-send queue owned by the script."""

    def __init__(self, maxout, servers):
        from twisted.internet import defer
        from allmydata.immutable.downloader import finder as fm
        self.fm = fm
        self.calls = []
        self.queue = []
        self.reqs = {}          # req id -> (Deferred, server number)
        self.req_of_server = {}
        self.timers = {}        # handle id -> (handle, req token)
        run = self

        class _SS:
            def __init__(self, num):
                self.num = num

            def get_buckets(self, si):
                q = len(run.reqs)
                d = defer.Deferred()
                run.reqs[q] = (d, self.num)
                run.req_of_server[self.num] = q
                run.calls.append("send=%d.%d" % (self.num, q))
                return d

        class _Server:
            def __init__(self, num):
                self.num = num
                self.ss = _SS(num)

            def get_name(self):
                return b"srv%d" % self.num

            def get_storage_server(self):
                return self.ss

        class _Broker:
            def get_servers_for_psi(self, si):
                return [_Server(n) for n in servers]

        class _Cap:
            storage_index = b"s" * 16

        class _Consumer:
            def got_shares(self, shares):
                pass

            def no_more_shares(self):
                pass

            def get_num_segments(self):
                return (1, False)

        class _Ev:
            def finished(self, *a):
                pass

            def error(self, *a):
                pass

        class _Status:
            def add_dyhb_request(self, server, when):
                return _Ev()

        class _Timer:
            def __init__(self, f, a):
                self.f, self.a, self.active = f, a, True

            def cancel(self):
                self.active = False

        class _Reactor:
            def callLater(self, t, f, *a):
                h = _Timer(f, a)
                run.timer_list.append(h)
                return h
        self.timer_list = []
        self.consumer = _Consumer()

        def ev(f, *a, **k):
            if getattr(f, "__self__", None) is self.consumer:
                if f.__name__ == "got_shares":
                    shs = a[0]
                    self.calls.append("shares=%d:%s" % (shs[0][1], "+".join(str(x[0]) for x in sorted(shs))))
                else:
                    self.calls.append("nomore")
            else:
                self.queue.append((f, a, k))
        self._saved = (fm.eventually, fm.reactor)
        fm.eventually = ev
        fm.reactor = _Reactor()
        self.f = fm.ShareFinder(_Broker(), _Cap(), self.consumer, _Status(), None, max_outstanding_requests=maxout)
        self.f._create_share = lambda shnum, bucket, server, rtt: (shnum, server.num)

    def close(self):
        self.fm.eventually, self.fm.reactor = self._saved

    def _reqid(self, token):
        return self.req_of_server.get(token.server.num, -1)

    def apply(self, tok):
        del self.calls[:]
        p = tok.split(":")
        f = self.f
        try:
            if p[0] == "h":
                f.hungry()
            elif p[0] == "l":
                if self.queue:              # only queued turns run
                    (fn, a, k) = self.queue.pop(0)
                    fn(*a, **k)
            elif p[0] == "r":
                d, srv = self.reqs[int(p[1])]
                d.callback({} if p[2] == "-" else {int(x): ("bucket", srv) for x in p[2].split(",")})
            elif p[0] == "e":
                d, srv = self.reqs[int(p[1])]
                d.errback(RuntimeError("dyhb failed"))
            elif p[0] == "o":
                q = int(p[1])
                for h in self.timer_list:
                    if h.active and self._reqid(h.a[0]) == q:
                        h.active = False
                        h.f(*h.a)
                        break
            elif p[0] == "x":
                f.stop()
            else:
                raise ValueError(tok)
        except ValueError:
            raise
        except Exception as e:
            self.calls.append("exc")
        servers_left = "?"
        pend = sorted(self._reqid(t) for t in f.pending_requests)
        ovd = sorted(self._reqid(t) for t in f.overdue_requests)
        tim = sorted(self._reqid(t) for t in f.overdue_timers)
        started = getattr(f, "_servers", "unstarted")
        return "|".join([",".join(self.calls) or "-", "1" if f.running else "0", "1" if f._hungry else "0",
                         "1" if started is None else "0", show_ids(pend, sort=False), show_ids(ovd, sort=False),
                         show_ids(tim, sort=False), str(len(self.queue))])


def strip_finder_digest(model_digest):
    """the model prints the remaining server list; the real iterator cannot be inspected"""
    f = model_digest.split("|")
    return "|".join(f[:3] + f[4:])


def gen_finder_script(rng, max_events=120):
    maxout = rng.choice([1, 2, 3, 10])
    nservers = rng.choice([0, 1, 2, 3, 5, 8])
    servers = list(range(nservers))
    rng.shuffle(servers)
    R = FinderRun(maxout, servers)
    toks, digs = [], []

    def do(tok):
        toks.append(tok)
        digs.append(R.apply(tok))
    try:
        answered = set()
        hungry_calls = 0
        do("h")
        while len(toks) < max_events:
            f = R.f
            acts = []
            if R.queue:
                acts += ["loop"] * 5
            open_reqs = [q for q in R.reqs if q not in answered]
            if open_reqs:
                acts += ["answer"] * 4
                timers = [q for q in open_reqs if any(h.active and R._reqid(h.a[0]) == q for h in R.timer_list)]
                if timers:
                    acts += ["overdue"]
            if not f._hungry and f.running and hungry_calls < 4:
                acts += ["hungry"] * 2
            elif f.running and hungry_calls < 4 and rng.random() < 0.1:
                acts += ["hungry"]
            if f.running and rng.random() < 0.02:
                acts += ["stop"]
            if not acts:
                break
            a = rng.choice(acts)
            if a == "loop":
                do("l")
            elif a == "answer":
                q = rng.choice(open_reqs)
                answered.add(q)
                r = rng.random()
                if r < 0.25:
                    do("e:%d" % q)
                elif r < 0.55:
                    do("r:%d:-" % q)
                else:
                    do("r:%d:%s" % (q, ",".join(str(x) for x in sorted(rng.sample(range(6), rng.choice([1, 1, 2, 3]))))))
            elif a == "overdue":
                do("o:%d" % rng.choice(timers))
            elif a == "hungry":
                hungry_calls += 1
                do("h")
            else:
                do("x")
        f = R.f
        nomore_after_last_h = False
        for t, d in zip(toks, digs):
            if t == "h":
                nomore_after_last_h = False
            if "nomore" in d.split("|")[0].split(","):
                nomore_after_last_h = True
        info = {"quiescent": not R.queue and not f.pending_requests, "hungry": bool(f._hungry), "running": bool(f.running),
                "told": nomore_after_last_h, "sent": [int(c.split("=")[1].split(".")[0]) for d in digs
                                                      for c in d.split("|")[0].split(",") if c.startswith("send=")],
                "servers": servers}
    finally:
        R.close()
    return (maxout, servers), toks, digs, info


def replay_finder_script(params, toks):
    R = FinderRun(*params)
    try:
        return [R.apply(t) for t in toks]
    finally:
        R.close()


FINDER_CORPUS = [
    # seeded C03-a: the only query is overdue, not answered: the finder must keep waiting, not announce no_more_shares
    ((2, [4]), ["h", "l", "l", "o:0", "l", "l", "r:0:1", "l"]),
    # seeded C46-a: the last event that can wake the finder is a failed query
    ((2, [4]), ["h", "l", "l", "e:0", "l"]),
    ((1, [4, 7]), ["h", "l", "l", "e:0", "l", "l", "r:1:-", "l", "l"]),
    # bounded parallelism, overdue promotion, shares then hungry again, stop
    ((2, [4, 7, 9]), ["h", "l", "l", "l", "o:0", "l", "l", "e:1", "l", "r:2:0,3", "l", "h", "l", "r:0:-", "l", "x", "h", "l"]),
]


def finder_family(ctx, nrandom):
    """fixed corpus + seeded scripts on the real ShareFinder; the statement monitor; returns (cases, impl, driver lines)"""
    cases, impl, lines = [], [], []

    def one(params, toks, digs, info=None, corpus=False):
        case = {"kind": "finder", "params": [params[0], list(params[1])], "toks": toks}
        cases.append(case)
        impl.append(";".join(digs))
        lines.append("finder %d %s %s" % (params[0], ",".join(map(str, params[1])) or "-", " ".join(toks)))
        ctx.case(("FD", repr(params), tuple(toks)) if len(toks) > 2 else None)
        told, hungry, running = False, False, True
        sent = []
        for t, d in zip(toks, digs):
            f = d.split("|")
            calls = f[0].split(",")
            if t == "h":
                told = False
            for c in calls:
                if c.startswith("send="):
                    sent.append(int(c[5:].split(".")[0]))
            if "nomore" in calls:
                told = True
                if f[4] != "-":
                    ctx.violation("ShareFinder announced no_more_shares while a share query is still in flight (requests %s)"
                                  % f[4], case, "finder-nomore-while-query-in-flight")
        last = digs[-1].split("|") if digs else None
        if last and last[1] == "1" and last[2] == "1" and last[7] == "0" and last[4] == "-" and not told:
            ctx.violation("ShareFinder is hungry, nothing is queued, no query is in flight, and it never announced "
                          "no_more_shares (nor delivered shares)", case, "finder-hungry-quiescent-without-answer")
        if len(sent) != len(set(sent)) or sent != list(params[1])[:len(sent)]:
            ctx.violation("ShareFinder did not ask the servers once each in permuted order: %s of %s" % (sent, params[1]),
                          case, "finder-server-order")
        ctx.count("finder-script:" + ("corpus" if corpus else "random"))
    for (params, toks) in FINDER_CORPUS:
        one(params, toks, replay_finder_script(params, toks), corpus=True)
    for i in range(nrandom):
        params, toks, digs, info = gen_finder_script(ctx.rng)
        one(params, toks, digs, info)
    return cases, impl, lines


# ----------------------------------------------------------------------------- composed system with the real ShareFinder

class SysFRun(SysRun):
    """SysRun whose DownloadNode uses the real ShareFinder over scripted servers (tokens of the `sysf` line)."""

    def __init__(self, k, numsegs, badsegs, filesize, segsize, guess, maxout, servers):
        SysRun.__init__(self, k, numsegs, badsegs, filesize, segsize, guess)
        from twisted.internet import defer
        from allmydata.immutable.downloader import finder as fm
        self.fm = fm
        self.fcalls = []
        self.freqs = {}
        self.req_of_server = {}
        self.timer_list = []
        self.next_share = 0
        run = self

        class _SS:
            def __init__(self, num):
                self.num = num

            def get_buckets(self, si):
                q = len(run.freqs)
                d = defer.Deferred()
                run.freqs[q] = (d, self.num)
                run.req_of_server[self.num] = q
                run.fcalls.append("send=%d.%d" % (self.num, q))
                return d

        class _Server:
            def __init__(self, num):
                self.num = num
                self.ss = _SS(num)

            def get_name(self):
                return b"srv%d" % self.num

            def get_storage_server(self):
                return self.ss

        class _Broker:
            def get_servers_for_psi(self, si):
                return [_Server(n) for n in servers]

        class _Timer:
            def __init__(self, f, a):
                self.f, self.a, self.active = f, a, True

            def cancel(self):
                self.active = False

        class _Reactor:
            def callLater(self, t, f, *a):
                h = _Timer(f, a)
                run.timer_list.append(h)
                return h
        node = self.node

        def ev(f, *a, **kw):
            if getattr(f, "__self__", None) is node and f.__name__ == "got_shares":
                shs = a[0]
                run.fcalls.append("shares=%d:%s" % (shs[0]._server.num, "+".join(str(x._shnum) for x in shs)))
            elif getattr(f, "__self__", None) is node and f.__name__ == "no_more_shares":
                run.fcalls.append("nomore")
            run.queue.append((f, a, kw))
        self._saved_fm = (fm.eventually, fm.reactor)
        fm.eventually = ev
        fm.reactor = _Reactor()
        self.finder = fm.ShareFinder(_Broker(), node._verifycap, node, node._download_status, None,
                                     max_outstanding_requests=maxout)

        def mk(shnum, bucket, server, rtt):
            sid = run.next_share
            run.next_share += 1
            return run.share(sid, shnum, server.num, server.num)
        self.finder._create_share = mk
        orig_hungry = self.finder.hungry

        def hungry():
            run.calls.append("%d:want" % run.cur)
            return orig_hungry()
        self.finder.hungry = hungry
        node._sharefinder = self.finder

    def close(self):
        self.fm.eventually, self.fm.reactor = self._saved_fm
        SysRun.close(self)

    def _freq(self, token):
        return self.req_of_server.get(token.server.num, -1)

    def mail_items(self):
        return [it for it in self.queue if getattr(it[0], "__self__", None) is self.node and
                it[0].__name__ in ("got_shares", "no_more_shares")]

    def apply(self, tok):
        del self.fcalls[:]
        p = tok.split(":")
        if p[0] in ("FL", "FR", "FE", "FO", "M"):
            del self.calls[:]
            act = self.node._active_segment
            self.cur = act.gen if act is not None else -1
            try:
                if p[0] == "FL":
                    for i, it in enumerate(self.queue):
                        if getattr(it[0], "__self__", None) is self.finder:
                            del self.queue[i]
                            it[0](*it[1], **it[2])
                            break
                elif p[0] == "FR":
                    d, srv = self.freqs[int(p[1])]
                    d.callback({} if p[2] == "-" else {int(x): ("bucket", srv) for x in p[2].split(",")})
                elif p[0] == "FE":
                    d, srv = self.freqs[int(p[1])]
                    d.errback(RuntimeError("dyhb failed"))
                elif p[0] == "FO":
                    for h in self.timer_list:
                        if h.active and self._freq(h.a[0]) == int(p[1]):
                            h.active = False
                            h.f(*h.a)
                            break
                else:
                    ms = self.mail_items()
                    if ms:
                        for i, it in enumerate(self.queue):
                            if it is ms[0]:
                                del self.queue[i]
                                break
                        ms[0][0](*ms[0][1], **ms[0][2])
            except Exception as e:
                self.calls.append("exc=%s" % type(e).__name__)
                self.unhandled.append("%s in %s" % (type(e).__name__, tok))
            self._drain_delivers()
            base = SysRun.apply(self, None)
        else:
            base = SysRun.apply(self, tok)
        f = self.finder
        fq = sum(1 for it in self.queue if getattr(it[0], "__self__", None) is f)
        started = getattr(f, "_servers", "unstarted")
        return "|".join([base, ",".join(self.fcalls) or "-",
                         "%d.%d.%d" % (1 if f.running else 0, 1 if f._hungry else 0, 1 if started is None else 0),
                         show_ids(sorted(self._freq(t) for t in f.pending_requests), sort=False),
                         show_ids(sorted(self._freq(t) for t in f.overdue_requests), sort=False),
                         show_ids(sorted(self._freq(t) for t in f.overdue_timers), sort=False), str(fq),
                         str(len(self.mail_items()))])


def gen_sysf_script(rng, max_events=260):
    """seeded environment of the whole stack above the shares: reads, node, fetchers and the real ShareFinder over
    scripted servers (answers with / without shares, failures, overdue timers), mail and deliveries in any order."""
    k = rng.choice([1, 1, 2])
    segsize = rng.choice([8, 16])
    numsegs = rng.choice([1, 2, 3])
    filesize = segsize * numsegs - rng.choice([0, 0, 1])
    guess = rng.choice([segsize, segsize, 5, 1000])
    badsegs = sorted(x for x in range(numsegs) if rng.random() < 0.1)
    nsrv = rng.choice([0, 1, 2, 3, 4])
    servers = list(range(nsrv))
    rng.shuffle(servers)
    maxout = rng.choice([1, 2, 10])
    holdings = {}
    used = set()
    for sv in servers:
        r = rng.random()
        if r < 0.2:
            holdings[sv] = "error"
        elif r < 0.35:
            holdings[sv] = []
        else:
            nums = [n for n in rng.sample(range(3), rng.choice([1, 1, 2])) if (n, sv) not in used]
            holdings[sv] = sorted(nums)
    pgood = rng.choice([0.5, 0.9, 1.0])
    R = SysFRun(k, numsegs, badsegs, filesize, segsize, guess, maxout, servers)
    toks, digs = [], []

    def do(tok):
        toks.append(tok)
        digs.append(R.apply(tok))
    try:
        nreads = rng.choice([1, 2, 2, 3])
        started = 0
        answered = set()
        ueb = False
        while len(toks) < max_events:
            act = R.node._active_segment
            acts = []
            if started < nreads:
                acts += ["read"] * 2
            pend = R.pending_delivers()
            if pend:
                acts += ["deliver"] * 4
            loops = [it for it in R.queue if getattr(it[0], "__name__", "") == "loop" and
                     getattr(it[0], "__self__", None) is not R.finder]
            if loops:
                acts += ["loop"] * 4
            if any(getattr(it[0], "__self__", None) is R.finder for it in R.queue):
                acts += ["fturn"] * 4
            if R.mail_items():
                acts += ["mail"] * 4
            openq = [q for q in R.freqs if q not in answered]
            if openq:
                acts += ["fanswer"] * 3
                timers = [q for q in openq if any(h.active and R._freq(h.a[0]) == q for h in R.timer_list)]
                if timers and rng.random() < 0.3:
                    acts += ["foverdue"]
            turns = [rid for rid in R.rids if any(getattr(it[0], "__self__", None) is R.segs[rid] for it in R.queue)]
            if turns:
                acts += ["turn"] * 3
            live = [rid for rid in R.rids if rid not in R.results]
            paused = [rid for rid in live if not R.segs[rid]._hungry]
            if paused:
                acts += ["resume"] * 3
            elif live and rng.random() < 0.08:
                acts += ["pause"]
            if live and rng.random() < 0.02:
                acts += ["stop"]
            outst = []
            if act is not None and act._running:
                outst = [sh.sid for sh in set(x for ss in act._shares_from_server.values() for x in ss)]
                if outst:
                    acts += ["term"] * 3
            if not acts:
                break
            a = rng.choice(acts)
            if a == "read":
                off = rng.randrange(0, filesize)
                do("R:%d:%d:%d" % (started, off, rng.randrange(1, filesize - off + 1)))
                started += 1
            elif a == "deliver":
                do("d:%d" % rng.choice(pend))
            elif a == "loop":
                do("l:%d" % loops[0][0].__self__.gen)
            elif a == "fturn":
                do("FL")
            elif a == "mail":
                do("M")
            elif a == "fanswer":
                q = rng.choice(openq)
                answered.add(q)
                h = holdings[R.freqs[q][1]]
                if h == "error":
                    do("FE:%d" % q)
                else:
                    do("FR:%d:%s" % (q, ",".join(map(str, h)) or "-"))
            elif a == "foverdue":
                do("FO:%d" % rng.choice(timers))
            elif a == "turn":
                do("T:%d" % rng.choice(turns))
            elif a == "resume":
                do("U:%d" % rng.choice(paused))
            elif a == "pause":
                do("P:%d" % rng.choice([r for r in live if R.segs[r]._hungry]))
            elif a == "stop":
                do("X:%d" % rng.choice(live))
            else:
                sid = rng.choice(outst)
                st = "C" if rng.random() < pgood else rng.choice(["X", "D"])
                if st == "C" and not ueb:
                    ueb = True
                    do("u")
                do("s:%d:%d:%s" % (act.gen, sid, st))
        info = {"quiescent": not R.queue and not R.finder.pending_requests,
                "unhandled": list(R.unhandled),
                "reads": {rid: {"result": R.results.get(rid), "hungry": bool(R.segs[rid]._hungry)} for rid in R.rids},
                "outstanding": 0 if R.node._active_segment is None or not R.node._active_segment._running else
                sum(len(ss) for ss in R.node._active_segment._shares_from_server.values())}
    finally:
        R.close()
    return (k, numsegs, badsegs, filesize, segsize, guess, maxout, servers), toks, digs, info


def replay_sysf_script(params, toks):
    R = SysFRun(*params)
    try:
        return [R.apply(t) for t in toks]
    finally:
        R.close()


def sysf_line(p, toks):
    return "sysf %d %d %s %d %d %d %d %s %s" % (p[0], p[1], ",".join(map(str, p[2])) or "-", p[3], p[4], p[5], p[6],
                                               ",".join(map(str, p[7])) or "-", " ".join(toks))
