"""Shared machinery of C03 / C46: the real SegmentFetcher and the real DownloadNode driven by fake
Share objects under a seeded event script (the same script goes to the Lean drivers drv_c03 /
drv_c46), and end-to-end grid scenarios with fault schedules.

Fake shares offer what fetcher.py / node.py use of a Share: `_shnum`, `_server`, `_dyhb_rtt`,
`get_block(segnum)` (returns an observer with subscribe/cancel), `is_alive()`.  The `eventually`
of fetcher.py / node.py is replaced by a queue owned by the script, so that the script decides when
each queued `loop` runs.
"""
import contextlib

ST = {"O": "OVERDUE", "C": "COMPLETE", "X": "CORRUPT", "D": "DEAD", "B": "BADSEGNUM"}


class FakeObserver:
    def __init__(self):
        self.cb = None
        self.kw = None
        self.cancelled = False

    def subscribe(self, cb, **kw):
        self.cb, self.kw = cb, kw

    def cancel(self):
        self.cancelled = True


class FakeServer:
    def __init__(self, num):
        self.num = num

    def get_name(self):
        return b"srv%d" % self.num

    def __repr__(self):
        return "<srv%d>" % self.num


class FakeShare:
    def __init__(self, sid, shnum, server, rtt, calls):
        self.sid = sid
        self._shnum = shnum
        self._server = server
        self._dyhb_rtt = rtt
        self._alive = True
        self.calls = calls
        self.observers = []     # (fetcher tag, observer)
        self.tag = None

    def is_alive(self):
        return self._alive

    def get_block(self, segnum):
        o = FakeObserver()
        self.observers.append(o)
        self.calls.append("start=%d" % self.sid)
        return o

    def __repr__(self):
        return "Share(sh%d-on-%s#%d)" % (self._shnum, self._server.num, self.sid)


def show_ids(ids, sort=True):
    ids = list(ids)
    if sort:
        ids.sort()
    return ",".join(str(i) for i in ids) or "-"


def show_blocks(blocks):
    return ",".join("%d=%d" % (k, v) for k, v in sorted(blocks.items())) or "-"


def fetcher_digest(f, queue_len, verdict):
    """`unused|outstanding|active|overdue|blocks|max|nomore|running|pending|verdict` of a real SegmentFetcher"""
    d = f.__dict__
    unused = show_ids([s.sid for s in d.get("_shares", [])], sort=False)
    outst = show_ids(s.sid for ss in d.get("_shares_from_server", {}).values() for s in ss)
    act = show_ids(s.sid for s in d.get("_active_share_map", {}).values())
    ovd = show_ids(s.sid for ss in f._overdue_share_map.values() for s in ss)
    return "|".join([unused, outst, act, ovd, show_blocks(f._blocks), str(f._max_shares_per_server),
                     "1" if f._no_more_shares else "0", "1" if f._running else "0", str(queue_len), verdict or "-"])


@contextlib.contextmanager
def patched_eventually(queue):
    """fetcher.py and node.py schedule through this queue instead of foolscap's eventual-send."""
    from allmydata.immutable.downloader import fetcher as fm, node as nm

    def ev(f, *a, **k):
        queue.append((f, a, k))
    saved = (fm.eventually, nm.eventually)
    fm.eventually = ev
    nm.eventually = ev
    try:
        yield
    finally:
        fm.eventually, nm.eventually = saved


def exc_name(e):
    if isinstance(e, KeyError):
        return "exc=key"
    if isinstance(e, AttributeError):
        return "exc=attr"
    return "exc=" + type(e).__name__


# ----------------------------------------------------------------------------- fetcher level

class FetchNode:
    """What SegmentFetcher uses of its parent node."""

    def __init__(self, calls):
        self._si_prefix = b"fakefake"
        self.calls = calls
        self.bad = False
        self.num_segments = 0
        self.verdict = None
        self.verdicts = 0

    def get_num_segments(self):
        return (0, True) if self.bad else (1, False)

    def want_more_shares(self):
        self.calls.append("want")

    def process_blocks(self, segnum, blocks):
        self.verdicts += 1
        self.verdict = "blocks:" + show_blocks(blocks)

    def fetch_failed(self, sf, f):
        self.verdicts += 1
        self.verdict = "failed:" + f.value.__class__.__name__.replace("Error", "")


class FetcherRun:
    """One real SegmentFetcher under a script; `apply(tok)` executes one event token and returns the digest."""

    def __init__(self, k):
        from allmydata.immutable.downloader.fetcher import SegmentFetcher
        from allmydata.immutable.downloader import common as dc
        self.dc = dc
        self.calls = []
        self.queue = []
        self.node = FetchNode(self.calls)
        self.servers = {}
        self.shares = {}
        self.cm = patched_eventually(self.queue)
        self.cm.__enter__()
        self.f = SegmentFetcher(self.node, 0, k, None)
        self.started = []

    def close(self):
        self.cm.__exit__(None, None, None)

    def share(self, sid, shnum, server, rtt):
        if server not in self.servers:
            self.servers[server] = FakeServer(server)
        sh = FakeShare(sid, shnum, self.servers[server], rtt, self.calls)
        self.shares[sid] = sh
        return sh

    def apply(self, tok):
        del self.calls[:]
        f = self.f
        parts = tok.split(":")
        try:
            if parts[0] == "a":
                shs = []
                if parts[1] != "-":
                    for t in parts[1].split(","):
                        sid, shnum, server, rtt = [int(x) for x in t.split(".")]
                        shs.append(self.share(sid, shnum, server, rtt))
                f.add_shares(shs)
            elif parts[0] == "n":
                f.no_more_shares()
            elif parts[0] == "s":
                sh = self.shares[int(parts[1])]
                state = getattr(self.dc, ST[parts[2]])
                kw = {}
                if parts[2] == "C":
                    kw["block"] = sh.sid
                if parts[2] == "D":
                    kw["f"] = None
                    sh._alive = False
                f._block_request_activity(share=sh, shnum=sh._shnum, state=state, **kw)
            elif parts[0] == "b":
                self.node.bad = True
            elif parts[0] == "l":
                if self.queue:
                    (fn, a, k) = self.queue.pop(0)
                    fn(*a, **k)
                else:
                    f.loop()
            elif parts[0] == "x":
                f.stop()
            else:
                raise ValueError(tok)
        except (KeyError, AttributeError) as e:
            self.calls.append(exc_name(e))
        return (",".join(self.calls) or "-") + "|" + fetcher_digest(f, len(self.queue), self.node.verdict)

    # -- what the environment can observe (used by the script generator)
    def outstanding(self):
        """ids of shares whose get_block was called and whose observer was neither cancelled nor answered"""
        return [sid for sid in self.started_ids() if sid not in self.finished]

    def started_ids(self):
        return [sid for sid, sh in self.shares.items() if sh.observers]


def share_tok(sh):
    return "%d.%d.%d.%d" % sh


def gen_fetch_script(rng, malformed=False, max_events=200):
    """Run one seeded environment against the real fetcher; returns (k, tokens, digests, info).
    The environment: a set of shares (id, shnum, server, rtt) with a disposition each
    (good / corrupt / dead / late = OVERDUE first), announced in batches, then no_more_shares."""
    k = rng.choice([1, 1, 2, 2, 3, 4])
    nshnums = rng.choice([1, 2, 3, 4, 6])
    nservers = rng.choice([1, 2, 3, 5])
    nshares = rng.choice([0, 1, 2, 3, 4, 5, 6, 8, 10])
    pgood = rng.choice([0.3, 0.6, 0.9, 1.0])
    shares = []
    seen = set()
    for i in range(nshares):
        shnum, server = rng.randrange(nshnums), rng.randrange(nservers)
        if (shnum, server) in seen and rng.random() < 0.8:
            continue
        seen.add((shnum, server))
        shares.append((len(shares), shnum, server, rng.choice([0, 0, 1, 2, 3])))
    disp = {}
    for sh in shares:
        r = rng.random()
        disp[sh[0]] = ("C" if r < pgood else rng.choice(["X", "D", "D"]), rng.random() < 0.3)
    R = FetcherRun(k)
    toks, digs = [], []

    def do(tok):
        toks.append(tok)
        digs.append(R.apply(tok))
    try:
        unannounced = list(shares)
        rng.shuffle(unannounced)
        # the node starts a fetcher with the shares it already knows (possibly none)
        first = rng.randrange(0, len(unannounced) + 1) if rng.random() < 0.5 else 0
        batch, unannounced = unannounced[:first], unannounced[first:]
        do("a:" + (",".join(share_tok(s) for s in batch) or "-"))
        finished, overdue, nomore, stopped_events = set(), set(), False, 0
        while len(toks) < max_events:
            started = [sid for sid in R.started_ids() if sid not in finished]
            acts = []
            if R.queue:
                acts += ["loop"] * 4
            if unannounced:
                acts += ["announce"] * 2
            elif not nomore:
                acts += ["nomore"]
            if started and R.f._running:
                acts += ["term"] * 3
                if any(disp[s][1] and s not in overdue for s in started):
                    acts += ["overdue"] * 2
            if malformed and rng.random() < 0.15:
                acts += ["bogus"] * 3
            if not acts:
                break
            a = rng.choice(acts)
            if a == "loop":
                do("l")
            elif a == "announce":
                n = rng.randrange(1, min(3, len(unannounced)) + 1)
                batch, unannounced = unannounced[:n], unannounced[n:]
                if R.f._running or malformed:
                    do("a:" + ",".join(share_tok(s) for s in batch))
            elif a == "nomore":
                nomore = True
                if R.f._running or malformed:
                    do("n")
            elif a == "term":
                late = [s for s in started if disp[s][1] and s not in overdue]
                cands = [s for s in started if s not in late] or started
                sid = rng.choice(cands)
                finished.add(sid)
                do("s:%d:%s" % (sid, disp[sid][0]))
            elif a == "overdue":
                sid = rng.choice([s for s in started if disp[s][1] and s not in overdue])
                overdue.add(sid)
                do("s:%d:O" % sid)
            else:
                r = rng.random()
                if r < 0.2:
                    do("b")
                elif r < 0.3:
                    do("x")
                elif r < 0.5:
                    do("l")
                elif r < 0.6 and nomore and shares:
                    do("a:" + share_tok(rng.choice(shares)))      # re-announcement after no_more_shares
                elif R.shares:
                    sid = rng.choice(list(R.shares))
                    do("s:%d:%s" % (sid, rng.choice("OCXDBO")))
                    if toks[-1][-1] != "O":
                        finished.add(sid)
                else:
                    do("n")
        info = {"k": k, "shares": shares, "disp": {str(a): list(b) for a, b in disp.items()},
                "verdict": R.node.verdict, "verdicts": R.node.verdicts, "running": R.f._running,
                "queue": len(R.queue), "outstanding": [s for s in R.started_ids() if s not in finished],
                "complete": not unannounced and nomore}
    finally:
        R.close()
    return k, toks, digs, info


def replay_fetch_script(k, toks):
    R = FetcherRun(k)
    try:
        return [R.apply(t) for t in toks], R.node.verdict
    finally:
        R.close()
