"""C43 — node and capability identity is consistent (==, != and hash() of cap and node objects)."""
ID = "C43"
LEAN_PROPS = "Tahoe.Props.C43"
DRIVER = "C43"
GENERATED = ["identity"]
SOURCES = ["src/allmydata/uri.py", "src/allmydata/immutable/filenode.py", "src/allmydata/immutable/literal.py",
           "src/allmydata/mutable/filenode.py", "src/allmydata/dirnode.py", "src/allmydata/unknown.py",
           "src/allmydata/nodemaker.py"]
DESIGN_REF = "DESIGN.md §2 C43"
TECHNIQUE = ("Lean 4 theorems over a per-class transcription of __eq__/__ne__/__hash__ and of CPython's operator dispatch "
             "(NotImplemented, reflected call, identity fallback); differential correspondence on pairs of real cap and node "
             "objects at operator and at method granularity, in every usage state of the objects (read-only accessors applied to "
             "neither / one / both operands before comparing)")
LEVEL_TEXT = ("18 theorems, none partial, for every pair of modelled classes (18 cap classes, UnknownURI, ImmutableFileNode, LiteralFileNode, "
              "MutableFileNode, DirectoryNode, UnknownNode, unrelated objects): eq_iff_same_string (two nodes / two caps are == exactly when "
              "their capability strings are equal), cross_class_unequal, cross_kind_caps_unequal, eq_reflexive, eq_symmetric, eq_transitive; "
              "ne_is_not_eq (!= is the negation of == for every pair of objects, through the whole operator protocol) and eqMethod_total; "
              "eq_implies_hash_eq (equal objects hash equally, under every interpretation of CPython's hash functions), "
              "hash_depends_only_on_class_and_caps and equal_objects_hashable (hash() evaluates for every class). "
              "shipped_ne_counterexample, shipped_dirnode_counterexample, shipped_unknownuri_counterexample and "
              "unknownnode_unhashable_counterexample document the four defects of the originally shipped code (all repaired in /repo); "
              "uri_classes_pinned, prefixes_pinned, dunder_owners_pinned tie the class list, cap prefixes and method owners to the source. "
              "The model is tied to the code by comparing ==, !=, the four method results, hash equality and class invariants on seeded and "
              "fixed-corpus pairs of real objects.")
LEVEL_NOTE = ("Lean kernel + standard axioms; the model is a hand transcription tied by correspondence; hash values are "
              "symbolic (theorems hold for every interpretation); cap-string prefix-freeness is proved from the extracted prefixes. "
              "Four genuine defects were found and are fixed in /repo (ImmutableFileNode.__ne__ returned the result of __eq__; DirectoryNode and "
              "UnknownURI compared by identity; UnknownNode was unhashable, fix 8fd04af); no open finding. Correspondence/monitor only (no theorem "
              "about the implementation): that equality does not depend on what was done to the objects before (usage states); not covered: the "
              "relation between a cap's fields and its string (C15), CiphertextFileNode and ProhibitedNode.")
RULE = ("seeded pools of cap strings of every class (equal, near-equal, read/write/verify/directory variants of one key, "
        "unknown-format strings) wrapped into cap objects (uri.from_string, with and without ro./imm. prefix) and node "
        "objects (direct constructors and NodeMaker.create_from_cap); a case is one ordered pair of objects; distinct = "
        "distinct (object description a, object description b); non-trivial = both operands are nodes or both are caps "
        "(the pairs the statement speaks about).  Usage states: further pairs are built afresh in two independent NodeMakers, "
        "compared, then a random subset of read-only accessors (to_string, hash, repr/str, get_readonly, get_verify_cap, "
        "is_readonly, is_mutable, abbrev/abbrev_si, get_storage_index, get_uri/get_readonly_uri/get_write_uri/get_repair_cap, "
        "dict/set membership …) is applied to neither / the left / the right / both operands, compared again, applied to the "
        "other side, compared again, hashed and looked up in dict/set, compared again: ==, !=, symmetry, hash agreement and "
        "dict/set lookup must follow string equality in every one of these states")
TRUSTED = ["lean/Tahoe/Identity/Model.lean is a hand transcription of the comparison and hash methods of _BaseURI, UnknownURI and the "
           "five node classes (Variant.fixed = the code in /repo) and of CPython's rich-comparison dispatch",
           "objects are abstracted to (class, id(), cap string(s)); CPython hash functions are uninterpreted"]
ASSUMPTIONS = [
    "the capability strings of an UnknownNode are the pair (get_write_uri(), get_readonly_uri()); of every other node get_uri(); of a cap object to_string()",
    "'equal objects hash equally' is read as: hash() evaluates for two equal nodes / two equal caps and gives the same value (theorems equal_objects_hashable, eq_implies_hash_eq; an unhashable pair on the implementation is reported as unhashable-equal-objects:<classes>)",
    "uri.from_string is a function of (string, deep_immutable): within one parse context an UnknownURI never holds a string that is the to_string() of a parsed cap (hypothesis ParseFunctional of eq_iff_same_string); pairs mixing a cap parsed normally with the UnknownURI error marker of the same string parsed under deep_immutable=True are skipped and counted",
    "distinct live objects have distinct id() and object.__hash__ (hypothesis IdConsistent of eq_symmetric, eq_transitive, cross_class_unequal, eq_implies_hash_eq; hash collisions between unequal symbolic hash values are possible in principle; none is expected in 64 bits)",
    "CiphertextFileNode (verify-cap node without get_uri/get_cap) and ProhibitedNode are outside the model",
]

MODELLED_NODE_TAGS = {"ImmutableFileNode": "imm", "LiteralFileNode": "lit", "MutableFileNode": "mut", "DirectoryNode": "dir"}


def hx(b):
    return b.hex() if b else "-"


def optx(b):
    return "N" if b is None else hx(b)


class Env:
    """Real objects are built from JSON-able specs so that a failing pair can be replayed."""

    def __init__(self):
        from allmydata.nodemaker import NodeMaker
        self.nm = NodeMaker(None, None, None, None, None, {"k": 3, "n": 10}, None, None)
        self.keep = []       # keep every object alive: id() must stay unique
        self.ids = {}
        self.others = {}

    def ident(self, o):
        return self.ids.setdefault(id(o), len(self.ids) + 1)

    def build(self, spec):
        from allmydata import uri
        from allmydata.immutable.filenode import ImmutableFileNode
        from allmydata.immutable.literal import LiteralFileNode
        from allmydata.mutable.filenode import MutableFileNode
        from allmydata.dirnode import DirectoryNode
        from allmydata.unknown import UnknownNode
        how = spec["how"]
        s = bytes.fromhex(spec["s"]) if spec.get("s") is not None else None
        s2 = bytes.fromhex(spec["s2"]) if spec.get("s2") is not None else None
        imm = bool(spec.get("imm"))
        if how == "from_string":
            o = uri.from_string(s, deep_immutable=imm)
        elif how == "node":
            o = self._direct_node(uri.from_string(s))
        elif how == "nodemaker":
            o = self.nm.create_from_cap(s, s2, deep_immutable=imm)
        elif how == "unknown_node":
            o = UnknownNode(s, s2, deep_immutable=imm)
        elif how == "unknown_node_cap":
            o = UnknownNode(s, s2, deep_immutable=imm).get_cap()
        elif how == "unknown_node_readcap":
            o = UnknownNode(s, s2, deep_immutable=imm).get_readcap()
        elif how == "other":
            k = spec["k"]
            kind = k % 6
            if kind in (1, 2, 3, 5):
                k = kind          # one instance per builtin type and Env: two str/bytes/int/tuple would compare by value
            if k not in self.others:
                self.others[k] = [object(), "not a node %d" % k, b"URI:CHK:not-a-node-%d" % k, 1000003 + k,
                                  type("NotANode", (), {})(), (k, "tuple")][kind]
            o = self.others[k]
        else:
            raise ValueError("spec " + repr(spec))
        self.keep.append(o)
        return o

    def _direct_node(self, cap):
        """a fresh node object of the class NodeMaker would choose, bypassing NodeMaker's memo table"""
        from allmydata import uri
        from allmydata.immutable.filenode import ImmutableFileNode
        from allmydata.immutable.literal import LiteralFileNode
        from allmydata.mutable.filenode import MutableFileNode
        from allmydata.dirnode import DirectoryNode
        if isinstance(cap, uri.LiteralFileURI):
            return LiteralFileNode(cap)
        if isinstance(cap, uri.CHKFileURI):
            return ImmutableFileNode(cap, None, None, None, None)
        if isinstance(cap, (uri.ReadonlySSKFileURI, uri.WriteableSSKFileURI, uri.WriteableMDMFFileURI, uri.ReadonlyMDMFFileURI)):
            return MutableFileNode(None, None, {"k": 3, "n": 10}, None).init_from_cap(cap)
        if isinstance(cap, (uri.DirectoryURI, uri.ReadonlyDirectoryURI, uri.ImmutableDirectoryURI, uri.LiteralDirectoryURI,
                            uri.MDMFDirectoryURI, uri.ReadonlyMDMFDirectoryURI)):
            return DirectoryNode(self._direct_node(cap.get_filenode_cap()), self.nm, None)
        return None


def describe(env, o):
    """(driver token, class name, sort, wf) of a real object, or None when its class is not modelled."""
    from allmydata import uri
    from allmydata.unknown import UnknownNode
    cn = type(o).__name__
    i = env.ident(o)
    if isinstance(o, uri._BaseURI):
        return ("uri:%d:%s:%s" % (i, cn, hx(o.to_string())), cn, "cap", True)
    if type(o) is uri.UnknownURI:
        return ("uuri:%d:%s" % (i, optx(o.to_string())), cn, "cap", True)
    if type(o) is UnknownNode:
        return ("unk:%d:%s:%s" % (i, optx(o.rw_uri), optx(o.ro_uri)), cn, "node",
                o.rw_uri is None or o.ro_uri is not None)
    if cn in MODELLED_NODE_TAGS and type(o).__module__.startswith("allmydata."):
        u = o._uri if cn in ("MutableFileNode", "DirectoryNode") else o.u
        ucn = type(u).__name__
        wf = {"ImmutableFileNode": ucn == "CHKFileURI", "LiteralFileNode": ucn == "LiteralFileURI",
              "MutableFileNode": ucn in ("WriteableSSKFileURI", "ReadonlySSKFileURI", "WriteableMDMFFileURI", "ReadonlyMDMFFileURI"),
              "DirectoryNode": ucn in ("DirectoryURI", "ReadonlyDirectoryURI", "ImmutableDirectoryURI", "LiteralDirectoryURI",
                                       "MDMFDirectoryURI", "ReadonlyMDMFDirectoryURI")}[cn]
        return ("%s:%d:%s:%s" % (MODELLED_NODE_TAGS[cn], i, ucn, hx(u.to_string())), cn, "node", wf)
    if type(o).__module__.startswith("allmydata."):
        return None
    return ("other:%d" % i, "other", "other", True)


def caps_of(o, sort):
    """the capability strings of an object, through its public API (property statement side)"""
    from allmydata.unknown import UnknownNode
    if sort == "cap":
        return (o.to_string(), None)
    if type(o) is UnknownNode:
        return (o.get_write_uri(), o.get_readonly_uri())
    return (o.get_uri(), None)


def r3(v):
    return "NI" if v is NotImplemented else ("T" if v else "F")


def try_hash(o):
    try:
        return hash(o)
    except TypeError:
        return None


def eval_pair(ctx, env, case, a, b, da, db):
    """run the real operators; monitor from the statement; returns the canonical output string"""
    eq = bool(a == b)
    ne = bool(a != b)
    meq = (type(a).__eq__(a, b), type(b).__eq__(b, a))
    mne = (type(a).__ne__(a, b), type(b).__ne__(b, a))
    ha, hb = try_hash(a), try_hash(b)
    if ha is None or hb is None:
        hs = "U" + ("a" if ha is None else "") + ("b" if hb is None else "")
    else:
        hs = "E" if ha == hb else "D"
    pair = "%s-%s" % (da[1], db[1])
    # ---- monitor (the statement)
    if ne == eq:
        ctx.violation("`!=` is not the negation of `==`: a == b is %s and a != b is %s" % (eq, ne), case,
                      "ne-not-negation:%s:%s" % (pair, "both-true" if eq else "both-false"))
    applies = da[2] == db[2] and da[2] in ("cap", "node")
    if applies:
        same = caps_of(a, da[2]) == caps_of(b, db[2])
        if eq != same:
            ctx.violation("%s capability strings but a == b is %s" % ("same" if same else "different", eq), case,
                          "eq-mismatch:%s:%s" % (pair, "same-cap-unequal" if same else "different-cap-equal"))
        ctx.count("rel:" + ("identical" if a is b else ("same-caps" if same else "different-caps")))
    if eq:
        if ha is not None and hb is not None and ha != hb:
            ctx.violation("equal objects hash differently", case, "hash-mismatch:%s" % pair)
        if applies and (ha is None or hb is None):
            # "equal objects hash equally": hash(a) == hash(b) must evaluate for two equal nodes / two equal caps
            ctx.violation("two equal %ss cannot be hashed (hash() raises TypeError): they cannot be set members or dict keys"
                          % da[2], case, "unhashable-equal-objects:%s" % pair)
    for d, h in ((da, ha), (db, hb)):
        if h is None:
            ctx.count("unhashable:" + d[1])
    # symmetric pairs must agree
    if bool(b == a) != eq:
        ctx.violation("`==` depends on the operand order", case, "eq-asymmetric:%s" % pair)
    ctx.count("pair:" + pair)
    ctx.case((da[0], db[0]) if applies else None)
    return "eq=%s ne=%s meq=%s,%s mne=%s,%s hash=%s wf=%s,%s" % (
        r3(eq), r3(ne), r3(meq[0]), r3(meq[1]), r3(mne[0]), r3(mne[1]), hs, r3(da[3]), r3(db[3]))


# ------------------------------------------------------------------------------------------------ generation

def gen_strings(rng):
    """a pool of cap strings: every class, sharing keys so that near-equal strings are common"""
    from allmydata import uri
    res = []
    keys = [bytes(rng.randrange(256) for _ in range(16)) for _ in range(2)]
    fps = [bytes(rng.randrange(256) for _ in range(32)) for _ in range(2)]
    for _ in range(rng.randrange(1, 3)):
        chk = uri.CHKFileURI(key=rng.choice(keys), uri_extension_hash=rng.choice(fps), needed_shares=rng.choice([1, 3]),
                             total_shares=rng.choice([3, 10]), size=rng.choice([0, 1, 1000, 1001]))
        res += [chk, chk.get_verify_cap(), uri.ImmutableDirectoryURI(chk), uri.ImmutableDirectoryURIVerifier(chk.get_verify_cap())]
    for _ in range(rng.randrange(1, 3)):
        lit = uri.LiteralFileURI(bytes(rng.randrange(256) for _ in range(rng.choice([0, 1, 5, 20]))))
        res += [lit, uri.LiteralDirectoryURI(lit)]
    for _ in range(rng.randrange(1, 3)):
        ssk = uri.WriteableSSKFileURI(rng.choice(keys), rng.choice(fps))
        res += [ssk, ssk.get_readonly(), ssk.get_verify_cap(), uri.DirectoryURI(ssk), uri.ReadonlyDirectoryURI(ssk.get_readonly()),
                uri.DirectoryURIVerifier(ssk.get_verify_cap())]
        mdmf = uri.WriteableMDMFFileURI(rng.choice(keys), rng.choice(fps))
        res += [mdmf, mdmf.get_readonly(), mdmf.get_verify_cap(), uri.MDMFDirectoryURI(mdmf),
                uri.ReadonlyMDMFDirectoryURI(mdmf.get_readonly()), uri.MDMFDirectoryURIVerifier(mdmf.get_verify_cap())]
    known = [u.to_string() for u in res]
    tail = bytes(rng.choice(b"abcdefghijklmnopqrstuvwxyz234567") for _ in range(rng.choice([0, 3, 12])))
    unknown = [b"URI:FUTURE:" + tail, b"URI:FUTURE-RO:" + tail, b"ro.URI:FUTURE-RO:" + tail, b"imm.URI:FUTURE-IMM:" + tail,
               b"URI:CHK:" + tail, b"x-new-cap:" + tail + b"\xff\x00", b"ro." + rng.choice(known), b"imm." + rng.choice(known),
               b"URI:DIR2-FUTURE:" + tail, rng.choice(known) + b"x", b"http://127.0.0.1:3456/uri/" + rng.choice(known)]
    return known, unknown


def gen_specs(rng, known, unknown):
    specs = []
    pool = known + rng.sample(unknown, 5)
    for s in pool:
        n = rng.choice([1, 2, 2, 3])
        for _ in range(n):
            r = rng.random()
            if r < 0.30:
                specs.append({"how": "from_string", "s": s.hex(), "imm": rng.random() < 0.15})
            elif r < 0.37:
                specs.append({"how": "from_string", "s": (rng.choice([b"ro.", b"imm."]) + s).hex(), "imm": False})
            elif r < 0.70:
                specs.append({"how": "node", "s": s.hex()})
            else:
                if rng.random() < 0.7:
                    specs.append({"how": "nodemaker", "s": s.hex(), "s2": None, "imm": rng.random() < 0.2})
                else:
                    specs.append({"how": "nodemaker", "s": None, "s2": s.hex(), "imm": rng.random() < 0.2})
    for _ in range(rng.randrange(3, 8)):
        rw = rng.choice(unknown + [None, None])
        ro = rng.choice(unknown + [None])
        how = rng.choice(["unknown_node", "unknown_node", "unknown_node", "nodemaker", "unknown_node_cap", "unknown_node_readcap"])
        specs.append({"how": how, "s": rw.hex() if rw is not None else None, "s2": ro.hex() if ro is not None else None,
                      "imm": rng.random() < 0.25})
    for _ in range(3):
        specs.append({"how": "other", "k": rng.randrange(12)})
    return specs


_CHK = b"URI:CHK:aeaqcaibaeaqcaibaeaqcaibae:aibaeaqcaibaeaqcaibaeaqcaibaeaqcaibaeaqcaibaeaqcaiba"
_SSK = b"URI:SSK:nnvww23lnnvww23lnnvww23lnm:mztgmztgmztgmztgmztgmztgmztgmztgmztgmztgmztgmztgmzta"
_MDMF = b"URI:MDMF:nnvww23lnnvww23lnnvww23lnm:mztgmztgmztgmztgmztgmztgmztgmztgmztgmztgmztgmztgmzta"
_DIR2 = b"URI:DIR2:" + _SSK[len(b"URI:SSK:"):]
_SSK_RO_BITS = b"nnvww23lnnvww23lnnvww23lnm:mztgmztgmztgmztgmztgmztgmztgmztgmztgmztgmztgmztgmzta"
_SSK_VER_BITS = b"nnvww23lnnvww23lnnvww23lnm:mztgmztgmztgmztgmztgmztgmztgmztgmztgmztgmztgmztgmzta"

CORPUS = [
    # the three defects of the shipped code (DESIGN §3 C43), as minimal pairs
    ({"how": "node", "s": b"URI:CHK:aeaqcaibaeaqcaibaeaqcaibae:aibaeaqcaibaeaqcaibaeaqcaibaeaqcaibaeaqcaibaeaqcaiba:3:10:1000".hex()},
     {"how": "node", "s": b"URI:CHK:aeaqcaibaeaqcaibaeaqcaibae:aibaeaqcaibaeaqcaibaeaqcaibaeaqcaibaeaqcaibaeaqcaiba:3:10:1000".hex()}),
    ({"how": "node", "s": b"URI:CHK:aeaqcaibaeaqcaibaeaqcaibae:aibaeaqcaibaeaqcaibaeaqcaibaeaqcaibaeaqcaibaeaqcaiba:3:10:1000".hex()},
     {"how": "node", "s": b"URI:CHK:aeaqcaibaeaqcaibaeaqcaibae:aibaeaqcaibaeaqcaibaeaqcaibaeaqcaibaeaqcaibaeaqcaiba:3:10:1001".hex()}),
    ({"how": "nodemaker", "s": b"URI:DIR2-CHK:aeaqcaibaeaqcaibaeaqcaibae:aibaeaqcaibaeaqcaibaeaqcaibaeaqcaibaeaqcaibaeaqcaiba:3:10:1000".hex(), "s2": None, "imm": False},
     {"how": "nodemaker", "s": b"URI:DIR2-CHK:aeaqcaibaeaqcaibaeaqcaibae:aibaeaqcaibaeaqcaibaeaqcaibaeaqcaibaeaqcaibaeaqcaiba:3:10:1000".hex(), "s2": None, "imm": False}),
    ({"how": "from_string", "s": b"URI:FUTURE:abc".hex(), "imm": False},
     {"how": "from_string", "s": b"URI:FUTURE:abc".hex(), "imm": False}),
    # unknown-format caps that differ only in an alleged-strength prefix are different strings   [seeded change C43-d]
    ({"how": "from_string", "s": b"URI:FUTURE:abc".hex(), "imm": False},
     {"how": "from_string", "s": b"ro.URI:FUTURE:abc".hex(), "imm": False}),
    ({"how": "from_string", "s": b"URI:FUTURE:abc".hex(), "imm": False},
     {"how": "from_string", "s": b"imm.URI:FUTURE:abc".hex(), "imm": False}),
    ({"how": "from_string", "s": b"ro.URI:FUTURE:abc".hex(), "imm": False},
     {"how": "from_string", "s": b"imm.URI:FUTURE:abc".hex(), "imm": False}),
    ({"how": "unknown_node_cap", "s": None, "s2": b"ro.URI:FUTURE-RO:x".hex(), "imm": False},
     {"how": "unknown_node_cap", "s": None, "s2": b"imm.URI:FUTURE-RO:x".hex(), "imm": False}),
    # two equal nodes of every node class must hash (and hash equally)   [seeded change C43-e: LiteralFileNode]
    ({"how": "node", "s": b"URI:LIT:krugkidfnzsc4".hex()}, {"how": "node", "s": b"URI:LIT:krugkidfnzsc4".hex()}),
    ({"how": "nodemaker", "s": b"URI:LIT:krugkidfnzsc4".hex(), "s2": None, "imm": False},
     {"how": "node", "s": b"URI:LIT:krugkidfnzsc4".hex()}),
    ({"how": "node", "s": _SSK.hex()}, {"how": "node", "s": _SSK.hex()}),
    ({"how": "node", "s": _MDMF.hex()}, {"how": "node", "s": _MDMF.hex()}),
    ({"how": "node", "s": _DIR2.hex()}, {"how": "node", "s": _DIR2.hex()}),
    ({"how": "node", "s": b"URI:DIR2-LIT:krugkidfnzsc4".hex()}, {"how": "node", "s": b"URI:DIR2-LIT:krugkidfnzsc4".hex()}),
    ({"how": "unknown_node", "s": None, "s2": b"ro.URI:FUTURE-RO:x".hex(), "imm": False},
     {"how": "unknown_node", "s": None, "s2": b"ro.URI:FUTURE-RO:x".hex(), "imm": False}),
    # near misses: same key and UEB hash, another k / N / size (nodes and bare caps)   [seeded change C43-a]
    ({"how": "node", "s": (_CHK + b":3:10:1000").hex()}, {"how": "node", "s": (_CHK + b":4:10:1000").hex()}),
    ({"how": "node", "s": (_CHK + b":3:10:1000").hex()}, {"how": "node", "s": (_CHK + b":3:11:1000").hex()}),
    ({"how": "nodemaker", "s": (_CHK + b":3:10:1000").hex(), "s2": None, "imm": False},
     {"how": "nodemaker", "s": (_CHK + b":3:10:1001").hex(), "s2": None, "imm": False}),
    ({"how": "from_string", "s": (_CHK + b":3:10:1000").hex(), "imm": False},
     {"how": "from_string", "s": (_CHK + b":3:10:1001").hex(), "imm": False}),
    # a mutable file node / directory node against objects of other classes: `!=` must hold   [seeded change C43-c]
    ({"how": "node", "s": _SSK.hex()}, {"how": "node", "s": (_CHK + b":3:10:1000").hex()}),
    ({"how": "node", "s": _SSK.hex()}, {"how": "node", "s": b"URI:LIT:krugkidfnzsc4".hex()}),
    ({"how": "node", "s": _SSK.hex()}, {"how": "other", "k": 0}),
    ({"how": "node", "s": _SSK.hex()}, {"how": "other", "k": 1}),
    ({"how": "node", "s": _DIR2.hex()}, {"how": "node", "s": _SSK.hex()}),
    ({"how": "node", "s": _DIR2.hex()}, {"how": "other", "k": 4}),
    ({"how": "node", "s": _DIR2.hex()}, {"how": "from_string", "s": _DIR2.hex(), "imm": False}),
    ({"how": "node", "s": _MDMF.hex()}, {"how": "unknown_node", "s": None, "s2": b"ro.URI:FUTURE-RO:x".hex(), "imm": False}),
]

# usage-state corpus: one operand has rendered its string / been hashed, the other has not   [seeded change C43-b]
USAGE_CORPUS = []
for _s in (_DIR2, b"URI:DIR2-RO:" + _SSK_RO_BITS, b"URI:DIR2-CHK:" + _CHK[len(b"URI:CHK:"):] + b":3:10:1000",
           b"URI:DIR2-LIT:krugkidfnzsc4", b"URI:DIR2-MDMF:" + _MDMF[len(b"URI:MDMF:"):],
           b"URI:DIR2-Verifier:" + _SSK_VER_BITS, _SSK, _CHK + b":3:10:1000"):
    for _how in ("from_string", "node", "nodemaker"):
        for _first, _acc in (("left", ["to_string"]), ("right", ["hash"]), ("left", ["get_uri"]), ("right", ["get_readonly_uri", "repr"])):
            _sp = {"how": _how, "s": _s.hex(), "imm": False}
            if _how == "nodemaker":
                _sp["s2"] = None
            USAGE_CORPUS.append((_sp, dict(_sp), {"first": _first, "accessors": _acc}))


def parse_functional_ok(a, b, da, db):
    from allmydata import uri
    for x, y in ((a, b), (b, a)):
        if isinstance(x, uri._BaseURI) and type(y) is uri.UnknownURI and y.to_string() == x.to_string():
            return False
    return True


def run_pairs(ctx, env, objs, pairs, cases, impl, lines):
    for (i, j) in pairs:
        (sa, a, da), (sb, b, db) = objs[i], objs[j]
        case = {"a": sa, "b": sb, "same_object": a is b}
        if not parse_functional_ok(a, b, da, db):
            ctx.count("skipped:parse-functional-hypothesis-false")
            continue
        out = eval_pair(ctx, env, case, a, b, da, db)
        cases.append(case)
        impl.append(out)
        lines.append("pair %s %s" % (da[0], db[0]))


# ------------------------------------------------------------------------------------------------ usage states
# Equality must be a function of the capability strings, not of what has been done to the objects before:
# read-only accessors (which may lazily cache things on the object) are applied to neither / one / both operands
# between comparisons, on objects built independently (two NodeMakers) and never touched by the harness before.

def _member(x):
    return (x in {x: 1}) and (x in {x}) and (x in [x])


CAP_ACCESSORS = {
    "to_string": lambda x: x.to_string(),
    "hash": lambda x: hash(x),
    "repr": lambda x: repr(x),
    "str": lambda x: str(x),
    "get_readonly": lambda x: x.get_readonly(),
    "get_verify_cap": lambda x: x.get_verify_cap(),
    "is_readonly": lambda x: x.is_readonly(),
    "is_mutable": lambda x: x.is_mutable(),
    "abbrev": lambda x: x.abbrev(),
    "abbrev_si": lambda x: x.abbrev_si(),
    "get_storage_index": lambda x: x.get_storage_index(),
    "get_filenode_cap": lambda x: x.get_filenode_cap(),
    "readonly.to_string": lambda x: x.get_readonly().to_string(),
    "verify_cap.to_string": lambda x: x.get_verify_cap().to_string(),
    "dict/set-membership": _member,
    "self-compare": lambda x: (x == x, x != x),
}
NODE_ACCESSORS = {
    "get_uri": lambda x: x.get_uri(),
    "get_readonly_uri": lambda x: x.get_readonly_uri(),
    "get_write_uri": lambda x: x.get_write_uri(),
    "get_verify_cap": lambda x: x.get_verify_cap(),
    "get_repair_cap": lambda x: x.get_repair_cap(),
    "get_storage_index": lambda x: x.get_storage_index(),
    "is_readonly": lambda x: x.is_readonly(),
    "is_mutable": lambda x: x.is_mutable(),
    "is_unknown": lambda x: x.is_unknown(),
    "hash": lambda x: hash(x),
    "repr": lambda x: repr(x),
    "get_cap": lambda x: x.get_cap(),
    "get_readcap": lambda x: x.get_readcap(),
    "get_cap.to_string": lambda x: x.get_cap().to_string(),
    "get_readcap.to_string": lambda x: x.get_readcap().to_string(),
    "verify_cap.to_string": lambda x: x.get_verify_cap().to_string(),
    "get_size": lambda x: x.get_size(),
    "dict/set-membership": _member,
    "self-compare": lambda x: (x == x, x != x),
}


def apply_accessors(ctx, o, sort, names):
    table = CAP_ACCESSORS if sort == "cap" else NODE_ACCESSORS
    for n in names:
        f = table.get(n)
        if f is None:
            continue
        try:
            f(o)
            ctx.count("accessor:%s:%s" % (sort, n))
        except Exception as e:       # e.g. UnknownNode.is_readonly() asserts, UnknownNode is unhashable
            ctx.count("accessor-raised:%s:%s:%s" % (sort, n, type(e).__name__))


def observe(a, b):
    """the comparison operators only (no hash(): that is an accessor)"""
    return (bool(a == b), bool(a != b), bool(b == a), bool(b != a))


def gen_usage(rng, sorts):
    names = set()
    for srt in sorts:
        table = CAP_ACCESSORS if srt == "cap" else NODE_ACCESSORS
        k = rng.choice([1, 1, 2, 4])
        names.update(rng.sample(sorted(table), k))
    return {"first": rng.choice(["none", "left", "left", "right", "right", "both"]), "accessors": sorted(names)}


def retag(token, i):
    """the same object description with another object id"""
    t = token.split(":")
    t[1] = str(i)
    return ":".join(t)


def eval_usage(ctx, sa, sb, da, db, same, usage, cases, impl, lines):
    """sa/sb: specs; da/db: descriptions of twin objects built from the same specs (they tell class, sort and the
    model token); same: whether the twins carry the same capability strings (None when the statement is silent).
    Builds a and b afresh in two independent Envs and compares them in every usage state."""
    ea, eb = Env(), Env()
    try:
        a, b = ea.build(sa), eb.build(sb)
    except Exception as e:
        ctx.count("build-error:" + type(e).__name__)
        return
    if a is None or b is None or type(a).__name__ != da[1] and da[1] != "other" or type(b).__name__ != db[1] and db[1] != "other":
        ctx.count("usage:skipped-class-changed")
        return
    case = {"phase": "usage", "a": sa, "b": sb, "usage": usage}
    pair = "%s-%s" % (da[1], db[1])
    first, names = usage["first"], usage["accessors"]
    obs = [("fresh", observe(a, b))]
    if first in ("left", "both"):
        apply_accessors(ctx, a, da[2], names)
    if first in ("right", "both"):
        apply_accessors(ctx, b, db[2], names)
    obs.append((first, observe(a, b)))
    if first in ("none", "right"):
        apply_accessors(ctx, a, da[2], names)
    if first in ("none", "left"):
        apply_accessors(ctx, b, db[2], names)
    obs.append(("both", observe(a, b)))
    ha, hb = try_hash(a), try_hash(b)
    obs.append(("both+hashed", observe(a, b)))
    ctx.count("usage-state:" + first)
    # ---- monitor (the statement, in every usage state)
    reported = False
    for state, (eq, ne, req, rne) in obs:
        if ne == eq or rne == req:
            ctx.violation("`!=` is not the negation of `==` (usage state %s)" % state, case,
                          "ne-not-negation:%s:%s" % (pair, "both-true" if eq else "both-false"))
            reported = True
        if eq != req:
            ctx.violation("`==` depends on the operand order (usage state %s)" % state, case, "eq-asymmetric:%s" % pair)
            reported = True
    eqs = [o[1][0] for o in obs]
    if same is not None:
        wrong = [st for st, o in obs if o[0] != same]
        if wrong and len(set(eqs)) > 1:
            ctx.violation("a == b is %s for %s capability strings once read-only accessors %s have been used on: %s "
                          "(the answers over the usage states fresh/%s/both/both+hashed were %s)" % (
                              not same, "the same" if same else "different", names, wrong[0], first, eqs), case,
                          "equality-depends-on-history:%s:%s" % (pair, wrong[0]))
        elif wrong:
            ctx.violation("%s capability strings but a == b is %s" % ("same" if same else "different", not same), case,
                          "eq-mismatch:%s:%s" % (pair, "same-cap-unequal" if same else "different-cap-equal"))
        if same and obs[-1][1][0] and (ha is None or hb is None):
            ctx.violation("two equal %ss cannot be hashed (hash() raises TypeError): they cannot be set members or dict keys"
                          % da[2], case, "unhashable-equal-objects:%s" % pair)
        if ha is not None and hb is not None:
            if same and ha != hb:
                ctx.violation("equal objects hash differently", case, "hash-mismatch:%s" % pair)
            look = ((b in {a: 1}), (a in {b}), len({a, b}) == 1)
            if any(x != same for x in look):
                ctx.violation("dict/set lookup of an object with %s capability strings answered %s" % (
                    "the same" if same else "different", look), case, "lookup-mismatch:%s" % pair)
            ctx.count("usage:lookup-checked")
        ctx.case(("usage", da[0], db[0], first, tuple(names)))
    else:
        if len(set(eqs)) > 1 and not reported:
            # the statement is silent about this pair of classes; the model (a pure function) is not
            ctx.disagree("== of one pair of objects changed with the usage state", case, str(eqs), "constant")
        ctx.case(None)
    # ---- correspondence: the final state against the model
    eq, ne = obs[-1][1][0], obs[-1][1][1]
    meq = (type(a).__eq__(a, b), type(b).__eq__(b, a))
    mne = (type(a).__ne__(a, b), type(b).__ne__(b, a))
    if ha is None or hb is None:
        hs = "U" + ("a" if ha is None else "") + ("b" if hb is None else "")
    else:
        hs = "E" if ha == hb else "D"
    cases.append(case)
    impl.append("eq=%s ne=%s meq=%s,%s mne=%s,%s hash=%s wf=%s,%s" % (
        r3(eq), r3(ne), r3(meq[0]), r3(meq[1]), r3(mne[0]), r3(mne[1]), hs, r3(da[3]), r3(db[3])))
    lines.append("pair %s %s" % (retag(da[0], 1), retag(db[0], 2)))


def usage_round(ctx, env, objs, n_pairs, cases, impl, lines):
    """objs: the described pool of this round (used as twins: they say what class and strings a spec yields)"""
    cand = [k for k, (sp, o, d) in enumerate(objs) if sp["how"] != "other"]
    if not cand:
        return
    bykey = {}
    for k in cand:
        bykey.setdefault(objs[k][2][0].split(":")[-1], []).append(k)
    pairs = []
    for key, idx in bykey.items():
        for _ in range(3):
            pairs.append((ctx.rng.choice(idx), ctx.rng.choice(idx)))      # same strings (possibly the same spec, built twice)
    ctx.rng.shuffle(pairs)
    pairs = pairs[:n_pairs]
    for _ in range(max(4, n_pairs // 5)):
        pairs.append((ctx.rng.choice(cand), ctx.rng.choice(cand)))
    for (i, j) in pairs:
        (sa, ta, da), (sb, tb, db) = objs[i], objs[j]
        if not parse_functional_ok(ta, tb, da, db):
            continue
        applies = da[2] == db[2] and da[2] in ("cap", "node")
        same = (caps_of(ta, da[2]) == caps_of(tb, db[2])) if applies else None
        eval_usage(ctx, sa, sb, da, db, same, gen_usage(ctx.rng, (da[2], db[2])), cases, impl, lines)


def build_pool(ctx, env, specs):
    objs = []
    for sp in specs:
        try:
            o = env.build(sp)
        except Exception as e:   # a constructor refusing an input is outside the property
            ctx.count("build-error:" + type(e).__name__)
            continue
        if o is None:
            ctx.count("no-node-class-for-cap")
            continue
        d = describe(env, o)
        if d is None:
            ctx.count("unmodelled-class:" + type(o).__name__)
            continue
        if not d[3]:
            ctx.count("wf-false:" + d[1])
        objs.append((sp, o, d))
    return objs


def run(ctx):
    cases, impl, lines = [], [], []
    env = Env()
    if ctx.replay and ctx.replay["case"].get("phase") == "usage":
        c = ctx.replay["case"]
        objs = build_pool(ctx, env, [c["a"], c["b"]])
        if len(objs) == 2:
            (sa, ta, da), (sb, tb, db) = objs
            applies = da[2] == db[2] and da[2] in ("cap", "node")
            same = (caps_of(ta, da[2]) == caps_of(tb, db[2])) if applies else None
            eval_usage(ctx, sa, sb, da, db, same, c["usage"], cases, impl, lines)
    elif ctx.replay:
        c = ctx.replay["case"]
        a = env.build(c["a"])
        b = a if c.get("same_object") else env.build(c["b"])
        objs = [(c["a"], a, describe(env, a)), (c["b"], b, describe(env, b))]
        run_pairs(ctx, env, objs, [(0, 1), (1, 0)], cases, impl, lines)
    else:
        # fixed corpus first
        for sa, sb in CORPUS:
            env = Env()
            objs = build_pool(ctx, env, [sa, sb])
            run_pairs(ctx, env, objs, [(0, 1), (1, 0), (0, 0)], cases, impl, lines)
        for sa, sb, usage in USAGE_CORPUS:
            env = Env()
            objs = build_pool(ctx, env, [sa, sb])
            if len(objs) == 2:
                (_, ta, da), (_, tb, db) = objs
                applies = da[2] == db[2] and da[2] in ("cap", "node")
                same = (caps_of(ta, da[2]) == caps_of(tb, db[2])) if applies else None
                eval_usage(ctx, sa, sb, da, db, same, usage, cases, impl, lines)
                ctx.count("usage-corpus")
        import os
        rounds = 0 if os.environ.get("VERIF_CORPUS_ONLY") else ctx.budget(40, 1500)
        for _ in range(rounds):
            env = Env()
            known, unknown = gen_strings(ctx.rng)
            objs = build_pool(ctx, env, gen_specs(ctx.rng, known, unknown))
            n = len(objs)
            pairs = []
            # every pair of objects that carry the same strings or the same string of another class, …
            bykey = {}
            for i, (sp, o, d) in enumerate(objs):
                bykey.setdefault(d[0].split(":")[-1], []).append(i)
            for k, idx in bykey.items():
                for i in idx:
                    for j in idx:
                        pairs.append((i, j))
            # … and a random sample of the rest
            for _ in range(120):
                pairs.append((ctx.rng.randrange(n), ctx.rng.randrange(n)))
            run_pairs(ctx, env, objs, pairs, cases, impl, lines)
            usage_round(ctx, env, objs, 45, cases, impl, lines)
    model = ctx.model(lines)
    ctx.compare("==, !=, __eq__/__ne__ both ways, hash equality, class invariants of one ordered pair of objects",
                cases, impl, model)
    if cases:
        ctx.sample({"case": cases[0], "impl": impl[0]})
        ctx.sample({"case": cases[len(cases) // 2], "impl": impl[len(cases) // 2]})
