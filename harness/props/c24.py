"""C24 — read-test-write is atomic and guarded by the write enabler (storage/server.py)."""
import os
import props._storage_common as sc
from common import hx, unhx

ID = "C24"
LEAN_PROPS = "Tahoe.Props.C24"
DRIVER = "C24"
GENERATED = ["storage"]
SOURCES = ["src/allmydata/storage/server.py", "src/allmydata/storage/mutable.py"]
DESIGN_REF = "DESIGN.md §2 C24, §3 (C24 row)"
TECHNIQUE = ("Lean 4 theorems (10) over the executable model of slot_testv_and_readv_and_writev (collect / test / read / size "
             "pre-check / write / lease phases) built on the byte-exact container model; differential correspondence of a fixed corpus "
             "and random multi-share requests (result, read data, every container file's raw bytes) against a real in-process "
             "StorageServer; implementation-side atomicity monitor comparing raw files before/after every request")
LEVEL_TEXT = ("Proved in Lean for all buckets and requests: bad_enabler_no_effect (enabler checked against EVERY existing share), "
              "failed_test_no_effect, absent_share_tests_count, reads_are_pre_state, unnamed_shares_untouched (whole request), "
              "unnamed_shares_untouched_by_writes; for the server with the size pre-check (the C24 fix, now in /repo; model flag precheck) "
              "all_or_nothing and request_level_decision (all tests on the pre-state, writes applied iff all pass, request and vector "
              "order) from every well-formed bucket. For the tree before the fix the negation witness all_or_nothing_counterexample "
              "is proved by kernel evaluation (counterexample_repaired for the fixed server).")
LEVEL_NOTE = ("Lean kernel + standard axioms; model hand-written, tied by correspondence incl. raw bytes; dict iteration modelled as "
              "association lists. An error of the lease renewal that FOLLOWS the writes (NoSpace, struct.error) leaves ALL writes "
              "applied (stated in all_or_nothing). Not covered: which of two errors is reported for a bucket holding both an unknown "
              "container and a foreign enabler (depends on directory-listing order; bad_enabler_no_effect allows either).")
RULE = ("a fixed corpus (partial write by an oversized vector, mixed enablers, oversized vector with new_length, tests of absent "
        "shares, delete/re-create under another enabler, test-vector length vs specimen) followed by random multi-share "
        "read-test-write requests (1..4 shares, existing and new, buckets holding shares under 2..3 different write enablers "
        "fabricated into the bucket at the start or mid-history, requests using each enabler present and wrong ones, failing tests, "
        "oversized vectors, deletions) in seeded histories on a real StorageServer; a case is one request; distinct = distinct "
        "(history index, op index); non-trivial = the bucket holds at least one share before the request")
TRUSTED = ["lean/Tahoe/Storage/Slot.lean is a hand transcription of storage/server.py slot_testv_and_readv_and_writev and helpers"]
ASSUMPTIONS = ["offsets, lengths, new_length are non-negative ints; the only test operator is b'eq'",
               "timing_safe_compare is equality", "request keys are distinct (a Python dict)"]

WE = hx(b"W" * 32)
WE2 = hx(b"V" * 32)
WE3 = hx(b"U" * 32)


def gen_request(rng, ref, now, far, p_big, present=()):
    """ref: {sharenum: bytes} generator-side estimate of current contents"""
    pool = [0, 1, 2, 3, 5]
    named = rng.sample(pool, rng.randrange(1, 5))
    tw = []
    for n in named:
        cur = ref.get(n, b"")
        testv = []
        for _ in range(rng.choice([0, 0, 1, 2])):
            testv.append(sc.rand_testv(rng, cur, far, 0.08))
        datav, _ = sc.rand_datav(rng, len(cur), far)
        if rng.random() < p_big:
            # always strictly too large (offset+len > MAX): a vector that ends exactly at MAX is legal and
            # makes the real server try to allocate/zero-fill 69 PB
            bd = sc.rand_bytes(rng, rng.randrange(0, 4))
            big = [sc.MAX - len(bd) + 1 + rng.randrange(0, 3), hx(bd)]
            datav.insert(rng.randrange(0, len(datav) + 1), big)
        rr = rng.random()
        nl = None if rr < 0.6 else (0 if rr < 0.7 else rng.randrange(0, len(cur) + 30))
        tw.append([n, testv, datav, nl])
    rv = sc.rand_rv(rng, max([len(v) for v in ref.values()] + [0]), far)
    # the request's write enabler: mostly one of the enablers present on existing shares (each of them in turn,
    # so that on a bucket with shares under DIFFERENT enablers it matches some shares but not all), sometimes the
    # usual one, sometimes one that matches nothing
    rr = rng.random()
    present = sorted(present)
    if present and rr < 0.7:
        we = rng.choice(present)
    elif rr < 0.88:
        we = WE
    elif rr < 0.97:
        we = rng.choice([WE2, WE3])
    else:
        we = hx(b"short")
    s = rng.randrange(3)
    return ["rtw", now, rng.choice([10 ** 12, 10 ** 12, 50, 0]), we, hx(bytes([0x40 + s]) * 32), hx(bytes([0x80 + s]) * 32),
            rng.random() < 0.6, tw, rv]


class Monitor:
    """The C24 statement on the real server: raw files before/after every request."""

    def __init__(self, ctx, hist, hi):
        self.ctx, self.hist, self.hi, self.opi = ctx, hist, hi, -1

    def viol(self, what, sig, detail):
        self.ctx.violation(what, {"history": self.hist, "op_index": self.opi}, sig, detail)

    @staticmethod
    def contents(impl):
        r = impl.ss.slot_readv(impl.si, [], [(0, 10 ** 12)])
        return {n: bytes(v[0]) for n, v in r.items()}

    @staticmethod
    def enablers(raw):
        return {n: v[52:84] for n, v in raw.items()}

    def __call__(self, impl, op, phase, info):
        ctx = self.ctx
        if phase == "before":
            self.opi += 1
            if op[0] == "rtw":
                info["raw"] = impl.raw()
                info["data"] = self.contents(impl)
            return
        if op[0] != "rtw":
            return
        (_, now, avail, we, renew, cancel, rl, tw, rv) = op
        raw0, data0 = info["raw"], info["data"]
        raw1, data1 = impl.raw(), self.contents(impl)
        exc = info.get("exc")
        ctx.count("rtw:" + (type(exc).__name__ if exc else ("applied" if info["result"][0] else "testv-failed")))
        bad_enabler = any(e != unhx(we) for e in self.enablers(raw0).values())
        want_good = all(data0.get(n, b"")[o:o + l] == unhx(s) for (n, tv, _, _) in tw for (o, l, s) in tv)
        # reference result of applying EVERY write vector to EVERY named share
        want = dict(data0)
        oversize = False
        ambiguous = False       # an EMPTY write past the end: the statement does not say whether it extends
        for (n, _, dv, nl) in tw:
            if nl == 0:
                want.pop(n, None)
                continue
            a = bytearray(data0.get(n, b""))
            for (o, d) in dv:
                d = unhx(d)
                if o + len(d) > sc.MAX:
                    oversize = True
                    break
                if o > len(a):
                    ambiguous = ambiguous or len(d) == 0
                    a.extend(b"\x00" * (o - len(a)))
                a[o:o + len(d)] = d
            if nl is not None and nl < len(a):
                del a[nl:]
            want[n] = bytes(a)
        unchanged = raw1 == raw0
        if bad_enabler:
            # "applies none if the write enabler does not match EVERY existing share of that storage index":
            # the request must be refused, nothing on disk may change and no share data may be returned
            ens = self.enablers(raw0)
            some_match = any(e == unhx(we) for e in ens.values())
            cls = "matches-some-not-all" if some_match else "matches-none"
            ctx.count("case:bad-enabler:" + cls)
            if len(set(ens.values())) > 1:
                ctx.count("case:bucket-with-%d-enablers" % len(set(ens.values())))
            if exc is None or type(exc).__name__ != "BadWriteEnablerError":
                leaked = sorted(n for n, ds in (info["result"][1].items() if exc is None else []) if ens.get(n) != unhx(we))
                self.viol("a request whose write enabler does not match every existing share was not refused",
                          "bad-enabler-accepted:" + cls,
                          {"enabler_mismatch_shares": sorted(n for n, e in ens.items() if e != unhx(we)),
                           "data_returned_for_mismatching_shares": leaked, "raised": type(exc).__name__ if exc else None})
            if not unchanged:
                touched = sorted(n for n in set(raw0) | set(raw1) if raw0.get(n) != raw1.get(n))
                self.viol("a request whose write enabler does not match every existing share changed share files",
                          "bad-enabler-changed-files:" + cls, {"files_changed": touched})
        elif exc is None:
            good, reads = info["result"]
            if bool(good) != want_good:
                self.viol("test verdict differs from the data before the request", "testv-verdict", {"got": good})
                if not want_good and not unchanged:
                    # "it applies none if any test fails": a test fails on the pre-state data, yet files changed
                    touched = sorted(n for n in set(raw0) | set(raw1) if raw0.get(n) != raw1.get(n))
                    self.viol("a request with a failing test vector applied writes", "failing-test-applied-writes",
                              {"files_changed": touched})
            # reads reflect the data before the request, for every existing share
            if sorted(reads) != sorted(data0):
                self.viol("read data cover the wrong set of shares", "read-share-set", {"got": sorted(reads), "want": sorted(data0)})
            for n, ds in reads.items():
                for (o, l), d in zip(rv, ds):
                    if bytes(d) != data0.get(n, b"")[o:o + l]:
                        self.viol("read data do not reflect the share before the request", "reads-not-pre-state",
                                  {"share": n, "off": o, "len": l})
            if not good:
                ctx.count("case:failed-test")
                if not unchanged:
                    self.viol("a request whose tests failed changed share files", "failed-test-changed-files", None)
            else:
                ctx.count("case:applied")
                if not oversize and not ambiguous and data1 != want:
                    self.viol("a successful request did not apply all of its writes", "success-not-all-writes",
                              {"shares": sorted(n for n in set(data1) | set(want) if data1.get(n) != want.get(n))})
        else:
            # an exception other than a bad enabler: all or nothing
            name = type(exc).__name__
            ctx.count("case:raised-" + name)
            all_applied = (not oversize) and (data1 == want or ambiguous)
            if not unchanged and not all_applied:
                touched = sorted(n for n in set(raw0) | set(raw1) if raw0.get(n) != raw1.get(n))
                sig = "partial-write-" + name
                self.viol("the request raised %s after applying only some of its writes" % name, sig,
                          {"files_changed": touched, "oversize_vector": oversize})
        ctx.case((self.hi, self.opi) if raw0 else None)


def corpus_partial_write():
    """DESIGN §3 probe: the second share's write at offset MAX_MUTABLE_SHARE_SIZE raises after share 0 was rewritten."""
    s1, s2 = hx(b"\x41" * 32), hx(b"\x81" * 32)
    return {"nodeid": hx(sc.NODEID), "ops": [
        ["rtw", 1, 10 ** 12, WE, s1, s2, True, [[0, [], [[0, hx(b"old!")]], None]], []],
        ["dump"],
        ["rtw", 2, 10 ** 12, WE, s1, s2, True, [[0, [], [[0, hx(b"XXXX")]], None], [1, [], [[sc.MAX, hx(b"y")]], None]], [[0, 10]]],
        ["readv", [], [[0, 10]]], ["dump"],
        # same share: first vector applied, second too large
        ["rtw", 3, 10 ** 12, WE, s1, s2, False, [[0, [], [[0, hx(b"ZZ")], [sc.MAX - 1, hx(b"yy")]], None]], []],
        ["readv", [], [[0, 10]]], ["dump"]]}


def corpus_oversize_with_new_length():
    """an over-limit write vector whose entry also carries a (small / large / zero) new_length: the size pre-check must
    look at the vector itself; two existing shares and a new one"""
    s1, s2 = hx(b"\x41" * 32), hx(b"\x81" * 32)
    ops = [["rtw", 1, 10 ** 12, WE, s1, s2, True, [[0, [], [[0, hx(b"old0")]], None], [1, [], [[0, hx(b"old1")]], None]], []],
           ["dump"]]
    for k, nl in enumerate([5, 1, 10 ** 6, None]):
        ops += [["rtw", 2 + k, 10 ** 12, WE, s1, s2, k % 2 == 0,
                 [[0, [], [[0, hx(b"NEW%d" % k)]], None], [1, [], [[sc.MAX - 1 + k, hx(b"yy")]], nl], [2, [], [[0, hx(b"n")]], None]],
                 [[0, 10]]],
                ["readv", [], [[0, 10]]], ["dump"]]
    # with new_length = 0 the entry's vectors are not applied at all: the request is fine and deletes share 1
    ops += [["rtw", 9, 10 ** 12, WE, s1, s2, False, [[0, [], [[0, hx(b"fine")]], None], [1, [], [[sc.MAX + 5, hx(b"y")]], 0]], []],
            ["readv", [], [[0, 10]]], ["dump"]]
    return {"nodeid": hx(sc.NODEID), "ops": ops}


def corpus_absent_share_tests():
    """entries for shares the server does not hold: their test vectors count (compared with the empty string), also
    when the entry has no write vector; passing (empty specimen) and failing variants"""
    s1, s2 = hx(b"\x41" * 32), hx(b"\x81" * 32)
    return {"nodeid": hx(sc.NODEID), "ops": [
        ["rtw", 1, 10 ** 12, WE, s1, s2, True, [[0, [], [[0, hx(b"base")]], None]], []],
        # absent share 5, failing test, NO write vector: nothing may be applied to share 0
        ["rtw", 2, 10 ** 12, WE, s1, s2, True, [[0, [], [[0, hx(b"XXXX")]], None], [5, [[0, 1, hx(b"z")]], [], None]], [[0, 10]]],
        ["readv", [], [[0, 10]]], ["dump"],
        # absent share 5, failing test, with a write vector
        ["rtw", 3, 10 ** 12, WE, s1, s2, False, [[5, [[0, 3, hx(b"abc")]], [[0, hx(b"q")]], None], [0, [], [[0, hx(b"YYYY")]], None]], [[0, 10]]],
        ["readv", [], [[0, 10]]],
        # absent share 6, passing test (empty specimen), no write vector: applied; an empty container appears for 6
        ["rtw", 4, 10 ** 12, WE, s1, s2, True, [[0, [], [[0, hx(b"ZZZZ")]], None], [6, [[0, 4, "-"]], [], None]], [[0, 10]]],
        ["readv", [], [[0, 10]]], ["leases"], ["dump"]]}


def corpus_recreate_under_other_enabler():
    """a share is created under enabler A, written, deleted (new_length = 0), and re-created at the same path under
    enabler B: a request that still presents A must be refused (the enabler is always checked against the header on
    disk), B must work; same again for a second share number"""
    s1, s2 = hx(b"\x41" * 32), hx(b"\x81" * 32)
    ops = []
    for n in (0, 3):
        t = 10 * n          # the clock only moves forwards
        ops += [
            ["rtw", t + 1, 10 ** 12, WE, s1, s2, True, [[n, [], [[0, hx(b"under-A")]], None]], []],
            ["rtw", t + 2, 10 ** 12, WE, s1, s2, False, [[n, [], [[7, hx(b"!")]], None]], [[0, 20]]],      # A verified once more
            ["rtw", t + 3, 10 ** 12, WE, s1, s2, False, [[n, [], [], 0]], []],                              # delete
            ["dump"],
            ["rtw", t + 4, 10 ** 12, WE2, s1, s2, True, [[n, [], [[0, hx(b"under-B")]], None]], []],       # re-create under B
            ["rtw", t + 5, 10 ** 12, WE, s1, s2, False, [[n, [], [[0, hx(b"STALE-A")]], None]], [[0, 20]]],  # stale A: refuse
            ["rtw", t + 6, 10 ** 12, WE, s1, s2, False, [[n, [], [], 0]], [[0, 20]]],                       # stale A delete: refuse
            ["readv", [], [[0, 20]]],
            ["rtw", t + 7, 10 ** 12, WE2, s1, s2, False, [[n, [], [[0, hx(b"B-again")]], None]], [[0, 20]]],
            ["readv", [], [[0, 20]]], ["dump"],
            ["rtw", t + 8, 10 ** 12, WE2, s1, s2, False, [[n, [], [], 0]], []]]                             # clean up under B
    return {"nodeid": hx(sc.NODEID), "ops": ops}


def corpus_testv_length_vs_specimen():
    """multi-share requests in which ONE test vector has a length exceeding its specimen (the specimen — possibly empty — is
    only a prefix of the existing longer data): that test must fail, so NONE of the request's writes, to any share,
    existing or new, may be applied; the publisher's must-not-exist guard `(0, 1, eq, b'')` on an existing share"""
    s1, s2 = hx(b"\x41" * 32), hx(b"\x81" * 32)
    return {"nodeid": hx(sc.NODEID), "ops": [
        ["rtw", 1, 10 ** 12, WE, s1, s2, True, [[0, [], [[0, hx(b"share-zero-data")]], None], [1, [], [[0, hx(b"share-one-data")]], None]], []],
        ["dump"],
        # guard on existing share 1 must fail -> shares 0, 1 and new share 2 untouched
        ["rtw", 2, 10 ** 12, WE, s1, s2, True,
         [[0, [], [[0, hx(b"XXXX")]], None], [1, [[0, 1, "-"]], [[0, hx(b"YYYY")]], None], [2, [[0, 1, "-"]], [[0, hx(b"new")]], None]], [[0, 20]]],
        ["readv", [], [[0, 20]]], ["dump"],
        # prefix specimen on share 0, passing tests elsewhere, a deletion and a truncation in the same request
        ["rtw", 3, 10 ** 12, WE, s1, s2, False,
         [[1, [[0, 9, hx(b"share-one")]], [], 0], [0, [[0, 12, hx(b"share-zero")]], [[0, hx(b"ZZ")]], 3], [4, [], [[0, hx(b"n")]], None]], [[0, 20]]],
        ["readv", [], [[0, 20]]], ["dump"],
        # the same requests with exact lengths pass and are applied to every share
        ["rtw", 4, 10 ** 12, WE, s1, s2, False,
         [[1, [[0, 9, hx(b"share-one")]], [], 0], [0, [[0, 10, hx(b"share-zero")]], [[0, hx(b"ZZ")]], 3], [4, [[0, 1, "-"]], [[0, hx(b"n")]], None]], [[0, 20]]],
        ["readv", [], [[0, 20]]], ["leases"], ["dump"]]}


def corpus_mixed_enablers():
    """two shares recorded under different write enablers; requests with each of them (so that, whatever the
    directory listing order, one request matches the first-listed share only), then with a third one"""
    s1, s2 = hx(b"\x41" * 32), hx(b"\x81" * 32)
    ref, enab = {}, {}
    import random
    rng = random.Random(24)
    ops = [fab_put(rng, 0, WE, ref, enab), fab_put(rng, 3, WE2, ref, enab), ["dump"]]
    for i, we in enumerate([WE, WE2, WE3, WE2, WE]):
        tw = [[[0, [], [[0, hx(b"AAAA")]], 2]], [[3, [], [[1, hx(b"BB")]], None], [1, [], [[0, hx(b"new")]], None]],
              [[0, [], [], 0], [3, [], [], 0]], [[5, [], [[0, hx(b"n")]], None]], [[3, [], [], 0]]][i]
        ops += [["rtw", 10 + i, 10 ** 12, we, s1, s2, i % 2 == 0, tw, [[0, 50]]], ["dump"]]
    ops += [["readv", [], [[0, 100]]], ["leases"]]
    return {"nodeid": hx(sc.NODEID), "ops": ops}


def run(ctx):
    impl = sc.Impl()
    try:
        hists = []
        if ctx.replay:
            hists = [ctx.replay["case"]["history"]]
        else:
            hists += [corpus_partial_write(), corpus_mixed_enablers(), corpus_oversize_with_new_length(),
                      corpus_absent_share_tests(), corpus_recreate_under_other_enabler(),
                      corpus_testv_length_vs_specimen()]
            n = 0 if os.environ.get("VERIF_CORPUS_ONLY") else ctx.budget(100, 5000)
            for i in range(n):
                hists.append(gen_full_history(ctx.rng, ctx.rng.choice([3, 8, 20]), ctx.rng.choice([2000, 2000, 30000]),
                                              ctx.rng.choice([0.0, 0.0, 0.03, 0.15])))
        impl_outs, lines = [], []
        for hi, h in enumerate(hists):
            ctx.count("mode:" + h.get("mode", "corpus"))
            out, line = sc.run_history(impl, h, Monitor(ctx, h, hi))
            impl_outs.append(out)
            lines.append(line)
        model = ctx.model(lines)
        ctx.compare("read-test-write history (verdicts, read data, raw container bytes after every request)",
                    [{"history": h} for h in hists], impl_outs, model)
        ctx.sample({"ops": hists[-1]["ops"][:2], "impl": impl_outs[-1][:300]})
    finally:
        impl.close()


def fab_put(rng, n, e, ref, enab):
    """a container file fabricated under write enabler `e` (a share file migrated / copied into the bucket)"""
    data = sc.rand_bytes(rng, rng.randrange(0, 40))
    body = sc.fabricate_mutable(rng.choice([1, 2]), sc.NODEID, unhx(e), data,
                                [(1, 5000 + i, bytes([0x61 + i]) * 32, bytes([0x71 + i]) * 32) for i in range(rng.randrange(0, 8))],
                                extra_gap=rng.choice([0, 0, 17]))
    ref[n] = data
    enab[n] = e
    return ["put", n, sc.rle(body)]


def gen_full_history(rng, nops, far, p_big):
    """Requests are generated against a byte-array estimate of the contents kept by the generator.
    About half of the histories hold, at some point, shares recorded under 2..3 DIFFERENT write enablers
    (fabricated files put into the bucket directory at the start or in the middle of the history)."""
    ops = []
    ref = {}
    enab = {}
    now = rng.randrange(1000)
    mode = rng.choice(["plain", "plain", "single", "mixed-start", "mixed-start", "mixed-mid", "mixed-mid"])
    if mode == "single":
        ops.append(fab_put(rng, rng.choice([0, 1, 4]), rng.choice([WE, WE, WE2]), ref, enab))
    elif mode == "mixed-start":
        nums = rng.sample([0, 1, 2, 3, 4, 5], rng.choice([2, 2, 3]))
        es = [WE, WE2, WE3]
        rng.shuffle(es)
        for k, n in enumerate(nums):
            e = es[k] if k < 2 else rng.choice(es)          # at least two different enablers
            ops.append(fab_put(rng, n, e, ref, enab))
    mid = rng.randrange(1, max(2, nops)) if mode == "mixed-mid" else None
    heal = rng.random() < 0.4
    for k in range(nops):
        now += rng.choice([0, 1, 100])
        if mid is not None and k == mid:
            # a share file under another enabler appears (new share number or replacing an existing share)
            others = [e for e in (WE, WE2, WE3) if e not in set(enab.values())] or [WE2]
            n = rng.choice(sorted(ref) + [4, 5]) if ref and rng.random() < 0.4 else rng.choice([4, 5, 2])
            ops.append(fab_put(rng, n, rng.choice(others), ref, enab))
            ops.append(["dump"])
        if heal and len(set(enab.values())) > 1 and rng.random() < 0.15:
            # the foreign shares are rewritten under one enabler: the bucket is uniform again
            e = rng.choice(sorted(set(enab.values())))
            for n in sorted(enab):
                if enab[n] != e:
                    ops.append(fab_put(rng, n, e, ref, enab))
        op = gen_request(rng, ref, now, far, p_big, present=set(enab.values()))
        ops.append(op)
        (_, _, _, we, _, _, _, tw, _) = op
        ok = all(e == we for e in enab.values()) and \
            all(bytes(ref.get(n, b"")[o:o + l]) == unhx(s) for (n, tv, _, _) in tw for (o, l, s) in tv) and \
            not any(o + len(unhx(d)) > sc.MAX for (_, _, dv, nl) in tw if nl != 0 for (o, d) in dv)
        if ok:
            for (n, _, dv, nl) in tw:
                if nl == 0:
                    ref.pop(n, None); enab.pop(n, None)
                    continue
                a = bytearray(ref.get(n, b""))
                for (o, d) in dv:
                    d = unhx(d)
                    if o > len(a):
                        a.extend(b"\x00" * (o - len(a)))
                    a[o:o + len(d)] = d
                if nl is not None and nl < len(a):
                    del a[nl:]
                ref[n] = bytes(a)
                enab.setdefault(n, hx((unhx(we) + b"\x00" * 32)[:32]))
        if rng.random() < 0.5:
            ops.append(["dump"])
        if rng.random() < 0.2:
            ops.append(["leases"])
    ops += [["readv", [], [[0, 10 ** 9]]], ["leases"], ["dump"]]
    return {"nodeid": hx(sc.NODEID), "ops": ops, "mode": mode}
