"""C37 — byte-range bookkeeping is exact (util/spans.py: Spans, DataSpans)."""
ID = "C37"
LEAN_PROPS = "Tahoe.Props.C37"
DRIVER = "C37"
GENERATED = []
SOURCES = ["src/allmydata/util/spans.py"]
DESIGN_REF = "DESIGN.md §2 C37"
TECHNIQUE = ("43 Lean 4 theorems over executable models of Spans, DataSpans and a register file of several named objects "
             "(transcribed from util/spans.py): invariant preservation (wf_add, wf_remove, wf_inter, dinv_add, dinv_remove), "
             "refinement to a set of integers / a partial map offset->byte with later writes winning (mem_add, mem_remove, "
             "mem_inter, byteAt_add, byteAt_remove, get_isSome_iff, get_some_bytes, get_eq_specRead, pop_spec), maximal merging "
             "and canonical form (dinv_no_adjacent, chunk_is_maximal_run, spans_canonical, dspans_canonical), histories of any "
             "length on final states and on every answer (spans_history, dspans_history, spans_trace, dspans_trace, "
             "get_after_history), Spans.remove as written equals the span-by-span model (remove_as_written_eq), enumerations / "
             "bool / empty ranges (each_enumerates_members, dump_enumerates_offsets, bool_iff_nonempty, get_pop_zero_length), "
             "value semantics of results (rstep_frame_r, rstep_frame_d, operators_eq, spCopy_eq_self, dCopy_byteAt); "
             "differential correspondence of op histories (exact internal span/chunk lists after every operation, every query "
             "result, the answers-only trace, all named values after every step) against util/spans.py; implementation-side "
             "monitor against Python set / dict references; a fixed corpus (one minimal history per seeded change C37-a..e and "
             "per repaired defect) runs first, VERIF_CORPUS_ONLY=1 runs only it")
LEVEL_TEXT = ("Proved in Lean for all span lists, chunk lists and operation histories (no size bound): Spans is a set of integers "
              "under add/remove/&/+/-, DataSpans is a partial map offset->byte (later writes win) under add/remove/get/pop, both "
              "representations stay maximally merged and canonical, every contains/get/pop answer along any history equals the "
              "reference machine's, and results of value-returning operators are values of their own. The models are tied to "
              "util/spans.py by comparing the exact internal lists (_spans, spans) after every operation of seeded histories, "
              "every query result (contains, len, each, bool, get, pop, _dump, get_spans), the answers-only traces and every "
              "named value of multi-object histories.")
LEVEL_NOTE = ("Lean kernel + propext/Classical.choice/Quot.sound only; no _partial theorems; models hand-written and tied by "
              "correspondence; Python ints modelled as Nat (Spans asserts start >= 0 and length > 0; DataSpans offsets are share "
              "offsets); object identity (a result aliasing an operand) is checked on the real objects by the named-value "
              "histories, not expressible in the pure model.")
RULE = ("fixed corpus first (Spans, DataSpans and named-value histories: branch shapes, seeded changes C37-a..e, the repaired "
        "`a -= a` defect), then seeded histories of Spans add/remove/contains/len/each/bool/&/+/-/+=/-= and DataSpans "
        "add/remove/get/pop/len/_dump/bool/get_spans over offsets 0..300 (longer/wider in thorough; some shifted to 2^32 / 2^64) "
        "against allmydata.util.spans, plus histories over named values (4 Spans and 2 DataSpans objects kept alive; results of "
        "&, -, +, Spans(other), Spans(list), Spans(s,l), get_spans(), DataSpans(other) stored under their own name, degenerate "
        "and self operands included, += / -= also with the object itself, then mutated in place; every named value compared "
        "after every step); a case is one operation; distinct = distinct (kind, state-before, op) triples; non-trivial = the "
        "state before the op is non-empty")
TRUSTED = ["lean/Tahoe/Spans/Model.lean, DataModel.lean and RegModel.lean are hand transcriptions of util/spans.py, compared on the "
           "internal lists after every operation. Remaining deviations from a literal transcription: Spans.add's insert(0)+sort and "
           "Spans.remove's append+sort are ordered insertions (for remove: into the not yet scanned suffix); Spans.add takes the max "
           "of the absorbed ends where the code takes the last one (equal on sorted lists); index loops are structural recursions "
           "over the list suffix; DataSpans.add case A followed by the re-iteration at the same chunk is inlined. Spans.remove's "
           "in-place pass with deferred slice delete is modelled as written (removeLit) and proved equal to the span-by-span remove "
           "(remove_as_written_eq).",
           "dump() strings, get_chunks() returning a fresh list and aliasing between real objects have no model definition: monitor / "
           "named-value correspondence only"]
ASSUMPTIONS = ["offsets and lengths are non-negative ints (asserted by Spans.add/remove; DataSpans is only called with share offsets); "
               "negative values are not covered",
               "DataSpans.get/pop with length 0 is outside the statement (a partial map has no preferred answer); what the code does "
               "there is characterised by theorem get_pop_zero_length and compared with the model, the monitor demands nothing",
               "`a += a` / `a -= a` iterate over a snapshot of the operand (repaired in /repo 13d6c66; fixes/C37-isub-self-operand.diff); "
               "modelled as the fold over the old value and compared on named-value histories"]

from common import hx


# ----------------------------------------------------------------------------- Spans

def show(spans):
    return ",".join("%d+%d" % (s, l) for (s, l) in spans) or "-"


def gen_pairs(rng, maxoff, base=0):
    k = rng.randrange(0, 4)
    return [(base + rng.randrange(maxoff), rng.randrange(1, 60)) for _ in range(k)]


def gen_history(rng, n, maxoff, base=0):
    """`base` shifts every offset (share offsets are arbitrary Python ints, e.g. beyond 2**64)."""
    ops = []
    for _ in range(n):
        r = rng.random()
        a = base + rng.randrange(maxoff)
        l = rng.choice([1, 1, 2, 3, 5, 8, 13, 40]) if rng.random() < 0.8 else rng.randrange(1, maxoff)
        if r < 0.30:
            ops.append(("a", a, l))
        elif r < 0.52:
            ops.append(("r", a, l))
        elif r < 0.70:
            ops.append(("c", a, l))
        elif r < 0.75:
            ops.append(("l",))
        elif r < 0.765:
            ops.append(("e",))
        elif r < 0.78:
            ops.append(("b",))
        elif r < 0.88:
            ops.append(("i", gen_pairs(rng, maxoff, base), rng.randrange(4)))
        elif r < 0.94:
            ops.append(("u", gen_pairs(rng, maxoff, base), rng.randrange(4), rng.choice(["+", "+="])))
        else:
            ops.append(("m", gen_pairs(rng, maxoff, base), rng.randrange(4), rng.choice(["-", "-="])))
    return ops


def build_other(pairs, form):
    """Build the `other` operand through one of the constructor forms of Spans."""
    from allmydata.util.spans import Spans
    if form == 0 or not pairs:
        o = Spans()
        for (a, l) in pairs:
            o.add(a, l)
    elif form == 1:
        o = Spans(list(pairs))                       # list of (start, length) pairs
    elif form == 2:
        o = Spans(pairs[0][0], pairs[0][1])          # Spans(start, length)
        for (a, l) in pairs[1:]:
            o.add(a, l)
    else:
        o = Spans(Spans(list(pairs)))                # copy constructor
    return o


def set_of(pairs):
    r = set()
    for (a, l) in pairs:
        r |= set(range(a, a + l))
    return r


def run_impl(ctx, ops):
    """Execute on the real Spans; also evaluate the property (set-of-integers reference)."""
    from allmydata.util.spans import Spans
    s = Spans()
    ref = set()
    outs = []
    case = {"kind": "spans", "ops": ops}
    for op in ops:
        before = show(s._spans)
        k = op[0]
        if k == "a":
            r = s.add(op[1], op[2]); ref |= set(range(op[1], op[1] + op[2])); outs.append(show(s._spans))
            if r is not s:
                ctx.violation("Spans.add does not return self", case, "spans-add-return")
        elif k == "r":
            s.remove(op[1], op[2]); ref -= set(range(op[1], op[1] + op[2])); outs.append(show(s._spans))
        elif k == "c":
            got = (op[1], op[2]) in s
            want = all(x in ref for x in range(op[1], op[1] + op[2]))
            if got != want:
                ctx.violation("Spans.__contains__ differs from the set of integers", case, "spans-contains")
            outs.append("T" if got else "F")
        elif k == "l":
            outs.append(str(s.len()))
            if s.len() != len(ref):
                ctx.violation("Spans.len differs from the set of integers", case, "spans-len")
            if bool(s) != bool(ref):
                ctx.violation("bool(Spans) differs from non-emptiness of the set", case, "spans-bool")
        elif k == "e":
            got = list(s.each())
            if sorted(got) != sorted(ref):
                ctx.violation("Spans.each() does not enumerate exactly the members, once each", case, "spans-each")
            outs.append(",".join(str(x) for x in got) or "-")
        elif k == "b":
            if bool(s) != bool(ref):
                ctx.violation("bool(Spans) differs from non-emptiness of the set", case, "spans-bool")
            outs.append("T" if s else "F")
        elif k in "ium":
            o = build_other(op[1], op[2])
            oref = set_of(op[1])
            if set(o.each()) != oref:
                ctx.violation("Spans constructor form %d differs from the set of integers" % op[2], case, "spans-constructor")
            o_before = list(o._spans)
            s_before = list(s._spans)
            if k == "i":
                res = s & o
                ref = ref & oref
                inplace = False
            elif k == "u":
                if op[3] == "+":
                    res = s + o; inplace = False
                else:
                    res = s; res += o; inplace = True
                ref = ref | oref
            else:
                if op[3] == "-":
                    res = s - o; inplace = False
                else:
                    res = s; res -= o; inplace = True
                ref = ref - oref
            if list(o._spans) != o_before:
                ctx.violation("binary Spans operator mutated its right operand", case, "spans-operand-mutated")
            if not inplace and list(s._spans) != s_before:
                ctx.violation("non-in-place Spans operator mutated its left operand", case, "spans-operand-mutated")
            if inplace and res is not s:
                ctx.violation("in-place Spans operator returned a new object", case, "spans-inplace-identity")
            s = res
            outs.append(show(s._spans))
        if set(s.each()) != ref:
            ctx.violation("Spans content differs from the set-of-integers reference", case, "spans-content-" + k)
        if list(s) != list(s._spans):
            ctx.violation("iter(Spans) differs from its span list", case, "spans-iter")
        ctx.case(("S", before, repr(op)) if before != "-" else None)
        ctx.count("spans-op:" + k)
    return ";".join(outs)


def normalise(pairs):
    from allmydata.util.spans import Spans
    o = Spans()
    for (a, l) in pairs:
        o.add(a, l)
    return list(o._spans)


def line_of(ops):
    toks = []
    for op in ops:
        if op[0] in "arc":
            toks.append("%s:%d:%d" % tuple(op[:3]))
        elif op[0] in "leb":
            toks.append(op[0])
        else:
            # the driver receives `other` already normalised (what iterating a Spans object yields)
            toks.append(op[0] + ":" + (",".join("%d+%d" % x for x in normalise(op[1])) or "-"))
    return "spans " + " ".join(toks)


# ----------------------------------------------------------------------------- DataSpans

def show_chunks(chunks):
    return ",".join("%d=%s" % (s, hx(d)) for (s, d) in chunks) or "-"


def show_opt(d):
    return "N" if d is None else hx(d)


def gen_dhistory(rng, n, maxoff, base=0):
    ops = []
    for _ in range(n):
        r = rng.random()
        a = base + rng.randrange(maxoff)
        l = rng.choice([1, 1, 2, 3, 5, 8, 13, 40]) if rng.random() < 0.8 else rng.randrange(1, maxoff)
        if r < 0.36:
            if rng.random() < 0.03:
                l = 0
            ops.append(("a", a, bytes(rng.randrange(256) for _ in range(l)).hex()))
        elif r < 0.54:
            ops.append(("r", a, l))
        elif r < 0.72:
            ops.append(("g", a, 0 if rng.random() < 0.04 else l))
        elif r < 0.86:
            ops.append(("p", a, 0 if rng.random() < 0.04 else l))
        elif r < 0.91:
            ops.append(("l",))
        elif r < 0.925:
            ops.append(("e",))
        elif r < 0.94:
            ops.append(("b",))
        else:
            ops.append(("s",))
    return ops


def chunks_dict(chunks):
    d = {}
    n = 0
    for (start, data) in chunks:
        for i, b in enumerate(data):
            d[start + i] = b
            n += 1
    return d, n


def add_branches(chunks, start, n):
    """Which of the code's cases (A-E, append, skip) an add of n bytes at `start` goes through (coverage only)."""
    e = start + n
    i = 0
    labels = set()
    while n > 0:
        if i >= len(chunks):
            labels.add("append"); break
        ss, sl = chunks[i][0], len(chunks[i][1])
        if start < ss:
            labels.add("A"); k = ss - start; start = ss; n = max(0, n - k); continue
        se = ss + sl
        if ss <= start < se:
            if ss == start:
                if se <= e:
                    labels.add("C2" if n > sl else "C1"); i += 1; start += sl; n -= sl; continue
                labels.add("B"); break
            if e < se:
                labels.add("E"); break
            labels.add("D2" if e > se else "D1"); k = se - start; i += 1; start += k; n -= k; continue
        labels.add("skip"); i += 1
    return labels


def remove_branches(chunks, start, n):
    labels = set()
    e = start + n
    for (ss, sd) in chunks:
        se = ss + len(sd)
        if ss >= e:
            labels.add("break"); break
        lo, hi = max(start, ss), min(e, se)
        if lo >= hi:
            labels.add("no-overlap")
        elif hi - lo == len(sd):
            labels.add("whole")
        elif lo == ss:
            labels.add("prefix")
        elif hi == se:
            labels.add("suffix")
        else:
            labels.add("middle")
    return labels


def run_dimpl(ctx, ops):
    """Execute on the real DataSpans; evaluate the property against a dict offset -> byte."""
    from allmydata.util.spans import DataSpans
    ds = DataSpans()
    ref = {}
    outs = []
    case = {"kind": "dspans", "ops": ops}

    def want_get(a, l):
        if all((a + i) in ref for i in range(l)):
            return bytes(ref[a + i] for i in range(l))
        return None

    for op in ops:
        before = show_chunks(ds.spans)
        k = op[0]
        if k == "a":
            data = bytes.fromhex(op[2])
            for lab in add_branches(ds.spans, op[1], len(data)) or {"empty-data"}:
                ctx.count("dspans-add-branch:" + lab)
            ds.add(op[1], data)
            for i, b in enumerate(data):
                ref[op[1] + i] = b
            outs.append(show_chunks(ds.spans))
        elif k == "r":
            for lab in remove_branches(ds.spans, op[1], op[2]):
                ctx.count("dspans-remove-branch:" + lab)
            ds.remove(op[1], op[2])
            for x in range(op[1], op[1] + op[2]):
                ref.pop(x, None)
            outs.append(show_chunks(ds.spans))
        elif k == "g":
            got = ds.get(op[1], op[2])
            if op[2] > 0 and got != want_get(op[1], op[2]):
                ctx.violation("DataSpans.get differs from the offset->byte map", case,
                              "dspans-get-" + ("spurious" if want_get(op[1], op[2]) is None else "missing" if got is None else "wrong-bytes"))
            outs.append(show_opt(got))
        elif k == "p":
            got = ds.pop(op[1], op[2])
            if op[2] > 0:
                want = want_get(op[1], op[2])
                if got != want:
                    ctx.violation("DataSpans.pop result differs from the offset->byte map", case,
                                  "dspans-pop-" + ("spurious" if want is None else "missing" if got is None else "wrong-bytes"))
                if want is not None:
                    for x in range(op[1], op[1] + op[2]):
                        ref.pop(x, None)
            outs.append(show_opt(got) + "/" + show_chunks(ds.spans))
        elif k == "l":
            n = ds.len()
            if n != len(ref):
                ctx.violation("DataSpans.len differs from the number of mapped offsets", case, "dspans-len")
            if bool(ds) != bool(ref):
                ctx.violation("bool(DataSpans) differs from non-emptiness of the map", case, "dspans-bool")
            outs.append(str(n))
        elif k == "e":
            got = list(ds._dump())
            if sorted(got) != sorted(ref):
                ctx.violation("DataSpans._dump does not enumerate exactly the held offsets, once each", case, "dspans-dump")
            outs.append(",".join(str(x) for x in got) or "-")
        elif k == "b":
            if bool(ds) != bool(ref):
                ctx.violation("bool(DataSpans) differs from non-emptiness of the map", case, "dspans-bool")
            outs.append("T" if ds else "F")
        elif k == "s":
            sp = ds.get_spans()
            if set(sp.each()) != set(ref):
                ctx.violation("DataSpans.get_spans differs from the domain of the map", case, "dspans-get-spans")
            if list(ds._dump()) != sorted(ref):
                ctx.violation("DataSpans._dump differs from the sorted domain of the map", case, "dspans-dump")
            cp = DataSpans(ds)
            if chunks_dict(cp.get_chunks())[0] != ref:
                ctx.violation("DataSpans(other) copy differs from the map", case, "dspans-copy")
            outs.append(show(sp._spans))
        got_map, nbytes = chunks_dict(ds.get_chunks())
        if got_map != ref or nbytes != len(ref):
            ctx.violation("DataSpans content differs from the offset->byte reference (later writes win)", case,
                          "dspans-content-" + k)
        ctx.case(("D", before, repr(op)) if before != "-" else None)
        ctx.count("dspans-op:" + k)
    return ";".join(outs)


def trace_pair(kind, ops, impl_out):
    """The answers-only view of a history: (driver line for strace/dtrace, the implementation's answers)."""
    if impl_out.startswith("EXC:"):
        return None
    keep = "ariumc" if kind == "spans" else "argp"
    fields = impl_out.split(";") if ops else []
    toks, answers = [], []
    full = (line_of(ops) if kind == "spans" else dline_of(ops)).split(" ")[1:]
    for op, tok, out in zip(ops, full, fields):
        if op[0] not in keep:
            continue
        toks.append(tok)
        if op[0] in "cg":
            answers.append(out)
        elif op[0] == "p":
            answers.append(out.split("/")[0])
    return ("strace " if kind == "spans" else "dtrace ") + " ".join(toks), ";".join(answers) or "none"


def dline_of(ops):
    toks = []
    for op in ops:
        if op[0] == "a":
            toks.append("a:%d:%s" % (op[1], op[2] or "-"))
        elif op[0] in "rgp":
            toks.append("%s:%d:%d" % tuple(op[:3]))
        else:
            toks.append(op[0])
    return "dspans " + " ".join(toks)


# ----------------------------------------------------------------------------- named values (register file)
# Several Spans (r0..r3) and DataSpans (d0..d1) objects stay alive; every value-returning operation stores its
# result under a name, in-place operations act on one name, and ALL names are compared with the reference
# (and with the model) after every step.  A set of integers / a partial map has value semantics: mutating one
# named value must never change another.

NR, ND = 4, 2
VALUE_OPS = ("and", "sub", "or", "copy", "set", "one", "gs")


def gen_reg_prelude(rng, maxoff, base):
    """Degenerate operand shapes, each followed by an in-place mutation of the result and of an operand."""
    a = gen_pairs(rng, maxoff, base) or [(base + 3, 4)]
    lo = min(x for x, _ in a)
    hi = max(x + l for x, l in a)
    mut = lambda k: (rng.choice(["add", "rm"]), k, base + rng.randrange(maxoff), rng.randrange(1, 9))
    kind = rng.randrange(8)
    ops = [("set", 0, a)]
    if kind == 0:      # empty right operand
        ops += [("sub", 2, 0, 1), mut(2), mut(0), ("or", 3, 0, 1), mut(3), mut(0)]
    elif kind == 1:    # right operand is a superset of the left one
        ops += [("one", 1, lo, hi - lo + 5), ("and", 2, 0, 1), mut(2), mut(0), mut(1)]
    elif kind == 2:    # identical operands (equal values, distinct objects)
        ops += [("copy", 1, 0), ("and", 2, 0, 1), mut(2), ("sub", 3, 0, 1), mut(3), ("or", 3, 0, 1), mut(3), mut(1)]
    elif kind == 3:    # self operand
        ops += [("and", 1, 0, 0), mut(1), ("sub", 2, 0, 0), mut(2), ("or", 3, 0, 0), mut(3), mut(0)]
    elif kind == 4:    # empty left operand
        ops += [("and", 2, 1, 0), mut(2), ("sub", 3, 1, 0), mut(3), ("or", 2, 1, 0), mut(2), mut(0)]
    elif kind == 5:    # disjoint right operand (nothing to take away, but not empty)
        ops += [("one", 1, hi + 7, 3), ("sub", 2, 0, 1), mut(2), mut(0), ("and", 3, 0, 1), mut(3)]
    elif kind == 6:    # copies and get_spans / DataSpans(other)
        ops += [("copy", 1, 0), mut(1), mut(0), ("dadd", 0, lo, "0102030405"), ("gs", 2, 0), mut(2), ("dcopy", 1, 0),
                ("dadd", 1, lo + 1, "ff"), ("drm", 0, lo, 2), ("gs", 3, 1), ("dcopy", 0, 0), ("dadd", 0, lo + 9, "aa")]
    else:              # in-place operators next to value-returning ones
        ops += [("set", 1, gen_pairs(rng, maxoff, base)), ("sub", 2, 0, 1), ("isub", 2, 1), ("iadd", 2, 0), mut(2),
                ("or", 3, 2, 1), ("iadd", 3, 1), mut(3), mut(1)]
    return ops


def gen_reg_history(rng, n, maxoff, base=0):
    ops = gen_reg_prelude(rng, maxoff, base) if rng.random() < 0.7 else []
    while len(ops) < n:
        r = rng.random()
        a = base + rng.randrange(maxoff)
        l = rng.choice([1, 1, 2, 3, 5, 8, 13, 40])
        k, i, j = rng.randrange(NR), rng.randrange(NR), rng.randrange(NR)
        if rng.random() < 0.8 and k in (i, j):      # mostly store the result under a name of its own
            k = rng.choice([x for x in range(NR) if x not in (i, j)])
        d, e = rng.randrange(ND), rng.randrange(ND)
        if r < 0.16:
            ops.append(("add", k, a, l))
        elif r < 0.28:
            ops.append(("rm", k, a, l))
        elif r < 0.52:
            op = rng.choice(["and", "sub", "or"])
            ops.append((op, k, i, j))
            if rng.random() < 0.6:                  # mutate the result or an operand right away
                ops.append((rng.choice(["add", "rm"]), rng.choice([k, k, i, j]), base + rng.randrange(maxoff), l))
        elif r < 0.58:
            # i == j (`a += a`, `a -= a`) included: the operators iterate over a snapshot since /repo 13d6c66
            ops.append((rng.choice(["iadd", "isub"]), i, j))
        elif r < 0.64:
            ops.append(("copy", k, i))
        elif r < 0.68:
            ops.append(("set", k, gen_pairs(rng, maxoff, base)))
        elif r < 0.70:
            ops.append(("one", k, a, l))
        elif r < 0.78:
            ops.append(("dadd", d, a, bytes(rng.randrange(256) for _ in range(l)).hex()))
        elif r < 0.82:
            ops.append(("drm", d, a, l))
        elif r < 0.85:
            ops.append(("dpop", d, a, l))
        elif r < 0.88:
            ops.append(("dcopy", d, e))
        elif r < 0.92:
            ops.append(("gs", k, d))
        elif r < 0.95:
            ops.append(("c", i, a, l))
        elif r < 0.97:
            ops.append(("len", i))
        elif r < 0.99:
            ops.append(("dget", d, a, l))
        else:
            ops.append(("dlen", d))
    return ops


def run_regimpl(ctx, ops):
    from allmydata.util.spans import Spans, DataSpans
    regs = [Spans() for _ in range(NR)]
    refs = [set() for _ in range(NR)]
    dregs = [DataSpans() for _ in range(ND)]
    drefs = [dict() for _ in range(ND)]
    born = {("r", k): (-1, "init") for k in range(NR)}
    born.update({("d", k): (-1, "init") for k in range(ND)})
    case = {"kind": "reg", "ops": ops}
    outs = []

    def rng_set(a, l):
        return set(range(a, a + l))

    for step, op in enumerate(ops):
        k = op[0]
        res = None
        before = "/".join([show(r._spans) for r in regs] + [show_chunks(d.spans) for d in dregs])
        if k == "add":
            regs[op[1]].add(op[2], op[3]); refs[op[1]] = refs[op[1]] | rng_set(op[2], op[3])
        elif k == "rm":
            regs[op[1]].remove(op[2], op[3]); refs[op[1]] = refs[op[1]] - rng_set(op[2], op[3])
        elif k in ("and", "sub", "or"):
            x, y = regs[op[2]], regs[op[3]]
            v = (x & y) if k == "and" else (x - y) if k == "sub" else (x + y)
            w = (refs[op[2]] & refs[op[3]]) if k == "and" else (refs[op[2]] - refs[op[3]]) if k == "sub" else (refs[op[2]] | refs[op[3]])
            regs[op[1]] = v; refs[op[1]] = w; born[("r", op[1])] = (step, k)
        elif k in ("iadd", "isub"):
            x = regs[op[1]]
            y = x
            if k == "iadd":
                y += regs[op[2]]; refs[op[1]] = refs[op[1]] | refs[op[2]]
            else:
                y -= regs[op[2]]; refs[op[1]] = refs[op[1]] - refs[op[2]]
            if y is not x:
                ctx.violation("in-place Spans operator returned a new object", case, "spans-inplace-identity")
            regs[op[1]] = y
        elif k == "copy":
            regs[op[1]] = Spans(regs[op[2]]); refs[op[1]] = set(refs[op[2]]); born[("r", op[1])] = (step, k)
        elif k == "set":
            regs[op[1]] = Spans([tuple(p) for p in op[2]]); refs[op[1]] = set_of(op[2]); born[("r", op[1])] = (step, k)
        elif k == "one":
            regs[op[1]] = Spans(op[2], op[3]); refs[op[1]] = rng_set(op[2], op[3]); born[("r", op[1])] = (step, k)
        elif k == "dadd":
            data = bytes.fromhex(op[3])
            dregs[op[1]].add(op[2], data)
            drefs[op[1]] = dict(drefs[op[1]])
            for n, b in enumerate(data):
                drefs[op[1]][op[2] + n] = b
        elif k == "drm":
            dregs[op[1]].remove(op[2], op[3])
            drefs[op[1]] = {x: b for x, b in drefs[op[1]].items() if not (op[2] <= x < op[2] + op[3])}
        elif k in ("dpop", "dget"):
            ref = drefs[op[1]]
            want = bytes(ref[op[2] + n] for n in range(op[3])) if all((op[2] + n) in ref for n in range(op[3])) else None
            got = dregs[op[1]].pop(op[2], op[3]) if k == "dpop" else dregs[op[1]].get(op[2], op[3])
            if op[3] > 0 and got != want:
                ctx.violation("DataSpans.%s result differs from the offset->byte map" % k[1:], case, "dspans-%s-result" % k[1:])
            if k == "dpop" and want is not None:
                drefs[op[1]] = {x: b for x, b in ref.items() if not (op[2] <= x < op[2] + op[3])}
            res = show_opt(got)
        elif k == "dcopy":
            dregs[op[1]] = DataSpans(dregs[op[2]]); drefs[op[1]] = dict(drefs[op[2]]); born[("d", op[1])] = (step, k)
        elif k == "gs":
            regs[op[1]] = dregs[op[2]].get_spans(); refs[op[1]] = set(drefs[op[2]]); born[("r", op[1])] = (step, k)
        elif k == "c":
            got = (op[2], op[3]) in regs[op[1]]
            if got != all(x in refs[op[1]] for x in range(op[2], op[2] + op[3])):
                ctx.violation("Spans.__contains__ differs from the set of integers", case, "spans-contains")
            res = "T" if got else "F"
        elif k == "len":
            n = regs[op[1]].len()
            if n != len(refs[op[1]]):
                ctx.violation("Spans.len differs from the set of integers", case, "spans-len")
            res = str(n)
        elif k == "dlen":
            n = dregs[op[1]].len()
            if n != len(drefs[op[1]]):
                ctx.violation("DataSpans.len differs from the number of mapped offsets", case, "dspans-len")
            dregs[op[1]].get_chunks().clear()      # the returned list is the caller's: changing it must not matter
            res = str(n)
        else:
            raise ValueError("unknown reg op %r" % (op,))
        # every named value against its reference
        for y in range(NR):
            if set(regs[y].each()) != refs[y]:
                twins = [x for x in range(NR) if x != y and regs[x] is regs[y]]
                if twins:
                    younger = max([("r", y)] + [("r", x) for x in twins], key=lambda t: born[t][0])
                    sig = "aliased-result:" + born[younger][1]
                    what = ("r%d changed when r%d was mutated in place: the result of `%s` is the same object as an operand"
                            % (y, twins[0], born[younger][1]))
                else:
                    sig = "reg-content:" + k
                    what = "named Spans value r%d differs from the set-of-integers reference after `%s`" % (y, k)
                ctx.violation(what, case, sig, {"step": step, "op": list(op), "register": "r%d" % y})
        for y in range(ND):
            got_map, nbytes = chunks_dict(dregs[y].get_chunks())
            if got_map != drefs[y] or nbytes != len(drefs[y]):
                twins = [x for x in range(ND) if x != y and dregs[x] is dregs[y]]
                sig = ("aliased-result:" + born[max([("d", y)] + [("d", x) for x in twins], key=lambda t: born[t][0])][1]
                       if twins else "reg-dcontent:" + k)
                ctx.violation("named DataSpans value d%d differs from the offset->byte reference after `%s`" % (y, k), case, sig,
                              {"step": step, "op": list(op), "register": "d%d" % y})
        dump = "/".join([show(r._spans) for r in regs] + [show_chunks(d.spans) for d in dregs])
        outs.append((res + "|" if res is not None else "") + dump)
        ctx.case(("R", before, repr(op)) if before.strip("-/") else None)
        ctx.count("reg-op:" + k)
        if k in ("and", "sub", "or"):
            x, y = op[2], op[3]
            shape = ("self-operand" if x == y else "empty-right" if not refs[y] and refs[x] else "empty-left" if not refs[x] else
                     "equal-operands" if refs[x] == refs[y] else "right-superset" if refs[x] <= refs[y] else
                     "disjoint" if not (refs[x] & refs[y]) else "general") if op[1] not in (x, y) else "rebinding-operand"
            ctx.count("reg-binop-shape:" + shape)
    return ";".join(outs)


def regline_of(ops):
    toks = []
    for op in ops:
        if op[0] == "set":
            toks.append("set:%d:%s" % (op[1], ",".join("%d+%d" % tuple(x) for x in op[2]) or "-"))
        elif op[0] == "dadd":
            toks.append("dadd:%d:%d:%s" % (op[1], op[2], op[3] or "-"))
        else:
            toks.append(":".join(str(x) for x in op))
    return "reg " + " ".join(toks)


REG_CORPUS = [
    # seeded C37-e (named values): r2 = r0 + r1 and r0 += r1 with r1 abutting the end of r0
    [("set", 0, [(0, 4)]), ("one", 1, 4, 2), ("or", 2, 0, 1), ("c", 2, 2, 4), ("len", 2), ("iadd", 0, 1), ("c", 0, 0, 6), ("add", 0, 8, 1), ("len", 0)],
    # repaired defect (/repo 13d6c66): `a -= a` / `a += a` iterated over the list being mutated
    [("set", 0, [(0, 1), (2, 1), (4, 1), (6, 1)]), ("copy", 1, 0), ("isub", 0, 0), ("len", 0), ("iadd", 1, 1), ("len", 1), ("c", 1, 2, 1)],
    # r2 = r0 - (empty); r2.add(...) must not change r0  (seeded change C37-b: __sub__ returning self)
    [("set", 0, [(0, 4), (6, 4)]), ("sub", 2, 0, 1), ("add", 2, 20, 2), ("c", 0, 20, 1), ("len", 0)],
    # r2 = r0 & superset: bounds - other is empty, so the outer __sub__ has an empty right operand
    [("set", 0, [(3, 4), (10, 2)]), ("one", 1, 0, 50), ("and", 2, 0, 1), ("rm", 2, 3, 1), ("len", 0), ("add", 0, 30, 1), ("len", 2)],
    [("set", 0, [(3, 4)]), ("and", 1, 0, 0), ("sub", 2, 0, 0), ("or", 3, 0, 0), ("add", 1, 9, 1), ("add", 3, 11, 1), ("add", 2, 13, 1), ("rm", 0, 3, 1)],
    [("dadd", 0, 5, "aabbcc"), ("gs", 0, 0), ("dcopy", 1, 0), ("add", 0, 20, 1), ("dadd", 1, 6, "00"), ("drm", 0, 5, 1), ("gs", 1, 1), ("dlen", 0), ("dget", 1, 5, 3)],
]


def self_operand_probe(ctx):
    """`a -= a` and `a += a` (the right operand is the object being mutated): directed monitor probe (the
    named-value histories also generate them and compare with the model)."""
    from allmydata.util.spans import Spans
    fixed = [[(0, 1), (2, 1), (4, 1), (6, 1)], [(5, 3), (10, 2)]]
    for n in range(len(fixed) + (0 if corpus_only() else 20)):
        pairs = fixed[n] if n < len(fixed) else gen_pairs(ctx.rng, 60) + [(100, 1), (102, 1), (104, 1)]
        want = set_of(pairs)
        a = Spans(pairs); a -= a
        ctx.case(("P", "isub-self", repr(pairs)))
        if set(a.each()) != set():
            ctx.violation("`a -= a` leaves %d of %d members (iterates over the list it is removing from)" % (a.len(), len(want)),
                          {"kind": "probe", "op": "isub-self", "pairs": pairs}, "spans-isub-self-operand")
        b = Spans(pairs); b += b
        ctx.case(("P", "iadd-self", repr(pairs)))
        if set(b.each()) != want:
            ctx.violation("`a += a` changes the set", {"kind": "probe", "op": "iadd-self", "pairs": pairs}, "spans-iadd-self-operand")
    ctx.count("probe:self-operand-inplace", 40)


# fixed corpus: boundary shapes of every branch (run first)
SPANS_CORPUS = [
    # seeded C37-e: `+` / `+=` with an operand that starts exactly where my last span ends must merge the two
    [("a", 0, 4), ("u", [(4, 2)], 1, "+"), ("c", 0, 6), ("c", 3, 2), ("l",), ("u", [(6, 1), (9, 2)], 3, "+="), ("c", 0, 7), ("l",),
     ("u", [(20, 2)], 2, "+="), ("u", [(11, 1)], 0, "+"), ("c", 9, 3), ("a", 30, 1), ("l",)],
    [("b",), ("e",), ("a", 5, 5), ("a", 12, 2), ("e",), ("b",), ("a", 10, 2), ("a", 3, 2), ("a", 20, 1), ("e",), ("a", 0, 30), ("l",), ("c", 0, 30), ("c", 0, 31),
     ("r", 0, 40), ("b",), ("e",)],
    [("a", 0, 10), ("r", 3, 4), ("r", 0, 3), ("r", 9, 5), ("r", 7, 2), ("l",), ("c", 7, 1)],
    [("a", 0, 4), ("a", 6, 4), ("a", 12, 4), ("r", 2, 12), ("a", 4, 2), ("i", [(1, 2), (7, 20)], 1), ("l",)],
    [("a", 10, 5), ("i", [], 0), ("a", 1, 1), ("i", [(0, 1)], 2), ("u", [(3, 3), (6, 1)], 3, "+"), ("m", [(4, 1)], 1, "-="),
     ("u", [(0, 1)], 2, "+="), ("m", [(0, 100)], 0, "-"), ("l",)],
    [("a", 0, 1), ("a", 2, 1), ("a", 4, 1), ("a", 1, 1), ("a", 3, 1), ("c", 0, 5), ("c", 0, 6), ("r", 2, 1), ("c", 0, 5)],
]
DSPANS_CORPUS = [
    # seeded C37-d: a remove that wholly covers the chunk at list index 0 and at least one further chunk
    [("a", 0, "aaaa"), ("a", 5, "bbbb"), ("a", 10, "cccc"), ("r", 0, 8), ("g", 0, 1), ("l",), ("s",),
     ("a", 0, "aaaa"), ("a", 5, "bbbb"), ("r", 0, 12), ("l",), ("a", 2, "01"), ("a", 4, "02"), ("a", 6, "03"), ("p", 2, 1), ("r", 4, 3), ("l",)],
    [("a", 3, "aa"), ("a", 6, "bb"), ("a", 9, "cc"), ("a", 12, "dddd"), ("r", 2, 11), ("l",), ("g", 3, 1), ("g", 13, 1), ("s",)],
    # seeded C37-c: an add that exactly fills a hole (adjacent on both sides) must merge with both neighbours
    [("a", 100, "01020304"), ("a", 108, "090a0b0c"), ("a", 104, "05060708"), ("g", 100, 12), ("g", 106, 4), ("p", 102, 8), ("l",), ("s",)],
    [("a", 0, "aa"), ("a", 4, "bb"), ("a", 8, "cc"), ("a", 1, "010203040506"), ("a", 7, "07"), ("g", 0, 9), ("p", 6, 3), ("g", 0, 6)],
    # seeded C37-a: a chunk whose first byte is 0xff, read from its first offset
    [("a", 10, "ff00ff01"), ("g", 10, 1), ("g", 10, 4), ("p", 10, 2), ("a", 3, "ffff"), ("g", 3, 2), ("g", 4, 1)],
    # A then loop end; A then C; A then B; C2; D2; E; B; exact replace; append
    [("a", 10, "aabbcc"), ("a", 5, "0102"), ("a", 20, "ddeeff"), ("a", 8, "1112131415"), ("g", 5, 8), ("l",), ("s",)],
    [("a", 10, "aabbccdd"), ("a", 11, "ee"), ("a", 10, "01"), ("a", 13, "0203"), ("a", 9, "ff"), ("g", 9, 6), ("p", 9, 6), ("l",)],
    [("a", 0, "0000"), ("a", 4, "1111"), ("a", 10, "2222"), ("a", 2, "abcdefabcdefabcdefabcdef"), ("g", 0, 14), ("g", 0, 15)],
    [("a", 0, "00112233445566778899"), ("r", 3, 4), ("r", 0, 1), ("r", 9, 5), ("r", 1, 2), ("r", 7, 2), ("l",), ("s",)],
    [("a", 0, "0011"), ("a", 4, "2233"), ("a", 8, "4455"), ("r", 1, 8), ("g", 0, 1), ("g", 0, 2), ("g", 9, 1), ("p", 0, 0), ("g", 0, 0), ("g", 5, 0)],
    [("b",), ("e",), ("a", 5, ""), ("b",), ("a", 5, "aa"), ("a", 8, "bbcc"), ("e",), ("b",), ("a", 5, ""), ("p", 5, 1), ("p", 5, 1), ("r", 8, 2), ("b",), ("e",), ("l",), ("s",)],
    [("a", 0, "aa"), ("a", 2, "bb"), ("a", 1, "cc"), ("a", 4, "dd"), ("a", 3, "ee"), ("g", 0, 5), ("p", 1, 3), ("g", 0, 1), ("g", 4, 1)],
]


def untuple(ops):
    res = []
    for x in ops:
        y = []
        for f in x:
            if isinstance(f, list):
                f = [tuple(p) for p in f]
            y.append(f)
        res.append(tuple(y))
    return res


def pick_base(ctx):
    r = ctx.rng.random()
    if r < 0.85:
        ctx.count("offset-base:0"); return 0
    if r < 0.93:
        ctx.count("offset-base:2^32"); return 2 ** 32 - 150
    ctx.count("offset-base:2^64"); return 2 ** 64 - 150


def corpus_only():
    """VERIF_CORPUS_ONLY=1: run only the fixed corpus (one minimal history per known mechanism), no random families."""
    import os
    return os.environ.get("VERIF_CORPUS_ONLY", "") not in ("", "0")


def guarded(ctx, fn, kind, ops):
    """An exception out of the real code (e.g. its own _check / assert_invariants firing on valid arguments) breaks the
    statement: a set / a partial map accepts every such operation."""
    try:
        return fn(ctx, ops)
    except Exception as e:
        ctx.violation("%s history raises %s: %s" % (kind, type(e).__name__, str(e)[:100]), {"kind": kind, "ops": ops},
                      "%s-exception-%s" % (kind, type(e).__name__))
        return "EXC:" + type(e).__name__


def run(ctx):
    shists, dhists, rhists = [], [], []
    if ctx.replay:
        c = ctx.replay["case"]
        if c.get("kind") == "probe":
            self_operand_probe(ctx)
            return
        {"dspans": dhists, "reg": rhists}.get(c.get("kind"), shists).append(untuple(c["ops"]))
    else:
        shists = [list(h) for h in SPANS_CORPUS]
        dhists = [list(h) for h in DSPANS_CORPUS]
        rhists = [list(h) for h in REG_CORPUS]
        nrand = 0 if corpus_only() else 1
        if corpus_only():
            ctx.note("VERIF_CORPUS_ONLY: fixed corpus only (%d Spans, %d DataSpans, %d named-value histories + self-operand probe)"
                     % (len(shists), len(dhists), len(rhists)))
        lens = [5, 20, 60, 200] if ctx.tier != "thorough" else [5, 20, 60, 200, 600]
        offs = [20, 60, 300] if ctx.tier != "thorough" else [12, 20, 60, 300, 1000]
        for i in range(nrand * ctx.budget(400, 3000)):
            shists.append(gen_history(ctx.rng, ctx.rng.choice(lens), ctx.rng.choice(offs), pick_base(ctx)))
        for i in range(nrand * ctx.budget(400, 3000)):
            dhists.append(gen_dhistory(ctx.rng, ctx.rng.choice(lens), ctx.rng.choice(offs), pick_base(ctx)))
        for i in range(nrand * ctx.budget(300, 3000)):
            rhists.append(gen_reg_history(ctx.rng, ctx.rng.choice([8, 15, 40, 100]), ctx.rng.choice([20, 60, 300]), pick_base(ctx)))
        self_operand_probe(ctx)
    simpl = [guarded(ctx, run_impl, "spans", h) for h in shists]
    dimpl = [guarded(ctx, run_dimpl, "dspans", h) for h in dhists]
    rimpl = [guarded(ctx, run_regimpl, "reg", h) for h in rhists]
    tcases, tlines, timpl = [], [], []
    for kind, hs, outs in (("spans", shists, simpl), ("dspans", dhists, dimpl)):
        for h, o in zip(hs, outs):
            tp = trace_pair(kind, h, o)
            if tp is not None:
                tcases.append({"kind": kind, "ops": h}); tlines.append(tp[0]); timpl.append(tp[1])
    tmodel = ctx.model(tlines)
    if tmodel is not None:
        ctx.compare("answers of a whole history (model strace/dtrace vs the real contains/get/pop results)", tcases, timpl, tmodel)
    model = ctx.model([line_of(h) for h in shists] + [dline_of(h) for h in dhists] + [regline_of(h) for h in rhists])
    if model is not None:
        ctx.compare("Spans history (internal _spans list after each op, query results)",
                    [{"kind": "spans", "ops": h} for h in shists], simpl, model[:len(shists)])
        ctx.compare("DataSpans history (internal spans list after each op, get/pop/len/get_spans results)",
                    [{"kind": "dspans", "ops": h} for h in dhists], dimpl, model[len(shists):len(shists) + len(dhists)])
        ctx.compare("named values r0..r3/d0..d1 (every register after each op, query results)",
                    [{"kind": "reg", "ops": h} for h in rhists], rimpl, model[len(shists) + len(dhists):])
    if shists:
        ctx.sample({"spans-ops": shists[0][:8], "impl": simpl[0][:200]})
    if dhists:
        ctx.sample({"dspans-ops": dhists[0][:8], "impl": dimpl[0][:200]})
    if rhists:
        ctx.sample({"reg-ops": rhists[0][:8], "impl": rimpl[0][:300]})
