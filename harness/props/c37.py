"""C37 — byte-range bookkeeping is exact (util/spans.py: Spans, DataSpans)."""
ID = "C37"
LEAN_PROPS = "Tahoe.Props.C37"
DRIVER = "C37"
GENERATED = []
SOURCES = ["src/allmydata/util/spans.py"]
DESIGN_REF = "DESIGN.md §2 C37"
TECHNIQUE = "Lean 4 theorems over an executable model of Spans/DataSpans; differential correspondence of op histories (internal span lists and every query) against util/spans.py"
LEVEL_TEXT = ("Set/partial-map refinement theorems proved in Lean for all span lists and op histories; the model is tied "
              "to util/spans.py by comparing the exact internal lists after every operation of seeded histories.")
LEVEL_NOTE = "Lean kernel + standard axioms; model hand-written, tied by correspondence; Python ints modelled as Nat (the code asserts start >= 0)."
RULE = ("seeded histories of add/remove/contains/len/intersect over offsets 0..300 against allmydata.util.spans; a case is one "
        "operation; distinct = distinct (state-before, op) pairs; non-trivial = the state before the op is non-empty")
TRUSTED = ["lean/Tahoe/Spans/Model.lean is a hand transcription of util/spans.py (insert+sort modelled as ordered insert)"]
ASSUMPTIONS = ["offsets and lengths are non-negative ints (asserted by the code)"]


def show(spans):
    return ",".join("%d+%d" % (s, l) for (s, l) in spans) or "-"


def gen_history(rng, n, maxoff):
    ops = []
    for _ in range(n):
        r = rng.random()
        a = rng.randrange(maxoff)
        l = rng.choice([1, 1, 2, 3, 5, 8, 13, 40]) if rng.random() < 0.8 else rng.randrange(1, maxoff)
        if r < 0.35:
            ops.append(("a", a, l))
        elif r < 0.6:
            ops.append(("r", a, l))
        elif r < 0.8:
            ops.append(("c", a, l))
        elif r < 0.9:
            ops.append(("l",))
        else:
            k = rng.randrange(0, 4)
            other = []
            for _ in range(k):
                other.append((rng.randrange(maxoff), rng.randrange(1, 60)))
            ops.append(("i", other))
    return ops


def run_impl(ctx, ops):
    """Execute on the real Spans; also evaluate the property (set-of-integers reference)."""
    from allmydata.util.spans import Spans
    s = Spans()
    ref = set()
    outs = []
    for op in ops:
        before = show(s._spans)
        if op[0] == "a":
            s.add(op[1], op[2]); ref |= set(range(op[1], op[1] + op[2])); outs.append(show(s._spans))
        elif op[0] == "r":
            s.remove(op[1], op[2]); ref -= set(range(op[1], op[1] + op[2])); outs.append(show(s._spans))
        elif op[0] == "c":
            got = (op[1], op[2]) in s
            want = all(x in ref for x in range(op[1], op[1] + op[2]))
            if got != want:
                ctx.violation("Spans.__contains__ differs from the set of integers", {"ops": ops}, "spans-contains")
            outs.append("T" if got else "F")
        elif op[0] == "l":
            outs.append(str(s.len()))
            if s.len() != len(ref):
                ctx.violation("Spans.len differs from the set of integers", {"ops": ops}, "spans-len")
        elif op[0] == "i":
            o = Spans()
            oref = set()
            for (a, l) in op[1]:
                o.add(a, l); oref |= set(range(a, a + l))
            s = s & o
            ref &= oref
            outs.append(show(s._spans))
        if set(s.each()) != ref:
            ctx.violation("Spans content differs from the set-of-integers reference", {"ops": ops}, "spans-content")
        ctx.case((before, repr(op)) if before != "-" else None)
        ctx.count("op:" + op[0])
    return ";".join(outs)


def line_of(ops):
    toks = []
    for op in ops:
        if op[0] in "arc":
            toks.append("%s:%d:%d" % op)
        elif op[0] == "l":
            toks.append("l")
        else:
            o = []
            # the driver receives `other` already normalised by the model's own add (as Spans(other) would)
            toks.append("i:" + (",".join("%d+%d" % x for x in normalise(op[1])) or "-"))
    return "spans " + " ".join(toks)


def normalise(pairs):
    from allmydata.util.spans import Spans
    o = Spans()
    for (a, l) in pairs:
        o.add(a, l)
    return list(o._spans)


def run(ctx):
    n_hist = ctx.budget(150, 4000)
    hists = []
    if ctx.replay:
        hists = [[tuple(x) if not isinstance(x[1], list) else (x[0], [tuple(y) for y in x[1]]) for x in ctx.replay["case"]["ops"]]]
    else:
        for i in range(n_hist):
            hists.append(gen_history(ctx.rng, ctx.rng.choice([5, 20, 60, 200]), ctx.rng.choice([20, 60, 300])))
    impl = [run_impl(ctx, h) for h in hists]
    model = ctx.model([line_of(h) for h in hists])
    ctx.compare("Spans history (internal _spans list after each op, query results)",
                [{"ops": h} for h in hists], impl, model)
    ctx.sample({"ops": hists[0][:8], "impl": impl[0][:200]})
