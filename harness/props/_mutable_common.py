"""Shared helpers of the mutable-file decision-logic checks (C11, C47, C14, C12).

Everything here is observation or scaffolding: fake server objects for function-level calls on real
ServerMap / ServermapUpdater / Publish / MutableChecker objects, verinfo encoding for the Lean
drivers, share-file inspection, and a Grid subclass that gives every client its own remote references
(so that server-side calls can be attributed to a client)."""
import os
import struct

import common
common.setup_impl_path()

_KEYPAIRS = {}


def keypair(i=0):
    """(pubkey, privkey) for create_mutable_file(unique_keypair=…): fixed test keys, so that runs are
    reproducible across processes (the storage index decides the server permutation)."""
    if i not in _KEYPAIRS:
        import base64
        from allmydata.crypto import rsa
        from props import _mutable_keys
        if i < len(_mutable_keys.KEYS):
            priv, pub = rsa.create_signing_keypair_from_string(base64.b64decode(_mutable_keys.KEYS[i]))
        else:
            priv, pub = rsa.create_signing_keypair(2048)
        _KEYPAIRS[i] = (pub, priv)
    return _KEYPAIRS[i]


def _displayable(cls):
    from zope.interface import implementer
    from allmydata.interfaces import IDisplayableServer
    return implementer(IDisplayableServer)(cls)


@_displayable
class FakeServer:
    """Stands in for an IServer where the real code only uses it as a dict key / for logging."""

    def __init__(self, i, permitted=True):
        self.i = i
        self.permitted = permitted

    def get_name(self):
        return b"srv%02d" % self.i

    def get_serverid(self):
        return b"serverid-%02d" % self.i + b"\x00" * 8

    def get_longname(self):
        return "server-%02d" % self.i

    def get_nickname(self):
        return "nick-%02d" % self.i

    def upload_permitted(self):
        return self.permitted

    def __repr__(self):
        return "<FakeServer %d>" % self.i


def hx(b):
    return bytes(b).hex() if b else "-"


OFFSET_KEYS = ("signature", "share_hash_chain", "block_hash_tree", "share_data", "enc_privkey", "EOF")


# every key that occurs in an offsets tuple, in Python's string order: a verinfo's offsets_tuple is a tuple of
# (name, offset) pairs and Python compares it pair by pair, name first.  The MDMF write proxy and the read proxy list
# the same names in DIFFERENT orders (dict insertion order), so the publisher's verinfo and the surveyor's verinfo of
# one version are different tuples; the model must see exactly that, hence the pairs travel as (rank of name, offset).
OFFSET_NAMES = sorted(["signature", "share_hash_chain", "block_hash_tree", "share_data", "enc_privkey", "EOF",
                       "verification_key", "verification_key_end"])


def _name_rank(name):
    name = name if isinstance(name, str) else name.decode("latin-1")
    if name in OFFSET_NAMES:
        return 2 * OFFSET_NAMES.index(name) + 1
    import bisect
    return 2 * bisect.bisect_left(OFFSET_NAMES, name)      # unknown names keep their place in string order


def enc_ver(v):
    """verinfo tuple -> driver token seq/roothash/iv/segsize/datalen/k/n/prefix/offsets
    offsets = rank(name),offset,rank(name),offset,… in the tuple's own order"""
    (seqnum, root_hash, iv, segsize, datalength, k, n, prefix, offsets_tuple) = v
    offs = ",".join("%d,%d" % (_name_rank(key), val) for (key, val) in offsets_tuple) or "-"
    return "/".join([str(seqnum), hx(root_hash), "N" if iv is None else hx(iv), str(segsize), str(datalength),
                     str(k), str(n), hx(prefix), offs])


def dec_offsets(field):
    """inverse of the offsets part of enc_ver (known names only)"""
    if field == "-":
        return ()
    xs = [int(x) for x in field.split(",")]
    return tuple((OFFSET_NAMES[(xs[i] - 1) // 2], xs[i + 1]) for i in range(0, len(xs), 2))


def vtable(vers):
    return ";".join(enc_ver(v) for v in vers) or "-"


def canon_smap(smap, vers, sidx):
    """Every query function of a real ServerMap, in the driver's output format.
    `vers` = version table (list of verinfo), `sidx(server)` = server number."""
    vi = {v: i for i, v in reversed(list(enumerate(vers)))}

    def nums(xs):
        return ",".join(str(x) for x in sorted(xs)) or "-"

    def join(sep, xs):
        return sep.join(xs) or "-"
    vm = smap.make_versionmap()
    vm_s = join("|", ["%d:%s" % (i, join(",", ["%d.%d" % p for p in sorted((sh, sidx(s)) for (sh, s, _ts) in shares)]))
                      for (i, shares) in sorted((vi[v], sh) for v, sh in vm.items())])
    av = smap.shares_available()
    av_s = join("|", ["%d:%d/%d/%d" % ((i,) + tuple(t)) for (i, t) in sorted((vi[v], t) for v, t in av.items())])
    best = smap.best_recoverable_version()
    newer = smap.unrecoverable_newer_versions()
    newer_s = join("|", ["%d:%d/%d" % ((i,) + tuple(t)) for (i, t) in sorted((vi[v], t) for v, t in newer.items())])
    shm = smap.make_sharemap()
    shm_s = join("|", ["%d:%s" % (sh, nums(sidx(s) for s in servers)) for sh, servers in sorted(shm.items())])
    ver_s = join("|", ["%d:%s" % (i, nums(sidx(s) for s in smap.all_servers_for_version(vers[i])))
                       for i in sorted(vi[v] for v in vm)])
    on_s = join(",", ["%d.%d=%s" % (a, b, "N" if smap.version_on_server(s, b) is None else vi[smap.version_on_server(s, b)])
                      for (a, b, s) in sorted((sidx(s), sh, s) for (s, sh) in smap.get_known_shares())])
    bad_s = join(",", ["%d.%d=%s" % (a, b, hx(cs)) for (a, b, cs) in
                       sorted((sidx(s), sh, cs) for (s, sh), cs in smap.get_bad_shares().items())])
    return ("vm=%s;av=%s;rec=%s;unrec=%s;best=%s;hi=%d;newer=%s;merge=%s;srv=%s;shm=%s;ver=%s;on=%s;bad=%s;"
            "reach=%s;unreach=%s;next=%d" % (
                vm_s, av_s, nums(vi[v] for v in smap.recoverable_versions()),
                nums(vi[v] for v in smap.unrecoverable_versions()),
                "N" if best is None else vi[best], smap.highest_seqnum(), newer_s,
                "T" if smap.needs_merge() else "F", nums(sidx(s) for s in smap.all_servers()), shm_s, ver_s, on_s,
                bad_s, nums(sidx(s) for s in smap.get_reachable_servers()), nums(sidx(s) for s in smap.unreachable_servers),
                smap.highest_seqnum() + 1))


def smap_ops(smap, vers, sidx):
    """driver ops that rebuild the given real ServerMap (known shares in dict order, bad shares, reachability)"""
    vi = {v: i for i, v in reversed(list(enumerate(vers)))}
    ops = []
    for (s, sh), (v, _ts) in smap.get_known_shares().items():
        ops.append("a:%d:%d:%d" % (sidx(s), sh, vi[v]))
    for (s, sh), cs in smap.get_bad_shares().items():
        if (s, sh) in smap.get_known_shares():
            continue   # cannot happen through the ServerMap API
        ops.append("b:%d:%d:%s" % (sidx(s), sh, hx(cs)))
    for s in sorted(smap.get_reachable_servers(), key=sidx):
        ops.append("r:%d" % sidx(s))
    for s in sorted(smap.unreachable_servers, key=sidx):
        ops.append("u:%d" % sidx(s))
    return ops


def versions_of(smap):
    seen = []
    for (v, _ts) in smap.get_known_shares().values():
        if v not in seen:
            seen.append(v)
    return seen


# ----------------------------------------------------------------------------- reference semantics (from the statements)

def ref_distinct(known):
    """known: dict (server, shnum) -> verinfo.  -> {verinfo: set(shnums)}"""
    res = {}
    for (s, sh), v in known.items():
        res.setdefault(v, set()).add(sh)
    return res


def ref_recoverable(known):
    return {v for v, shs in ref_distinct(known).items() if len(shs) >= v[5]}


# ----------------------------------------------------------------------------- share files

def share_checkstring(path):
    """(format, seqnum, root_hash, iv|None) of a mutable share file on disk, or None if unreadable."""
    from allmydata.storage.mutable import MutableShareFile
    try:
        d = MutableShareFile(path).readv([(0, 57)])[0]
    except Exception:
        return None
    return parse_checkstring(d)


def parse_checkstring(d):
    if not d:
        return None
    if d[0] == 0 and len(d) >= 57:
        (_v, seq, rh, iv) = struct.unpack(">BQ32s16s", d[:57])
        return ("sdmf", seq, rh, iv)
    if d[0] == 1 and len(d) >= 41:
        (_v, seq, rh) = struct.unpack(">BQ32s", d[:41])
        return ("mdmf", seq, rh, None)
    return ("?", bytes(d[:57]))


def disk_state(g, si):
    """{(server#, shnum): checkstring tuple} for every share of `si` on every server of the grid"""
    return {(i, sh): share_checkstring(p) for (i, sh, p) in g.share_files(si)}


def snapshot_files(g, si, servers=None):
    """{(server#, shnum): bytes} raw share files (to be copied back later: a server replaying old shares)"""
    res = {}
    for (i, sh, p) in g.share_files(si):
        if servers is None or i in servers:
            with open(p, "rb") as f:
                res[(i, sh)] = (p, f.read())
    return res


def restore_files(snap, keys=None):
    for key, (p, data) in snap.items():
        if keys is None or key in keys:
            os.makedirs(os.path.dirname(p), exist_ok=True)
            with open(p, "wb") as f:
                f.write(data)


def exc_name(e):
    from foolscap.api import RemoteException
    from twisted.internet.defer import FirstError
    if isinstance(e, FirstError):
        return exc_name(e.subFailure.value)
    if isinstance(e, RemoteException):
        return "Remote:" + type(e.failure.value).__name__
    return type(e).__name__


# ----------------------------------------------------------------------------- grid with per-client remote references

def make_grid(tag, rt, num_servers, num_clients, k, n, per_client_wrappers=False):
    import grid

    class PerClientGrid(grid.Grid):
        """Each client gets its own broker whose servers wrap the same storage servers through its own
        LocalWrapper (name 'c<client>-s<server>'), so calls can be attributed and faults injected per client."""

        def make_client(self, i, k, happy, n, max_segment_size, convergence):
            if not per_client_wrappers:
                return grid.Grid.make_client(self, i, k, happy, n, max_segment_size, convergence)
            shared = self.broker
            b = grid.GridBroker()
            self.client_wrappers = getattr(self, "client_wrappers", {})
            for num in sorted(self.storage):
                base = self.wrappers[num]
                w = grid.LocalWrapper(base.original, self.rt, name="c%d-s%d" % (i, num))
                w.version = base.version
                self.client_wrappers[(i, num)] = w
                b.servers.append(grid.GridServer(self.serverid(num), w))
            self.broker = b
            try:
                return grid.Grid.make_client(self, i, k, happy, n, max_segment_size, convergence)
            finally:
                self.broker = shared

    return PerClientGrid(grid.fresh_dir(tag), rt, num_servers=num_servers, num_clients=num_clients, k=k, happy=1, n=n)


def server_number(g):
    """GridServer -> server number, by serverid"""
    ids = {g.serverid(i): i for i in range(64)}
    return lambda s: ids[s.get_serverid()]


# ----------------------------------------------------------------------------- a real Publish object without a grid

class PublishNode:
    """What Publish asks of its filenode (keys are real; nothing is sent anywhere)."""

    def __init__(self, k, n, mdmf=False, size=6):
        from allmydata.interfaces import SDMF_VERSION, MDMF_VERSION
        self.k, self.n, self.size = k, n, size
        self.version = MDMF_VERSION if mdmf else SDMF_VERSION
        self.pub, self.priv = keypair()
        self.hints = None

    def get_storage_index(self): return b"\x01" * 16
    def get_version(self): return self.version
    def get_writekey(self): return b"w" * 16
    def get_readkey(self): return b"r" * 16
    def get_required_shares(self): return self.k
    def get_total_shares(self): return self.n
    def get_pubkey(self): return self.pub
    def get_privkey(self): return self.priv
    def get_encprivkey(self): return b"e" * 1216
    def get_write_enabler(self, server): return b"we" * 16
    def get_renewal_secret(self, server): return b"rs" * 16
    def get_cancel_secret(self, server): return b"cs" * 16
    def get_size(self): return self.size
    def set_downloader_hints(self, hints): self.hints = hints


class PublishBroker:
    def __init__(self, servers):
        self.servers = servers

    def get_servers_for_psi(self, si, for_upload=True):
        return list(self.servers)


def real_publish(k, n, servers, servermap=None, mdmf=False, op="publish", version=None, data=b"abcdef"):
    """A Publish built by its real __init__ and initialised by the real publish()/update() set-up code (so that
    whatever internal attributes the class keeps exist in the shape the class itself gives them); the encode/push
    pipeline is not started (`_push` is stubbed during the call).  Returns (publish, error-or-None)."""
    from allmydata.mutable import publish as P
    for s in servers:
        if not hasattr(s, "get_storage_server"):
            s.get_storage_server = lambda: None
    node = PublishNode(k, n, mdmf, len(data))
    p = P.Publish(node, PublishBroker(servers), servermap)
    p._push = lambda ignored=None: None
    err = None
    try:
        if op == "publish":
            p.publish(P.MutableData(data))
        else:
            p.update(P.MutableData(data), 0, {}, version)
    except Exception as e:            # the set-up may need more than the stubs give; what it set before is kept
        err = e
    finally:
        del p._push
    return p, err
