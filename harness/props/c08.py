"""C08 — happiness value equals a maximum server/share matching
(util/happinessutil.py: servers_of_happiness, shares_by_server, merge_servers, _flow_network_for,
_reindex; immutable/happiness_upload.py: bfs, augmenting_path_for, residual_network)."""
import itertools
import os

ID = "C08"
LEAN_PROPS = "Tahoe.Props.C08"
DRIVER = "C08"
GENERATED = []
SOURCES = ["src/allmydata/util/happinessutil.py", "src/allmydata/immutable/happiness_upload.py"]
DESIGN_REF = "DESIGN.md §2 C08, Appendix A.1"
TECHNIQUE = ("Lean 4 theorems over an executable transcription of the Edmonds-Karp code (adjacency lists, 0/1 flow "
             "matrix, BFS with colour/predecessor/distance arrays and FIFO queue, residual network rebuilt per round); "
             "differential correspondence at function granularity (re-indexed graph, every residual network, every BFS "
             "predecessor table, every augmenting path, final value) against the real functions, plus shares_by_server, "
             "merge_servers, the uploader's happiness test through a real PeerSelector (effectiveHappiness), and the Lean "
             "specification maxMatchingBrute against the reference matcher; fixed corpus first (one input per seeded change "
             "C08-a..e), VERIF_CORPUS_ONLY=1 runs only it; monitor = own Kuhn/brute-force maximum matching, order independence")
LEVEL_TEXT = ("soh_eq_maxMatching: servers_of_happiness(m) = maxMatchingBrute(rel m) (maximum over all edge subsets injective in both "
              "coordinates), proved in Lean for every finite relation and every dict/set iteration order (soh_is_maxMatchingSize, "
              "soh_order_independent, soh_of_servermap, loop_exit_no_augmenting_path, bfs_sound_complete: soundness, no augmenting "
              "path at exit, optimality by a directly proved Koenig cover argument, BFS soundness/completeness, fuel sufficiency); "
              "callers: shares_by_server_converse, merge_servers_relation, soh_of_merged, upload_effective_happiness (the uploader's "
              "per-round happiness test is the maximum matching number of existing shares and allocated buckets); no _partial "
              "theorem. Not covered: how immutable/filenode.py and mutable/checker.py build the maps they pass (the value of any "
              "map is covered). Model tied to the code by exact traces of the loop (flow network, every residual network, BFS "
              "table, path, value)")
LEVEL_NOTE = ("Lean kernel + standard axioms; model hand-written, tied by correspondence; the theorems take the "
              "iteration order of every dict/set as a universally quantified input (lists in any order)")
RULE = ("a case is one call of servers_of_happiness (or of one helper: bfs / augmenting_path_for / residual_network / "
        "_flow_network_for / shares_by_server / merge_servers / the uploader's happiness test) on a generated input; distinct = "
        "distinct (function, input incl. insertion order); non-trivial = the relation has at least one edge "
        "(helpers: the graph has at least one edge)")
TRUSTED = [
    "lean/Tahoe/Happiness/{Graph,Flow}.lean are hand transcriptions of util/happinessutil.py and the flow code of immutable/happiness_upload.py",
    "CPython iterates a set of ints < 8 in ascending order (used only to make the composite servers_of_happiness "
    "trace comparable step by step; for other ids the harness feeds the iteration order it observes from the real "
    "shares_by_server result into the model, and the theorem holds for every order)",
    "the harness observes the real loop by wrapping the module globals shares_by_server, _flow_network_for, "
    "residual_network, augmenting_path_for (happinessutil) and bfs (happiness_upload) at run time",
    "effectiveHappiness transcribes the expression servers_of_happiness(merge_servers(PeerSelector."
    "get_sharemap_of_preexisting_shares(), use_trackers)) of upload.py; trackers are stand-ins with get_serverid() and buckets",
]
ASSUMPTIONS = ["server ids and share numbers are hashable values with a total equality; the model uses natural numbers "
               "(byte-string ids are relabelled injectively before they are sent to the model)",
               "sharemap values are sets (asserted by shares_by_server)"]


# ----------------------------------------------------------------------------- encodings

def enc_setmap(items):
    """items: list of (key, list_of_values) in dict order / iteration order"""
    if not items:
        return "-"
    return ";".join("%d:%s" % (k, ",".join(str(x) for x in v)) for k, v in items)


def enc_graph(g):
    if not g:
        return "-"
    return ";".join(",".join(str(x) for x in row) if row else "." for row in g)


def enc_matrix(m):
    return enc_graph(m)


def enc_pred(p):
    if not p:
        return "-"
    return ",".join("N" if x is None else str(x) for x in p)


def enc_path(p):
    if p is False:
        return "F"
    if not p:
        return "-"
    return ",".join("%d>%d" % (u, v) for (u, v) in p)


def dict_items(d):
    return [(k, list(v)) for k, v in d.items()]


def canon_setmap_str(s):
    """sort a `k:a,b;k:c` string by key and values (order-independent comparison)"""
    if s == "-":
        return s
    ent = []
    for e in s.split(";"):
        k, v = e.split(":")
        ent.append((int(k), sorted(int(x) for x in v.split(",")) if v else []))
    return enc_setmap(sorted(ent))


# ----------------------------------------------------------------------------- reference (monitor)

def kuhn_max_matching(edges):
    """Size of a maximum matching of a bipartite edge set {(left, right)} — augmenting-path (Kuhn) algorithm,
    written from the definition; no code shared with the implementation or the model."""
    adj = {}
    for (l, r) in edges:
        adj.setdefault(l, []).append(r)
    match_r = {}

    def try_augment(l, seen):
        for r in adj[l]:
            if r in seen:
                continue
            seen.add(r)
            if r not in match_r or try_augment(match_r[r], seen):
                match_r[r] = l
                return True
        return False

    size = 0
    for l in adj:
        if try_augment(l, set()):
            size += 1
    return size


def brute_max_matching(edges):
    """max size of an edge subset injective in both coordinates, by exhaustive search (tiny inputs only)"""
    edges = sorted(set(edges))
    best = 0

    def rec(i, usedl, usedr, size):
        nonlocal best
        if size + (len(edges) - i) <= best:
            return
        if i == len(edges):
            best = max(best, size)
            return
        l, r = edges[i]
        if l not in usedl and r not in usedr:
            rec(i + 1, usedl | {l}, usedr | {r}, size + 1)
        rec(i + 1, usedl, usedr, size)

    rec(0, frozenset(), frozenset(), 0)
    return best


def edges_of_sharemap(sm):
    return [(p, s) for s, ps in sm.items() for p in ps]


# ----------------------------------------------------------------------------- observing the real loop

class Recorder:
    """wraps the module globals that servers_of_happiness calls, so that one real call yields the list of events
    G (flow network), R (residual graph), B (bfs table), A (path or False), and the servermap in its real order"""

    def __init__(self):
        from allmydata.util import happinessutil as hu
        from allmydata.immutable import happiness_upload as up
        self.hu, self.up = hu, up
        self.saved = None
        self.events = []
        self.servermap = None

    def __enter__(self):
        hu, up = self.hu, self.up
        self.saved = (hu.shares_by_server, hu._flow_network_for, hu.residual_network, hu.augmenting_path_for, up.bfs)
        sbs, fnf, res, aug, bfs = self.saved

        def w_sbs(m):
            r = sbs(m)
            self.servermap = dict_items(r)
            return r

        def w_fnf(m):
            g = fnf(m)
            self.events.append("G:" + enc_graph(g))
            return g

        def w_res(g, f):
            r = res(g, f)
            self.events.append("R:" + enc_graph(r[0]))
            return r

        def w_bfs(g, s):
            r = bfs(g, s)
            self.events.append("B:" + enc_pred(r))
            return r

        def w_aug(g):
            r = aug(g)
            self.events.append("A:" + enc_path(r))
            return r

        hu.shares_by_server, hu._flow_network_for, hu.residual_network, hu.augmenting_path_for = w_sbs, w_fnf, w_res, w_aug
        up.bfs = w_bfs
        return self

    def __exit__(self, *a):
        hu, up = self.hu, self.up
        hu.shares_by_server, hu._flow_network_for, hu.residual_network, hu.augmenting_path_for, up.bfs = self.saved

    def run(self, sharemap):
        self.events = []
        self.servermap = None
        v = self.hu.servers_of_happiness(sharemap)
        return v, self.servermap, "|".join(self.events) + "|V:%d" % v


# ----------------------------------------------------------------------------- generators

def sharemap_from_relation(nserv, nshare, bits, order):
    """dict share -> set(servers) with keys inserted in `order`; shares without a server are left out with
    probability 0 (kept as empty sets only when `bits` says so via the extra flag handled by the caller)"""
    d = {}
    for s in order:
        ps = {p for p in range(nserv) if bits >> (s * nserv + p) & 1}
        if ps:
            d[s] = ps
    return d


def random_sharemap(rng, nserv, nshare, density, ids="int"):
    shares = list(range(nshare))
    rng.shuffle(shares)
    d = {}
    for s in shares:
        ps = {p for p in range(nserv) if rng.random() < density}
        if ps or rng.random() < 0.1:
            d[s] = ps
    return d


def random_graph(rng, n, p):
    return [[v for v in rng.sample(range(n), n) if rng.random() < p] for _ in range(n)]


# ----------------------------------------------------------------------------- run

def run(ctx):
    from allmydata.util import happinessutil as hu
    from allmydata.immutable import happiness_upload as up

    thorough = ctx.tier == "thorough"
    rng = ctx.rng

    # ---- A. composite: servers_of_happiness, value + monitor (+ exact trace on a subset)
    cases = []     # (sharemap-as-items, label)
    corpus_only = os.environ.get("VERIF_CORPUS_ONLY") == "1"
    # FIXED CORPUS (runs first, independent of VERIF_SEED): one minimal input per known mechanism
    corpus = [
        # seeded C08-c (value remembered by a multiplicity-forgetting layout key): same set of server groups, different
        # number of shares per group, asked in both orders within one process
        {0: {0, 1}, 1: {0, 1}},      # 2
        {0: {0, 1}},                 # 1 (a stale remembered 2 is caught here)
        {0: {2, 3}},                 # 1
        {0: {2, 3}, 1: {2, 3}},      # 2 (a stale remembered 1 is caught here)
        # seeded C08-a (flow update `= 1` does not cancel a back edge): server 0 holds shares 1,2,3, servers 1 and 2 only
        # a duplicate of share 1, server 0 numbered first: maximum matching 2 (over-count gives 3)
        {1: {0, 1, 2}, 2: {0}, 3: {0}},
        # seeded C08-b (residual network drops unused edges between matched vertices): the augmenting path must displace
        # two matched servers in a chain; this insertion order needs it: maximum matching 3 (early stop gives 2)
        {2: {3}, 1: {3, 2}, 0: {1, 2}},
        # the docstring example of servers_of_happiness (servers 1..5, shares 1,2,3,4,6)
        {1: {1}, 2: {1, 5}, 3: {1, 3}, 4: {1, 4}, 6: {2}},
        # layouts from test_happiness-style hand cases
        {0: {0}, 1: {0}, 2: {0}},
        {0: {0, 1, 2}, 1: {0}, 2: {0}},
        {0: set()},
        {},
        {0: {1, 2}, 1: {1}, 2: {2}, 3: {1, 2}},
    ]
    if ctx.replay:
        rc = ctx.replay.get("case") or {}
        if "sharemap" in rc:
            corpus = [{int(k) if not isinstance(k, int) else k: set(v) for k, v in rc["sharemap"]}]
    for d in corpus:
        cases.append(dict(d))

    if not ctx.replay and not corpus_only:
        max_exh = 4 if thorough else 3
        for nserv in range(1, max_exh + 1):
            for nshare in range(1, max_exh + 1):
                orders = list(itertools.permutations(range(nshare)))
                for bits in range(1 << (nserv * nshare)):
                    for order in orders:
                        cases.append(sharemap_from_relation(nserv, nshare, bits, order))
        if thorough:
            ctx.exhaustive = True
        else:
            # a sample of the 4x4 scope in quick mode
            for _ in range(ctx.budget(6000, 0)):
                order = list(range(4)); rng.shuffle(order)
                cases.append(sharemap_from_relation(4, 4, rng.getrandbits(16), order))
        # seeded larger relations, each under several insertion orders
        for _ in range(ctx.budget(600, 6000)):
            nserv = rng.randint(1, 30); nshare = rng.randint(1, 30)
            base = random_sharemap(rng, nserv, nshare, rng.choice([0.03, 0.08, 0.15, 0.3, 0.6]))
            keys = list(base.keys())
            for _k in range(3):
                rng.shuffle(keys)
                cases.append({k: set(base[k]) for k in keys})

    impl_vals, lines, descr = [], [], []
    n_trace_budget = ctx.budget(8000, 100000)
    trace_cases, trace_impl, trace_lines = [], [], []
    mm_lines, mm_ref, mm_descr = [], [], []
    mm_budget = ctx.budget(1500, 20000)
    with Recorder() as rec:
        for i, sm in enumerate(cases):
            edges = edges_of_sharemap(sm)
            want_trace = (len(trace_cases) < n_trace_budget) and (len(cases) <= n_trace_budget or rng.random() < n_trace_budget / len(cases) or i < len(corpus))
            if want_trace and sm:
                v, servermap, tr = rec.run({k: set(x) for k, x in sm.items()})
                trace_cases.append({"sharemap": [[k, sorted(x)] for k, x in sm.items()], "servermap_order": servermap})
                trace_impl.append(tr)
                trace_lines.append("trace " + enc_setmap(servermap))
            else:
                v = hu.servers_of_happiness({k: set(x) for k, x in sm.items()})
            # monitor: the statement itself
            ref = kuhn_max_matching(edges)
            if len(set(edges)) <= 12:
                b = brute_max_matching(edges)
                if b != ref:
                    raise AssertionError("reference matchers disagree on %r: %d vs %d" % (sm, ref, b))
            if v != ref:
                ctx.violation("servers_of_happiness differs from the maximum matching size",
                              {"sharemap": [[k, sorted(x)] for k, x in sm.items()], "impl": v, "max_matching": ref},
                              "soh-below-max" if v < ref else "soh-above-max")
            if 0 < len(edges) <= 8 and len(mm_lines) < mm_budget:
                # the Lean-side specification (`rel`, `maxMatchingBrute`) against the Python reference
                mm_lines.append("mm " + enc_setmap([(k, sorted(x)) for k, x in sm.items()]))
                mm_ref.append(str(ref))
                mm_descr.append({"fn": "maxMatchingBrute (Lean spec) vs reference matcher", "sharemap": [[k, sorted(x)] for k, x in sm.items()]})
            impl_vals.append(str(v))
            lines.append("soh " + enc_setmap([(k, sorted(x)) for k, x in sm.items()]))
            descr.append({"sharemap": [[k, sorted(x)] for k, x in sm.items()]})
            ctx.case(("soh", lines[-1]) if edges else None)
            ctx.count("soh:value=%d" % min(v, 9))
            ctx.count("soh:edges<=%d" % (4 if len(edges) <= 4 else 16 if len(edges) <= 16 else 64 if len(edges) <= 64 else 1000))
    ctx.compare("servers_of_happiness value", descr, impl_vals, ctx.model(lines))
    ctx.compare("servers_of_happiness loop trace (graph, residual networks, bfs tables, paths, value)",
                trace_cases, trace_impl, ctx.model(trace_lines))
    ctx.compare("Lean specification maxMatchingBrute(rel m) vs the monitor's reference maximum matching", mm_descr, mm_ref, ctx.model(mm_lines))
    ctx.count("spec:maxMatchingBrute-vs-reference", len(mm_lines))
    ctx.count("soh:traced", len(trace_cases))
    if trace_impl:
        ctx.sample({"trace_line": trace_lines[min(5, len(trace_lines) - 1)][:200], "impl": trace_impl[min(5, len(trace_impl) - 1)][:400]})

    if ctx.replay or corpus_only:
        if corpus_only:
            ctx.note("VERIF_CORPUS_ONLY=1: only the fixed corpus (%d inputs) was run" % len(corpus))
        return

    # ---- B. order independence and byte-string ids (property level)
    n_b = ctx.budget(400, 3000)
    b_descr, b_impl, b_lines = [], [], []
    for _ in range(n_b):
        nserv = rng.randint(1, 30); nshare = rng.randint(1, 30)
        base = random_sharemap(rng, nserv, nshare, rng.choice([0.05, 0.1, 0.3]))
        pid = {p: bytes(rng.getrandbits(8) for _ in range(20)) for p in range(nserv)}
        if len(set(pid.values())) != nserv:
            continue
        vals = []
        keys = list(base.keys())
        for _k in range(3):
            rng.shuffle(keys)
            # fresh sets built in a shuffled insertion order
            sm = {}
            for k in keys:
                ps = list(base[k]); rng.shuffle(ps)
                s = set()
                for p in ps:
                    s.add(pid[p])
                sm[k] = s
            vals.append(hu.servers_of_happiness(sm))
        ref = kuhn_max_matching(edges_of_sharemap(base))
        case = {"sharemap": [[k, sorted(x)] for k, x in base.items()], "ids": "20-byte strings", "values": vals}
        if len(set(vals)) != 1:
            ctx.violation("servers_of_happiness depends on the insertion order", case, "soh-order-dependent")
        elif vals[0] != ref:
            ctx.violation("servers_of_happiness differs from the maximum matching size (byte-string ids)", case,
                          "soh-below-max" if vals[0] < ref else "soh-above-max")
        b_descr.append(case); b_impl.append(str(vals[0]))
        b_lines.append("soh " + enc_setmap([(k, sorted(x)) for k, x in base.items()]))
        ctx.case(("soh-bytes", b_lines[-1]) if edges_of_sharemap(base) else None)
        ctx.count("soh:byte-ids")
    ctx.compare("servers_of_happiness value on byte-string ids vs model on the relabelled relation",
                b_descr, b_impl, ctx.model(b_lines))

    # ---- C. helpers at function granularity on arbitrary inputs
    n_c = ctx.budget(1000, 8000)
    c_descr, c_impl, c_lines = [], [], []
    for _ in range(n_c):
        n = rng.randint(1, 12)
        g = random_graph(rng, n, rng.choice([0.1, 0.2, 0.4]))
        s = rng.randrange(n)
        nontriv = any(g)
        c_descr.append({"fn": "bfs", "graph": g, "s": s}); c_impl.append(enc_pred(up.bfs(g, s)))
        c_lines.append("bfs %s %d" % (enc_graph(g), s)); ctx.case(("bfs", c_lines[-1]) if nontriv else None)
        r = up.augmenting_path_for(g)
        c_descr.append({"fn": "augmenting_path_for", "graph": g}); c_impl.append(enc_path(r))
        c_lines.append("aug %s" % enc_graph(g)); ctx.case(("aug", c_lines[-1]) if nontriv else None)
        ctx.count("aug:path" if r else "aug:none")
        f = [[rng.choice([0, 0, 1, -1]) for _ in range(n)] for _ in range(n)]
        rg, cf = up.residual_network(g, f)
        c_descr.append({"fn": "residual_network", "graph": g, "f": f}); c_impl.append(enc_graph(rg) + "|" + enc_matrix(cf))
        c_lines.append("res %s %s" % (enc_graph(g), enc_matrix(f))); ctx.case(("res", c_lines[-1]) if nontriv else None)
        ctx.count("helpers:bfs/aug/res")
    # _flow_network_for / shares_by_server / merge_servers
    for _ in range(n_c):
        small = rng.random() < 0.5
        nserv = rng.randint(1, 8 if small else 30); nshare = rng.randint(1, 8 if small else 30)
        sm = random_sharemap(rng, nserv, nshare, rng.choice([0.1, 0.3, 0.6]))
        servermap = hu.shares_by_server({k: set(v) for k, v in sm.items()})
        items = dict_items(servermap)
        sm_items = dict_items(sm)
        got = enc_setmap(items)
        c_descr.append({"fn": "shares_by_server", "sharemap": sm_items, "exact_order": small})
        c_impl.append(got if small else canon_setmap_str(got))
        c_lines.append("sbs " + enc_setmap(sm_items))
        ctx.case(("sbs", c_lines[-1]) if items else None)
        # monitor for shares_by_server: it is the converse relation
        if sorted((p, s) for p, ss in servermap.items() for s in ss) != sorted(edges_of_sharemap(sm)):
            ctx.violation("shares_by_server is not the converse relation", {"sharemap": sm_items}, "sbs-not-converse")
        c_descr.append({"fn": "_flow_network_for", "servermap": items})
        c_impl.append(enc_graph(hu._flow_network_for(servermap)))
        c_lines.append("fnf " + enc_setmap(items))
        ctx.case(("fnf", c_lines[-1]) if items else None)
        # merge_servers with tracker-like objects
        class T:
            def __init__(self, sid, b): self.sid = sid; self.buckets = b
            def get_serverid(self): return self.sid
        tr = [(rng.randrange(nserv + 3), sorted(rng.sample(range(nshare + 2), rng.randint(0, min(3, nshare))))) for _ in range(rng.randint(0, 3))]
        tr = list({sid: b for sid, b in tr}.items())
        merged = hu.merge_servers({k: set(v) for k, v in sm.items()}, set(T(sid, {b: None for b in bs}) for sid, bs in tr))
        c_descr.append({"fn": "merge_servers", "sharemap": sm_items, "trackers": tr})
        c_impl.append(canon_setmap_str(enc_setmap(dict_items(merged))))
        c_lines.append("merge %s %s" % (enc_setmap(sm_items), enc_setmap(tr)))
        ctx.case(("merge", c_lines[-1]) if tr else None)
        want = {}
        for k, v in sm.items():
            want.setdefault(k, set()).update(v)
        for sid, bs in tr:
            for b in bs:
                want.setdefault(b, set()).add(sid)
        if merged != want:
            ctx.violation("merge_servers is not the union of the sharemap and the trackers' buckets",
                          {"sharemap": sm_items, "trackers": tr}, "merge-not-union")
        # the uploader's happiness test: real PeerSelector bookkeeping -> get_sharemap_of_preexisting_shares -> merge -> soh
        from allmydata.immutable.upload import PeerSelector
        ps = PeerSelector(1, nshare, 1, 1)
        for srv, shs in items:                 # existing shares as the selector records them: server -> shares
            for sh in shs:
                ps.add_peer_with_share(srv, sh)
        eff = hu.servers_of_happiness(hu.merge_servers(ps.get_sharemap_of_preexisting_shares(),
                                                       set(T(sid, {b: None for b in bs}) for sid, bs in tr)))
        ex_items = [(k, sorted(v)) for k, v in ps.existing_shares.items()]
        c_descr.append({"fn": "upload happiness test (effectiveHappiness)", "existing": ex_items, "trackers": tr})
        c_impl.append(str(eff))
        c_lines.append("eff %s %s" % (enc_setmap(ex_items), enc_setmap(tr)))
        ctx.case(("eff", c_lines[-1]) if ex_items else None)
        ref_eff = kuhn_max_matching([(srv, sh) for srv, shs in ex_items for sh in shs] + [(sid, b) for sid, bs in tr for b in bs])
        if eff != ref_eff:
            ctx.violation("the uploader's happiness test differs from the maximum matching of existing shares and allocated buckets",
                          {"existing": ex_items, "trackers": tr, "impl": eff, "max_matching": ref_eff}, "effective-happiness-wrong")
        ctx.count("helpers:sbs/fnf/merge")
    model = ctx.model(c_lines)
    if model is not None:
        model = [canon_setmap_str(m) if (d["fn"] == "merge_servers" or (d["fn"] == "shares_by_server" and not d["exact_order"])) else m
                 for m, d in zip(model, c_descr)]
    ctx.compare("helper functions (bfs / augmenting_path_for / residual_network / shares_by_server / _flow_network_for / merge_servers)",
                c_descr, c_impl, model)
