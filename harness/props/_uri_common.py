"""Shared helpers of the C15 / C16 checks (capability strings of allmydata/uri.py).

Nothing here imports the Lean model; `describe` produces the same canonical text as
lean/Tahoe/Uri/Show.lean, `ref_*` is a reference grammar written from the documented cap formats
(docs/specifications/uri.rst: prefix, base32 fields of 128/256 bits, decimal numbers) with the
standard library only (base64, int) — it never looks at uri.py's regular expressions.
"""
import base64

from common import hx

FILE_KINDS = [  # tag, class name, BASE_STRING
    ("CHK", "CHKFileURI", b"URI:CHK:"), ("CHKV", "CHKFileVerifierURI", b"URI:CHK-Verifier:"),
    ("LIT", "LiteralFileURI", b"URI:LIT:"), ("SSK", "WriteableSSKFileURI", b"URI:SSK:"),
    ("SSKRO", "ReadonlySSKFileURI", b"URI:SSK-RO:"), ("SSKV", "SSKVerifierURI", b"URI:SSK-Verifier:"),
    ("MDMF", "WriteableMDMFFileURI", b"URI:MDMF:"), ("MDMFRO", "ReadonlyMDMFFileURI", b"URI:MDMF-RO:"),
    ("MDMFV", "MDMFVerifierURI", b"URI:MDMF-Verifier:")]
DIR_KINDS = [  # tag of the inner class, directory class name, BASE_STRING
    ("SSK", "DirectoryURI", b"URI:DIR2:"), ("SSKRO", "ReadonlyDirectoryURI", b"URI:DIR2-RO:"),
    ("SSKV", "DirectoryURIVerifier", b"URI:DIR2-Verifier:"), ("CHK", "ImmutableDirectoryURI", b"URI:DIR2-CHK:"),
    ("CHKV", "ImmutableDirectoryURIVerifier", b"URI:DIR2-CHK-Verifier:"), ("LIT", "LiteralDirectoryURI", b"URI:DIR2-LIT:"),
    ("MDMF", "MDMFDirectoryURI", b"URI:DIR2-MDMF:"), ("MDMFRO", "ReadonlyMDMFDirectoryURI", b"URI:DIR2-MDMF-RO:"),
    ("MDMFV", "MDMFDirectoryURIVerifier", b"URI:DIR2-MDMF-Verifier:")]
FILE_TAG = {cls: tag for tag, cls, _ in FILE_KINDS}
DIR_TAG = {cls: tag for tag, cls, _ in DIR_KINDS}
MDMF_TAGS = ("MDMF", "MDMFRO", "MDMFV")
WRITE_TAGS = ("SSK", "MDMF")
MUTABLE_TAGS = ("SSK", "SSKRO", "MDMF", "MDMFRO")
ERRS = {"NoneType": "none", "BadURIError": "BadURI", "MustBeDeepImmutableError": "MustBeDeepImmutable",
        "MustBeReadonlyError": "MustBeReadonly", "MustNotBeUnknownRWError": "MustNotBeUnknownRW"}
PREFIXES = (b"", b"ro.", b"imm.")
UNKNOWN_RW = b"x-future:abc"


def file_fields(c):
    t = FILE_TAG[type(c).__name__]
    if t == "CHK":
        return [hx(c.key), hx(c.uri_extension_hash), str(c.needed_shares), str(c.total_shares), str(c.size)]
    if t == "CHKV":
        return [hx(c.storage_index), hx(c.uri_extension_hash), str(c.needed_shares), str(c.total_shares), str(c.size)]
    if t == "LIT":
        return [hx(c.data)]
    if t in ("SSK", "MDMF"):
        return [hx(c.writekey), hx(c.fingerprint)]
    if t in ("SSKRO", "MDMFRO"):
        return [hx(c.readkey), hx(c.fingerprint)]
    return [hx(c.storage_index), hx(c.fingerprint)]


def describe(c):
    """Canonical text of a cap object (same format as Tahoe.Uri.showCap)."""
    if c is None:
        return "None"
    n = type(c).__name__
    if n == "UnknownURI":
        return "U " + ERRS[type(c.get_error()).__name__]
    if n in FILE_TAG:
        return "F %s %s" % (FILE_TAG[n], " ".join(file_fields(c)))
    inner = c.get_filenode_cap()
    return "D %s %s %s" % (DIR_TAG[n], FILE_TAG[type(inner).__name__], " ".join(file_fields(inner)))


def tag_of(c):
    """('F'|'D'|'U', tag)"""
    n = type(c).__name__
    if n == "UnknownURI":
        return ("U", None)
    if n in FILE_TAG:
        return ("F", FILE_TAG[n])
    return ("D", DIR_TAG[n])


def to_string_or_assert(c):
    try:
        return hx(c.to_string())
    except AssertionError:
        return "ASSERT"


# ----------------------------------------------------------------------------- generators

def rand_bytes(rng, n):
    r = rng.random()
    if r < 0.04:
        return bytes(n)
    if r < 0.08:
        return b"\xff" * n
    return bytes(rng.randrange(256) for _ in range(n))


def rand_nat(rng, big=False):
    r = rng.random()
    if not big:
        return rng.choice([1, 3, 10, 255, 256, rng.randrange(1, 300)]) if r < 0.9 else rand_nat(rng, True)
    if r < 0.15:
        return rng.choice([0, 1, 9, 10, 99, 100, 2 ** 32 - 1, 2 ** 32, 2 ** 63, 2 ** 64 - 1, 2 ** 64, 10 ** 20])
    if r < 0.6:
        return rng.randrange(0, 2 ** rng.choice([8, 16, 32, 40, 64]))
    if r < 0.9:
        return rng.randrange(0, 2 ** rng.choice([65, 128, 200, 512]))
    return rng.randrange(0, 10 ** rng.choice([300, 1000, 2000]))


def rand_file_cap(rng, tag):
    from allmydata import uri
    if tag == "CHK":
        return uri.CHKFileURI(rand_bytes(rng, 16), rand_bytes(rng, 32), rand_nat(rng), rand_nat(rng), rand_nat(rng, True))
    if tag == "CHKV":
        return uri.CHKFileVerifierURI(rand_bytes(rng, 16), rand_bytes(rng, 32), rand_nat(rng), rand_nat(rng), rand_nat(rng, True))
    if tag == "LIT":
        n = rng.choice([0, 1, 2, 3, 4, 5, 6, 7, 9, 10, 11, 15, 20, 54, 55, rng.randrange(0, 80)])
        return uri.LiteralFileURI(rand_bytes(rng, n))
    cls = {"SSK": uri.WriteableSSKFileURI, "SSKRO": uri.ReadonlySSKFileURI, "SSKV": uri.SSKVerifierURI,
           "MDMF": uri.WriteableMDMFFileURI, "MDMFRO": uri.ReadonlyMDMFFileURI, "MDMFV": uri.MDMFVerifierURI}[tag]
    return cls(rand_bytes(rng, 16), rand_bytes(rng, 32))


def rand_cap(rng, tag, is_dir):
    from allmydata import uri
    f = rand_file_cap(rng, tag)
    if not is_dir:
        return f
    cls = [c for t, c, _ in DIR_KINDS if t == tag][0]
    return getattr(uri, cls)(f)


ALL_KINDS = [(t, False) for t, _, _ in FILE_KINDS] + [(t, True) for t, _, _ in DIR_KINDS]


def line_of_cap(c):
    """driver tokens that rebuild the object from its constructor arguments"""
    return describe(c)


# ----------------------------------------------------------------------------- reference grammar

def _b32_canonical(s, nbytes=None):
    """s is exactly the unpadded lower-case RFC 3548 base32 encoding of some byte string (of nbytes bytes)."""
    try:
        t = s.decode("ascii")
    except UnicodeDecodeError:
        return None
    if t != t.lower() or "=" in t:
        return None
    try:
        raw = base64.b32decode(t.upper() + "=" * ((-len(t)) % 8))
    except Exception:
        return None
    if base64.b32encode(raw).rstrip(b"=").lower() != s:
        return None
    if nbytes is not None and len(raw) != nbytes:
        return None
    return raw


def _dec_canonical(s):
    if not s or not s.isdigit() or not all(48 <= ch <= 57 for ch in s):
        return None
    if len(s) > 4000:
        return None
    v = int(s)
    return v if str(v).encode() == s else None


def ref_body(tag, body):
    """fields if `body` is the canonical text after the prefix of a cap of kind `tag`, else None"""
    parts = body.split(b":")
    if tag in ("CHK", "CHKV"):
        if len(parts) != 5:
            return None
        f = [_b32_canonical(parts[0], 16), _b32_canonical(parts[1], 32)] + [_dec_canonical(p) for p in parts[2:]]
    elif tag == "LIT":
        if len(parts) != 1:
            return None
        f = [_b32_canonical(parts[0])]
    else:
        if len(parts) != 2:
            return None
        f = [_b32_canonical(parts[0], 16), _b32_canonical(parts[1], 32)]
    return None if any(x is None for x in f) else f


def strip_alleged(s):
    if s.startswith(b"imm."):
        return b"imm.", s[4:]
    if s.startswith(b"ro."):
        return b"ro.", s[3:]
    return b"", s


def ref_classify(s):
    """For a string without alleged prefix: (F|D, tag, fields, tail_class) where tail_class is
    'exact' (canonical cap string), 'newline' (canonical + one "\\n"), 'mdmf-ext' (MDMF kind followed by
    ':' and anything) — or None if the string is outside the cap grammar."""
    for fd, table in (("F", FILE_KINDS), ("D", DIR_KINDS)):
        for tag, _, prefix in table:
            if s.startswith(prefix):
                body = s[len(prefix):]
                f = ref_body(tag, body)
                if f is not None:
                    return (fd, tag, f, "exact")
                if tag in MDMF_TAGS:
                    parts = body.split(b":", 2)
                    if len(parts) == 3:
                        f = ref_body(tag, parts[0] + b":" + parts[1])
                        if f is not None:
                            return (fd, tag, f, "mdmf-ext")
                if body.endswith(b"\n"):
                    f = ref_body(tag, body[:-1])
                    if f is not None:
                        return (fd, tag, f, "newline")
                return None
    return None


# ----------------------------------------------------------------------------- mutation stream

B32 = b"abcdefghijklmnopqrstuvwxyz234567"
JUNK = [b"\n", b"\n\n", b" ", b"\r\n", b":", b"a", b"q", b"0", b"=", b"\x00", b"junk", b":3:131073", b":\n", b":x\n",
        b"\nURI:LIT:", b"?", b"/", b"%0A", b"\xff"]


def mutate(rng, s):
    """one structural mutation of a cap string; returns (label, mutated)"""
    r = rng.randrange(17)
    if r == 0:
        return "append", s + rng.choice(JUNK)
    if r == 1:
        i = rng.randrange(len(s) + 1)
        return "insert", s[:i] + bytes([rng.choice(B32 + b":0919AZ\n -")]) + s[i:]
    if r == 2 and s:
        i = rng.randrange(len(s))
        return "delete", s[:i] + s[i + 1:]
    if r == 3 and s:
        i = rng.randrange(len(s))
        return "replace", s[:i] + bytes([rng.choice(B32 + b":018AZ=\n")]) + s[i + 1:]
    parts = s.split(b":")
    if r in (4, 5) and len(parts) > 2:
        # wrong base32 tail: change the last character of a base32 field to a non-canonical one
        idx = [i for i in range(2, len(parts)) if parts[i] and not parts[i].isdigit()]
        if idx:
            i = rng.choice(idx)
            parts[i] = parts[i][:-1] + bytes([rng.choice(B32)])
            return "b32-tail", b":".join(parts)
    if r == 6 and len(parts) > 2:
        i = rng.randrange(2, len(parts))
        parts[i] = parts[i] + bytes([rng.choice(B32)]) if rng.random() < 0.5 else parts[i][:-1]
        return "field-length", b":".join(parts)
    if r in (7, 8):
        idx = [i for i in range(2, len(parts)) if parts[i].isdigit()]
        if idx:
            i = rng.choice(idx)
            parts[i] = rng.choice([b"0" + parts[i], b"00" + parts[i], b"+" + parts[i], b"-" + parts[i], b"", parts[i] + b" ",
                                   b"0x10", parts[i] + b".0", "٣".encode(), b"1_0"])
            return "number-form", b":".join(parts)
    if r == 9:
        return "upper", s.upper()
    if r == 10 and len(parts) > 2:
        other = rng.choice(FILE_KINDS + DIR_KINDS)[2]
        return "swap-prefix", other + b":".join(parts[2:])
    if r == 11:
        return "lead", rng.choice([b" ", b"\n", b"URI:", b"x", b"ro.ro.", b"imm.ro.", b"ro.imm.", b"RO.", b"ro", b"imm"]) + s
    if r == 12 and len(parts) > 3:
        i = rng.randrange(2, len(parts))
        return "drop-field", b":".join(parts[:i] + parts[i + 1:])
    if r == 13 and len(parts) > 2:
        i = rng.randrange(2, len(parts) + 1)
        return "extra-field", b":".join(parts[:i] + [rng.choice([b"", b"a", b"1", parts[-1]])] + parts[i:])
    if r == 14:
        return "truncate", s[:rng.randrange(len(s) + 1)]
    if r == 15:
        return "newline", s + b"\n"
    return "append", s + rng.choice(JUNK)


def random_string(rng):
    r = rng.random()
    if r < 0.3:
        n = rng.randrange(0, 40)
        return bytes(rng.randrange(32, 127) for _ in range(n))
    if r < 0.45:
        return bytes(rng.randrange(256) for _ in range(rng.randrange(0, 30)))
    if r < 0.7:
        pre = rng.choice(FILE_KINDS + DIR_KINDS)[2]
        body = b":".join(bytes(rng.choice(B32 + b"019") for _ in range(rng.choice([0, 1, 2, 5, 26, 52])))
                         for _ in range(rng.randrange(0, 6)))
        return pre + body
    if r < 0.85:
        return rng.choice([b"x-tahoe-future-test-writeable:", b"x-tahoe-future-test-mutable:", b"x-tahoe-future-test-",
                           b"x-tahoe-crazy://", b"URI:", b"URI:FOO:", b"URI:DIR2", b"URI:CHK", b"http://", b""]) + \
            bytes(rng.randrange(33, 127) for _ in range(rng.randrange(0, 12)))
    return b"URI:" + bytes(rng.randrange(32, 127) for _ in range(rng.randrange(0, 50)))
