"""C13 — one client serializes operations on a mutable node (mutable/filenode.py _do_serialized,
nodemaker.py memoisation, directory edits through modify())."""
import os

ID = "C13"
LEAN_PROPS = "Tahoe.Props.C13"
DRIVER = "C13"
GENERATED = []
SOURCES = ["src/allmydata/mutable/filenode.py", "src/allmydata/nodemaker.py", "src/allmydata/dirnode.py"]
DESIGN_REF = "DESIGN.md §2 C13"
TECHNIQUE = ("Lean 4 invariant proof over an event-system model of the Deferred-chain serializer (all schedules, any length); "
             "differential correspondence of scripted schedules against MutableFileNode._do_serialized and NodeMaker; "
             "monitor on real concurrent whole-file operations and directory edits on the in-process grid")
LEVEL_TEXT = ("Proved for every event schedule of the model: operations start strictly after every earlier-requested operation "
              "produced its result, a failure never blocks later operations, serialized read-modify-write edits are never lost, "
              "and a mutable cap maps to one node object. The model is tied to the code by replaying seeded schedules on the real "
              "_do_serialized / create_from_cap and comparing event logs. Partial: Twisted's Deferred and foolscap's eventual queue "
              "are modelled, not verified; WeakValueDictionary collection timing is not modelled.")
LEVEL_NOTE = ("Lean kernel + standard axioms; hand-written model of the callback chain; Twisted Deferred semantics and foolscap "
              "eventually() assumed as modelled (sampled by the correspondence run).")
RULE = ("(a) seeded schedules of request/finish/turn events (≤40 events) on a real MutableFileNode._do_serialized with instrumented "
        "callables, log compared with the driver after the whole schedule; (b) seeded create_from_cap call sequences on a real NodeMaker; "
        "(c) batches of real overwrite/modify/download operations and of directory edits issued concurrently on the grid under seeded "
        "delivery orders. A case is one schedule/batch; distinct = distinct schedule text; non-trivial = at least two requests overlap "
        "(a request arrives while another operation is in progress).")
TRUSTED = ["lean/Tahoe/Mutable/Serializer.lean is a hand model of _do_serialized on a model of Twisted's callback chain",
           "harness/grid.py (virtual clock, seeded delivery) when driving real operations"]
ASSUMPTIONS = ["Twisted Deferred: callbacks added to a fired, unpaused Deferred run at once; a callback returning an unfired Deferred pauses the chain",
               "foolscap eventually(): FIFO, runs in a later turn, returns None",
               "serialized callables do not re-enter _do_serialized (the code forbids it)"]


# ----------------------------------------------------------------------------- (a) scripted schedules

def gen_schedule(rng, n):
    ops = []
    nreq = 0
    pending = []       # async ops requested and not yet finished, in request order
    for _ in range(n):
        r = rng.random()
        if r < 0.4 or not (pending or nreq):
            kind = rng.choice(["q", "q", "q", "qo", "qf"])
            ops.append(kind)
            if kind == "q":
                pending.append(nreq)
            nreq += 1
        elif r < 0.8 and pending:
            # only the operation in progress can finish: the first pending one that has started.
            i = pending[0]
            ops.append("f:%d:%s" % (i, rng.choice("oof")))
            pending.pop(0)
        else:
            ops.append("t")
    return ops


def run_schedule_impl(ops):
    """Replay on the real _do_serialized; returns the same text as the driver."""
    import grid
    from twisted.internet import defer
    from twisted.python.failure import Failure
    from allmydata.mutable.filenode import MutableFileNode
    with grid.Runtime(seed=0) as rt:
        node = MutableFileNode(None, None, {"k": 3, "n": 10}, None)
        log = []
        inner = {}
        started = set()
        finished = set()
        content = []
        snap = {}
        nreq = [0]

        def request(kind):
            i = nreq[0]
            nreq[0] += 1

            def cb():
                log.append("S%d" % i)
                started.add(i)
                snap[i] = list(content)
                if kind == "qo":
                    log.append("F%do" % i)
                    finished.add(i)
                    content[:] = snap[i] + [i]
                    return "ok"
                if kind == "qf":
                    log.append("F%df" % i)
                    finished.add(i)
                    raise RuntimeError("sync failure %d" % i)
                d = defer.Deferred()
                inner[i] = d
                return d
            d = node._do_serialized(cb)
            d.addBoth(lambda res: log.append("D%d%s" % (i, "f" if isinstance(res, Failure) else "o")))

        for op in ops:
            if op in ("q", "qo", "qf"):
                request(op)
            elif op == "t":
                rt.clock.advance(0)
            else:
                _, i, r = op.split(":")
                i = int(i)
                if i in inner and i not in finished:
                    finished.add(i)
                    log.append("F%d%s" % (i, r))
                    if r == "o":
                        content[:] = snap[i] + [i]
                        inner[i].callback("ok")
                    else:
                        inner[i].errback(RuntimeError("async failure %d" % i))
        waiting = [i for i in sorted(started) if i not in finished]
        return "%s | %s | %s" % (" ".join(log) or "-", waiting[0] if waiting else "-",
                                 ",".join(map(str, content)) or "-"), log


def monitor_log(ctx, ops, log):
    """The statement, on the real log: no start before all earlier ops finished; request order; failure does not block."""
    fin = set()
    order = []
    for e in log:
        if e[0] == "S":
            j = int(e[1:])
            order.append(j)
            if any(i not in fin for i in range(j)):
                ctx.violation("operation %d started before an earlier-requested operation finished" % j,
                              {"ops": ops, "log": log}, "serializer-overlap")
        elif e[0] == "F":
            fin.add(int(e[1:-1]))
    if order != sorted(order):
        ctx.violation("operations started out of request order", {"ops": ops, "log": log}, "serializer-order")
    # failure does not block: if every started op has finished, every request made must have started
    nreq = sum(1 for o in ops if o[0] == "q")
    if all(i in fin for i in order) and len(order) != nreq:
        ctx.violation("a requested operation never started although nothing was in progress",
                      {"ops": ops, "log": log}, "serializer-blocked")


# ----------------------------------------------------------------------------- (b) NodeMaker memoisation

def nodemaker_cases(ctx, n):
    import grid
    from allmydata import uri
    from allmydata.nodemaker import NodeMaker
    from allmydata.util import hashutil
    caps = []
    for i in range(6):
        wk = hashutil.tagged_hash(b"wk", b"%d" % i)[:16]
        fp = hashutil.tagged_hash(b"fp", b"%d" % i)
        w = uri.WriteableSSKFileURI(wk, fp)
        caps += [(w.to_string(), "m"), (w.get_readonly().to_string(), "m"),
                 (uri.DirectoryURI(w).to_string(), "m"),
                 (uri.WriteableMDMFFileURI(wk, fp).to_string(), "m")]
        caps.append((uri.CHKFileURI(wk, fp, 3, 10, 1000 + i).to_string(), "i"))
        caps.append((uri.LiteralFileURI(b"lit%d" % i).to_string(), "i"))
    caps.append((b"URI:FUTURE:something", "u"))
    lines, impls, cases = [], [], []
    # read-only counterpart of each cap (the hint DirectoryNode passes as `readcap`)
    ro_of = {}
    for (cap, kind) in caps:
        try:
            u = uri.from_string(cap)
            ro_of[cap] = u.get_readonly().to_string() if hasattr(u, "get_readonly") else None
        except Exception:
            ro_of[cap] = None
    for _ in range(n):
        nm = NodeMaker(None, None, None, None, None, {"k": 3, "n": 10}, None, None)
        seq = []
        for _i in range(ctx.rng.randrange(2, 14)):
            (cap, kind) = ctx.rng.choice(caps)
            deep = ctx.rng.random() < 0.15
            # how the cap is handed over: alone as writecap, with its read-only hint (as a parent
            # directory does), or alone as readcap (what a read-only parent does)
            form = ctx.rng.choice(["w", "w", "w+r", "r"])
            seq.append((cap, kind, deep, form))
        ids = {}
        out = []
        keep = []
        toks = []
        for (cap, kind, deep, form) in seq:
            ro = ro_of.get(cap)
            if form == "w+r" and ro:
                w, r = cap, ro
            elif form == "r":
                w, r = None, cap
            else:
                w, r = cap, None
            node = nm.create_from_cap(w, r, deep_immutable=deep)
            keep.append(node)   # keep alive: no weakref collection
            out.append(str(ids.setdefault(id(node), len(ids))))
            k = kind
            if deep and kind == "m":
                k = "u"          # a mutable cap is Unknown in a deep-immutable context
            enc = lambda c: c.decode("ascii").replace(":", "_") if c else "-"
            toks.append("%s:%s:%s:%s" % ("I" if deep else "M", enc(w), enc(r), k))
        seen = {}
        for (cap, kind, deep, form), node in zip(seq, keep):
            if kind == "m" and not deep:
                if (cap, deep) in seen and seen[(cap, deep)] is not node:
                    ctx.violation("two create_from_cap calls with the same mutable cap string gave different node objects "
                                  "(one of them with the read-cap hint a parent directory passes)",
                                  {"seq": [(c.decode(), k, d, f) for c, k, d, f in seq]}, "nodemaker-not-memoised")
                seen.setdefault((cap, deep), node)
        lines.append("nm " + " ".join(toks))
        impls.append(",".join(out))
        cases.append({"seq": toks})
        ctx.case("nm " + " ".join(toks) if len(set(t.split(":")[1] + t.split(":")[2] for t in toks)) < len(toks) else None)
        ctx.count("nodemaker-seq")
    ctx.compare("NodeMaker.create_from_cap object identity", cases, impls, ctx.model(lines))


# ----------------------------------------------------------------------------- (c) real operations on the grid

def grid_batches(ctx, n):
    import grid
    from allmydata.mutable.publish import MutableData
    from allmydata.interfaces import SDMF_VERSION, MDMF_VERSION
    from twisted.python.failure import Failure
    for b in range(n):
        seed = ctx.rng.randrange(1 << 30)
        with grid.Runtime(seed=seed, policy=ctx.rng.choice(["random", "random", "fifo", "lifo"])) as rt:
            g = grid.Grid(grid.fresh_dir("c13"), rt, num_servers=4, k=2, happy=1, n=4)
            try:
                c = g.clients[0]
                version = ctx.rng.choice([SDMF_VERSION, MDMF_VERSION])
                node = rt.wait(c.create_mutable_file(MutableData(b"v0"), version=version))
                log = []
                # instrument the serialized callables on this instance
                for name in ("_download_best_version", "_overwrite", "_upload", "_modify"):
                    orig = getattr(node, name)

                    def make(name=name, orig=orig):
                        def wrapped(*a, **k):
                            tag = (name, len(log))
                            log.append(("S", tag))
                            from twisted.internet import defer
                            d = defer.maybeDeferred(orig, *a, **k)
                            d.addBoth(lambda r: (log.append(("F", tag)), r)[1])
                            return d
                        return wrapped
                    setattr(node, name, make())
                m = ctx.rng.randrange(2, 7)
                expected = b"v0"
                ds = []
                script = []
                for j in range(m):
                    kind = ctx.rng.choice(["overwrite", "modify", "download", "modify-fail", "modify-noop"])
                    script.append(kind)
                    if kind == "overwrite":
                        data = b"ow%d-" % j + bytes([65 + j]) * ctx.rng.randrange(0, 40)
                        ds.append((kind, node.overwrite(MutableData(data)), data))
                        expected = data
                    elif kind == "modify":
                        suffix = b"+m%d" % j
                        ds.append((kind, node.modify(lambda old, sm, first, suffix=suffix: old + suffix), None))
                        expected = expected + suffix
                    elif kind == "modify-noop":
                        ds.append((kind, node.modify(lambda old, sm, first: old), None))
                    elif kind == "modify-fail":
                        def bad(old, sm, first):
                            raise ValueError("modifier failure")
                        ds.append((kind, node.modify(bad), None))
                    else:
                        ds.append((kind, node.download_best_version(), expected))
                results = []
                for (kind, d, want) in ds:
                    try:
                        results.append(("ok", rt.wait(d)))
                    except grid.Stuck:
                        results.append(("stuck", None))
                    except Exception as e:
                        results.append(("err", type(e).__name__))
                case = {"seed": seed, "script": script, "version": version}
                # monitor 1: one at a time, in request order
                open_tag = None
                starts = []
                for (e, tag) in log:
                    if e == "S":
                        if open_tag is not None:
                            ctx.violation("a whole-file operation started before the previous one finished",
                                          dict(case, log=[(e, t[0]) for e, t in log]), "serializer-overlap-real")
                        open_tag = tag
                        starts.append(tag[0])
                    else:
                        open_tag = None
                want_order = [{"overwrite": "_overwrite", "download": "_download_best_version"}.get(k, "_modify") for k in script]
                if starts != want_order:
                    ctx.violation("whole-file operations did not start in request order",
                                  dict(case, starts=starts), "serializer-order-real")
                # monitor 2: failure does not block; results follow sequential semantics
                for (kind, d, want), (st, val) in zip(ds, results):
                    if st == "stuck":
                        ctx.violation("operation never completed (blocked)", case, "serializer-blocked-real")
                    elif kind == "modify-fail":
                        if st != "err":
                            ctx.violation("failing modifier did not produce an error", case, "serializer-fail-real")
                    elif st != "ok":
                        ctx.violation("operation failed unexpectedly: %s" % val, case, "serializer-unexpected-error")
                    elif kind == "download" and val != want:
                        ctx.violation("download_best_version did not see the preceding writes in request order",
                                      dict(case, got=repr(val), want=repr(want)), "serializer-stale-read")
                log_ops = list(log)
                final = rt.wait(node.download_best_version())
                log[:] = log_ops
                if final != expected:
                    ctx.violation("final contents differ from the operations applied in request order",
                                  dict(case, got=repr(final), want=repr(expected)), "serializer-lost-write")
                # correspondence on the start/finish projection
                line = "ser " + " ".join(["q"] * m + ["f:%d:%s" % (i, "f" if script[i] == "modify-fail" else "o") for i in range(m)])
                impl_proj = " ".join("%s%d" % (e, [t for (ee, t) in log if ee == "S"].index(tag)) for (e, tag) in log)
                mo = ctx.model([line])
                if mo is not None:
                    model_proj = " ".join(t[:2] if t[0] == "S" else t[:-1] for t in mo[0].split(" | ")[0].split() if t[0] in "SF")
                    if impl_proj != model_proj:
                        ctx.disagree("start/finish order of real whole-file operations", case, impl_proj, model_proj)
                ctx.case(repr((script, version, seed)))
                ctx.count("grid-batch")
                for k in script:
                    ctx.count("real-op:" + k)

                # directory edits issued concurrently through one client never lose each other's changes
                # both handles are obtained through the capability string (the node returned by
                # create_dirnode() itself is not registered in the NodeMaker cache, and the property
                # speaks of nodes "obtained through the same capability string")
                dn0 = rt.wait(c.create_dirnode())
                dn = c.create_node_from_uri(dn0.get_uri())
                lit = b"URI:LIT:krugkidfnzsc4"
                names = ["n%d" % i for i in range(ctx.rng.randrange(3, 9))]
                dds = [dn.set_uri(nm_, lit, lit) for nm_ in names]
                dele = names[0]
                dds.append(dn.delete(dele))
                # same cap -> same node: edits through a second handle of the same cap string
                dn2 = c.create_node_from_uri(dn.get_uri())
                if dn2 is not dn:
                    ctx.violation("create_node_from_uri(same dircap) returned a node with a different underlying mutable node",
                                  case, "nodemaker-not-memoised-dir")
                # a child directory reached through its parent is the same node as the one made from its cap
                sub = rt.wait(dn.create_subdirectory("sub"))
                via_parent = rt.wait(dn.get("sub"))
                direct = c.create_node_from_uri(sub.get_uri())
                if via_parent is not direct:
                    ctx.violation("a node reached through its parent directory and the node made from the same cap string are different objects",
                                  case, "nodemaker-parent-vs-direct")
                pds = [via_parent.set_uri("p1", lit, lit), direct.set_uri("d1", lit, lit), via_parent.set_uri("p2", lit, lit)]
                for d in pds:
                    try:
                        rt.wait(d)
                    except grid.Stuck:
                        ctx.violation("directory edit never completed", case, "dir-edit-blocked")
                    except Exception as e:
                        ctx.violation("concurrent edit through two handles of one cap failed: %s" % type(e).__name__, case,
                                      "dir-edit-two-handles-failed")
                got = sorted(rt.wait(direct.list()).keys())
                if got != ["d1", "p1", "p2"]:
                    ctx.violation("edits through the parent-derived handle and the direct handle lost a change",
                                  dict(case, got=got), "dir-edit-lost-two-handles")
                # reads are whole-file operations too: a read requested after an edit (without waiting for it)
                # must see that edit, and one requested after a delete must not see the entry
                rnames = ["r%d" % i for i in range(ctx.rng.randrange(1, 4))]
                rds = []
                for rn in rnames:
                    rds.append(("set", rn, direct.set_uri(rn, lit, lit)))
                    kind = ctx.rng.choice(["list", "has", "get"])
                    if kind == "list":
                        rds.append(("list", rn, direct.list()))
                    elif kind == "has":
                        rds.append(("has", rn, direct.has_child(rn)))
                    else:
                        rds.append(("get", rn, direct.get(rn)))
                gone = rnames[0]
                rds.append(("del", gone, direct.delete(gone)))
                rds.append(("has-after-del", gone, direct.has_child(gone)))
                for (kind, rn, d) in rds:
                    try:
                        val = rt.wait(d)
                    except grid.Stuck:
                        ctx.violation("directory operation never completed", case, "dir-edit-blocked")
                        continue
                    except Exception as e:
                        ctx.violation("a read requested after an edit on the same node failed: %s" % type(e).__name__,
                                      dict(case, op=kind, name=rn), "dir-read-not-serialized:" + kind)
                        continue
                    if (kind == "list" and rn not in val) or (kind == "has" and val is not True):
                        ctx.violation("a read requested after an edit on the same node did not see the edit",
                                      dict(case, op=kind, name=rn), "dir-read-not-serialized:" + kind)
                    if kind == "has-after-del" and val is not False:
                        ctx.violation("a read requested after a delete on the same node still saw the entry",
                                      dict(case, op=kind, name=rn), "dir-read-not-serialized:" + kind)
                ctx.count("dir-read-after-edit", len(rds))
                names = names + ["sub"]
                extra = "via-second-handle"
                dds.append(dn2.set_uri(extra, lit, lit))
                for d in dds:
                    try:
                        rt.wait(d)
                    except grid.Stuck:
                        ctx.violation("directory edit never completed", case, "dir-edit-blocked")
                listing = sorted(rt.wait(dn.list()).keys())
                want = sorted(set(names + [extra]) - {dele})
                if listing != want:
                    ctx.violation("concurrent directory edits through one client lost a change",
                                  dict(case, got=listing, want=want), "dir-edit-lost")
                ctx.count("dir-batch")
            finally:
                g.close()


def run(ctx):
    import common
    common.setup_impl_path()
    if ctx.replay and ctx.replay.get("case", {}).get("ops"):
        ops = ctx.replay["case"]["ops"]
        text, log = run_schedule_impl(ops)
        monitor_log(ctx, ops, log)
        ctx.compare("replayed schedule", [{"ops": ops}], [text], ctx.model(["ser " + " ".join(ops)]))
        return
    n = ctx.budget(400, 20000)
    scheds = [gen_schedule(ctx.rng, ctx.rng.choice([3, 8, 15, 40])) for _ in range(n)]
    impls = []
    for ops in scheds:
        text, log = run_schedule_impl(ops)
        impls.append(text)
        monitor_log(ctx, ops, log)
        # non-trivial: some request arrives while an operation is in progress
        overlap = False
        inprog = 0
        for o in ops:
            if o == "q":
                if inprog:
                    overlap = True
                inprog += 1
            elif o.startswith("f:"):
                inprog = max(0, inprog - 1)
        ctx.case(" ".join(ops) if overlap else None)
        for o in ops:
            ctx.count("ev:" + o.split(":")[0])
    ctx.compare("_do_serialized event log (start/finish/deliver), waiting op, content", [{"ops": o} for o in scheds],
                impls, ctx.model(["ser " + " ".join(o) for o in scheds]))
    ctx.sample({"ops": scheds[0], "impl": impls[0]})
    nodemaker_cases(ctx, ctx.budget(100, 3000))
    grid_batches(ctx, ctx.budget(12, 400))
