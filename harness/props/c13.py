"""C13 — one client serializes operations on a mutable node (mutable/filenode.py _do_serialized,
nodemaker.py memoisation, directory edits through modify())."""
import os

ID = "C13"
LEAN_PROPS = "Tahoe.Props.C13"
DRIVER = "C13"
GENERATED = []
SOURCES = ["src/allmydata/mutable/filenode.py", "src/allmydata/nodemaker.py", "src/allmydata/dirnode.py"]
DESIGN_REF = "DESIGN.md §2 C13"
TECHNIQUE = ("Lean 4 invariant proof (19 theorems) over an event-system model of the Deferred-chain serializer -- requests, completions, "
             "colliding attempts of modify()'s retry loop, eventual-queue turns, requests made from inside a running body -- for all "
             "schedules of any length; a NodeMaker memoisation model; a routing table of which file / directory operations enter the "
             "serializer. Differential correspondence: scripted schedules on the real MutableFileNode._do_serialized with the real "
             "MutableFileVersion._modify_and_retry as the callable; create_from_cap sequences on a real NodeMaker; the routing table "
             "against instrumented real nodes. Monitor on real concurrent whole-file operations and directory edits on the in-process "
             "grid, collisions with a second client, and read-only nodes whose first read attempt fails")
LEVEL_TEXT = ("Proved for every event schedule of the model: starts_and_finishes_alternate, serial_order, successes_in_request_order "
              "(one at a time, in request order); no_start_before_last_attempt, no_attempt_after_finish (an operation is all of its "
              "attempts); failed_op_does_not_block and idle_means_all_done for operation bodies that do not enqueue on their own node "
              "(NoInner), no_inner_never_blocked; self_enqueue_deadlocks / self_enqueue_counterexample (a body that does blocks the node "
              "for ever: seed C13-e); no_lost_edit, no_lost_directory_edit (contents = successful modifiers folded in request order); "
              "same_cap_same_node, same_cap_same_node_any_hint, cache_stable (one node object per cap string); "
              "every_node_op_serialized_none_reenters, every_directory_op_serialized, routing_tables_complete (finite routing table, "
              "compared with the code by instrumentation). Correspondence/monitor only: that DirectoryNode keeps using the one file "
              "node; each directory edit as a name-map modifier is C20, competing writers from other clients C12. Not modelled: "
              "WeakValueDictionary collection between two lookups. Twisted's Deferred and foolscap's eventual queue are modelled, not "
              "verified.")
LEVEL_NOTE = ("Lean kernel + standard axioms (propext, Classical.choice, Quot.sound); hand-written model of the callback chain; Twisted "
              "Deferred semantics and foolscap eventually() assumed as modelled (sampled by the correspondence run); no open finding.")
RULE = ("Fixed corpus first: read-only nodes (file, directory) whose first read attempt fails, 2-3 concurrent reads + a later read + a read "
        "after restoring the shares; the routing table against instrumented nodes; four fixed schedules. Then: (a) seeded schedules of "
        "request / finish / turn / colliding-attempt / give-up / request-from-inside events (<=40 events) on a real "
        "MutableFileNode._do_serialized, log compared with the driver after the whole schedule; (b) seeded create_from_cap call "
        "sequences on a real NodeMaker; (c) batches of real overwrite/modify/download operations and of directory edits issued "
        "concurrently on the grid under seeded delivery orders; (d) two clients: client A requests 2-4 operations back to back on one "
        "node, the share writes of one of them are held while client B completes a competing write, then released "
        "(UncoordinatedWriteError, default BackoffAgent on the virtual clock), policies random/fifo/lifo: modifier invocations, map "
        "updates, retrieves, publishes, inner and caller-visible completions are recorded; the shares on disk at the moment an "
        "operation reports success are read back by a fresh client; (e) seeded read-only retry scenarios. A case is one "
        "schedule/batch/scenario; distinct = distinct schedule text or parameters; non-trivial = at least two requests overlap.")
TRUSTED = ["lean/Tahoe/Mutable/Serializer.lean is a hand model of _do_serialized on a model of Twisted's callback chain",
           "harness/grid.py (virtual clock, seeded delivery) when driving real operations",
           "the instrumentation wrappers around real node methods in this module"]
ASSUMPTIONS = ["Twisted Deferred: callbacks added to a fired, unpaused Deferred run at once; a callback returning an unfired Deferred pauses the chain",
               "foolscap eventually(): FIFO, runs in a later turn, returns None",
               "failed_op_does_not_block: no operation body enqueues on its own node's serializer and waits (NoInner); for the real "
               "operations this is the routing table's bodyEnqueues column, compared with the code by instrumentation",
               "no garbage collection of the node cache between two lookups of one cap string"]


# ----------------------------------------------------------------------------- (a) scripted schedules

def gen_schedule(rng, n):
    ops = []
    nreq = 0
    pending = []       # async ops requested and not yet finished, in request order
    for _ in range(n):
        r = rng.random()
        if r < 0.4 or not (pending or nreq):
            kind = rng.choice(["q", "q", "q", "qo", "qf"])
            ops.append(kind)
            if kind == "q":
                pending.append(nreq)
            nreq += 1
        elif r < 0.8 and pending:
            # only the operation in progress can finish: the first pending one that has started.
            i = pending[0]
            x = rng.random()
            if x < 0.04:
                ops.append("i:%d" % i)          # its body requests another serialized op on the node and waits for it (forbidden)
                pending.append(nreq)
                nreq += 1
            elif x < 0.3:
                ops.append("r:%d" % i)          # its current attempt collides; the next attempt begins
            elif x < 0.38:
                ops.append("u:%d" % i)          # its current attempt collides and the backoffer gives up
                pending.pop(0)
            else:
                ops.append("f:%d:%s" % (i, rng.choice("oof")))
                pending.pop(0)
        else:
            ops.append("t")
    return ops


def run_schedule_impl(ops):
    """Replay on the real _do_serialized; returns the same text as the driver.  An asynchronous request's
    callable is the real MutableFileVersion._modify_and_retry (retry loop of modify(), hence of every
    directory edit) on a version object whose map update and single attempt (`_modify_once`) are
    scripted: `f:i:o|f` ends the current attempt of op i with success / another error, `r:i` with
    UncoordinatedWriteError followed by a backoff that lets it try again, `u:i` with
    UncoordinatedWriteError and a backoffer that gives up.  S = callable invoked, R = a further attempt
    begins, F = the Deferred the callable returned fires (observed), D = the caller's Deferred fires."""
    import grid
    from twisted.internet import defer
    from twisted.python.failure import Failure
    from allmydata.mutable.filenode import MutableFileNode, MutableFileVersion
    from allmydata.mutable.common import UncoordinatedWriteError

    class _Map:
        def best_recoverable_version(self):
            return ("verinfo",)

    with grid.Runtime(seed=0) as rt:
        node = MutableFileNode(None, None, {"k": 3, "n": 10}, None)
        log = []
        inner = {}
        started = set()
        finished = set()
        giveup = {}
        waits_for = {}     # op -> ops requested from inside its body whose results it waits for
        content = []
        snap = {}
        nreq = [0]

        def request(kind):
            i = nreq[0]
            nreq[0] += 1

            def finished_cb(res):
                finished.add(i)
                if isinstance(res, Failure):
                    log.append("F%df" % i)
                else:
                    log.append("F%do" % i)
                    content[:] = snap[i] + [i]
                return res

            def cb():
                log.append("S%d" % i)
                started.add(i)
                snap[i] = list(content)
                if kind == "qo":
                    log.append("F%do" % i)
                    finished.add(i)
                    content[:] = snap[i] + [i]
                    return "ok"
                if kind == "qf":
                    log.append("F%df" % i)
                    finished.add(i)
                    raise RuntimeError("sync failure %d" % i)
                v = MutableFileVersion.__new__(MutableFileVersion)
                v._servermap = _Map()
                v._update_servermap = lambda mode=None, update_range=None: defer.succeed(None)

                def modify_once(modifier, first_time):
                    if not first_time:
                        log.append("R%d" % i)
                        snap[i] = list(content)
                    d = defer.Deferred()
                    inner[i] = d
                    return d
                v._modify_once = modify_once

                def backoffer(n, f):
                    return f if giveup.get(i) else defer.succeed(None)
                d = v._modify_and_retry(lambda old, sm, first: old, backoffer, True)
                d.addBoth(finished_cb)
                return d
            d = node._do_serialized(cb)
            d.addBoth(lambda res: log.append("D%d%s" % (i, "f" if isinstance(res, Failure) else "o")))
            return i

        for op in ops:
            if op in ("q", "qo", "qf"):
                request(op)
            elif op == "t":
                rt.clock.advance(0)
            else:
                t = op.split(":")
                i = int(t[1])
                if t[0] == "i":
                    # the body of op i (in progress) calls _do_serialized on its own node and will not finish before that
                    # operation did: the real chain is paused on op i, so the new callable must not run
                    if i in inner and i not in finished and not inner[i].called:
                        waits_for.setdefault(i, []).append(request("q"))
                    continue
                if t[0] in "fu" and any(j not in finished for j in waits_for.get(i, [])):
                    continue            # its inner Deferred cannot fire yet
                if i in inner and i not in finished and not inner[i].called:
                    if t[0] == "f" and t[2] == "o":
                        inner[i].callback("ok")
                    elif t[0] == "f":
                        inner[i].errback(RuntimeError("async failure %d" % i))
                    else:
                        giveup[i] = (t[0] == "u")
                        inner[i].errback(UncoordinatedWriteError())
        waiting = [i for i in sorted(started) if i not in finished]
        return "%s | %s | %s" % (" ".join(log) or "-", waiting[0] if waiting else "-",
                                 ",".join(map(str, content)) or "-"), log


def monitor_log(ctx, ops, log):
    """The statement, on the real log: no start before all earlier ops finished; request order; failure does not block."""
    fin = set()
    order = []
    for e in log:
        if e[0] == "S":
            j = int(e[1:])
            order.append(j)
            if any(i not in fin for i in range(j)):
                ctx.violation("operation %d started before an earlier-requested operation finished" % j,
                              {"ops": ops, "log": log}, "serializer-overlap")
        elif e[0] == "F":
            fin.add(int(e[1:-1]))
        elif e[0] == "R":
            j = int(e[1:])
            if j in fin:
                ctx.violation("operation %d reported its result and then made a further attempt (it was not finished)" % j,
                              {"ops": ops, "log": log}, "op-active-after-completion")
            elif j not in order:
                ctx.violation("an attempt of operation %d ran before the operation was started" % j,
                              {"ops": ops, "log": log}, "serializer-overlap")
    if order != sorted(order):
        ctx.violation("operations started out of request order", {"ops": ops, "log": log}, "serializer-order")
    # failure does not block: if every started op has finished, every request made must have started
    nreq = sum(1 for o in ops if o[0] == "q")
    if any(o.startswith("i:") for o in ops):
        return      # a body that waits for its own node's queue: everything behind it is blocked by construction (Lean: self_enqueue_deadlocks)
    if all(i in fin for i in order) and len(order) != nreq:
        ctx.violation("a requested operation never started although nothing was in progress",
                      {"ops": ops, "log": log}, "serializer-blocked")


# ----------------------------------------------------------------------------- (b) NodeMaker memoisation

def nodemaker_cases(ctx, n):
    import grid
    from allmydata import uri
    from allmydata.nodemaker import NodeMaker
    from allmydata.util import hashutil
    caps = []
    for i in range(6):
        wk = hashutil.tagged_hash(b"wk", b"%d" % i)[:16]
        fp = hashutil.tagged_hash(b"fp", b"%d" % i)
        w = uri.WriteableSSKFileURI(wk, fp)
        caps += [(w.to_string(), "m"), (w.get_readonly().to_string(), "m"),
                 (uri.DirectoryURI(w).to_string(), "m"),
                 (uri.WriteableMDMFFileURI(wk, fp).to_string(), "m")]
        caps.append((uri.CHKFileURI(wk, fp, 3, 10, 1000 + i).to_string(), "i"))
        caps.append((uri.LiteralFileURI(b"lit%d" % i).to_string(), "i"))
    caps.append((b"URI:FUTURE:something", "u"))
    lines, impls, cases = [], [], []
    # read-only counterpart of each cap (the hint DirectoryNode passes as `readcap`)
    ro_of = {}
    for (cap, kind) in caps:
        try:
            u = uri.from_string(cap)
            ro_of[cap] = u.get_readonly().to_string() if hasattr(u, "get_readonly") else None
        except Exception:
            ro_of[cap] = None
    for _ in range(n):
        nm = NodeMaker(None, None, None, None, None, {"k": 3, "n": 10}, None, None)
        seq = []
        for _i in range(ctx.rng.randrange(2, 14)):
            (cap, kind) = ctx.rng.choice(caps)
            deep = ctx.rng.random() < 0.15
            # how the cap is handed over: alone as writecap, with its read-only hint (as a parent
            # directory does), or alone as readcap (what a read-only parent does)
            form = ctx.rng.choice(["w", "w", "w+r", "r"])
            seq.append((cap, kind, deep, form))
        ids = {}
        out = []
        keep = []
        toks = []
        for (cap, kind, deep, form) in seq:
            ro = ro_of.get(cap)
            if form == "w+r" and ro:
                w, r = cap, ro
            elif form == "r":
                w, r = None, cap
            else:
                w, r = cap, None
            node = nm.create_from_cap(w, r, deep_immutable=deep)
            keep.append(node)   # keep alive: no weakref collection
            out.append(str(ids.setdefault(id(node), len(ids))))
            k = kind
            if deep and kind == "m":
                k = "u"          # a mutable cap is Unknown in a deep-immutable context
            enc = lambda c: c.decode("ascii").replace(":", "_") if c else "-"
            toks.append("%s:%s:%s:%s" % ("I" if deep else "M", enc(w), enc(r), k))
        seen = {}
        for (cap, kind, deep, form), node in zip(seq, keep):
            if kind == "m" and not deep:
                if (cap, deep) in seen and seen[(cap, deep)] is not node:
                    ctx.violation("two create_from_cap calls with the same mutable cap string gave different node objects "
                                  "(one of them with the read-cap hint a parent directory passes)",
                                  {"seq": [(c.decode(), k, d, f) for c, k, d, f in seq]}, "nodemaker-not-memoised")
                seen.setdefault((cap, deep), node)
        lines.append("nm " + " ".join(toks))
        impls.append(",".join(out))
        cases.append({"seq": toks})
        ctx.case("nm " + " ".join(toks) if len(set(t.split(":")[1] + t.split(":")[2] for t in toks)) < len(toks) else None)
        ctx.count("nodemaker-seq")
    ctx.compare("NodeMaker.create_from_cap object identity", cases, impls, ctx.model(lines))


# ----------------------------------------------------------------------------- (c) real operations on the grid

def grid_batches(ctx, n):
    import grid
    from allmydata.mutable.publish import MutableData
    from allmydata.interfaces import SDMF_VERSION, MDMF_VERSION
    from twisted.python.failure import Failure
    for b in range(n):
        seed = ctx.rng.randrange(1 << 30)
        with grid.Runtime(seed=seed, policy=ctx.rng.choice(["random", "random", "fifo", "lifo"])) as rt:
            g = grid.Grid(grid.fresh_dir("c13"), rt, num_servers=4, k=2, happy=1, n=4)
            try:
                c = g.clients[0]
                version = ctx.rng.choice([SDMF_VERSION, MDMF_VERSION])
                node = rt.wait(c.create_mutable_file(MutableData(b"v0"), version=version))
                log = []
                # instrument the serialized callables on this instance
                for name in ("_download_best_version", "_overwrite", "_upload", "_modify"):
                    orig = getattr(node, name)

                    def make(name=name, orig=orig):
                        def wrapped(*a, **k):
                            tag = (name, len(log))
                            log.append(("S", tag))
                            from twisted.internet import defer
                            d = defer.maybeDeferred(orig, *a, **k)
                            d.addBoth(lambda r: (log.append(("F", tag)), r)[1])
                            return d
                        return wrapped
                    setattr(node, name, make())
                m = ctx.rng.randrange(2, 7)
                expected = b"v0"
                ds = []
                script = []
                for j in range(m):
                    kind = ctx.rng.choice(["overwrite", "modify", "download", "modify-fail", "modify-noop"])
                    script.append(kind)
                    if kind == "overwrite":
                        data = b"ow%d-" % j + bytes([65 + j]) * ctx.rng.randrange(0, 40)
                        ds.append((kind, node.overwrite(MutableData(data)), data))
                        expected = data
                    elif kind == "modify":
                        suffix = b"+m%d" % j
                        ds.append((kind, node.modify(lambda old, sm, first, suffix=suffix: old + suffix), None))
                        expected = expected + suffix
                    elif kind == "modify-noop":
                        ds.append((kind, node.modify(lambda old, sm, first: old), None))
                    elif kind == "modify-fail":
                        def bad(old, sm, first):
                            raise ValueError("modifier failure")
                        ds.append((kind, node.modify(bad), None))
                    else:
                        ds.append((kind, node.download_best_version(), expected))
                results = []
                for (kind, d, want) in ds:
                    try:
                        results.append(("ok", rt.wait(d)))
                    except grid.Stuck:
                        results.append(("stuck", None))
                    except Exception as e:
                        results.append(("err", type(e).__name__))
                case = {"seed": seed, "script": script, "version": version}
                # monitor 1: one at a time, in request order
                open_tag = None
                starts = []
                for (e, tag) in log:
                    if e == "S":
                        if open_tag is not None:
                            ctx.violation("a whole-file operation started before the previous one finished",
                                          dict(case, log=[(e, t[0]) for e, t in log]), "serializer-overlap-real")
                        open_tag = tag
                        starts.append(tag[0])
                    else:
                        open_tag = None
                want_order = [{"overwrite": "_overwrite", "download": "_download_best_version"}.get(k, "_modify") for k in script]
                if starts != want_order:
                    ctx.violation("whole-file operations did not start in request order",
                                  dict(case, starts=starts), "serializer-order-real")
                # monitor 2: failure does not block; results follow sequential semantics
                for (kind, d, want), (st, val) in zip(ds, results):
                    if st == "stuck":
                        ctx.violation("operation never completed (blocked)", case, "serializer-blocked-real")
                    elif kind == "modify-fail":
                        if st != "err":
                            ctx.violation("failing modifier did not produce an error", case, "serializer-fail-real")
                    elif st != "ok":
                        ctx.violation("operation failed unexpectedly: %s" % val, case, "serializer-unexpected-error")
                    elif kind == "download" and val != want:
                        ctx.violation("download_best_version did not see the preceding writes in request order",
                                      dict(case, got=repr(val), want=repr(want)), "serializer-stale-read")
                log_ops = list(log)
                final = rt.wait(node.download_best_version())
                log[:] = log_ops
                if final != expected:
                    ctx.violation("final contents differ from the operations applied in request order",
                                  dict(case, got=repr(final), want=repr(expected)), "serializer-lost-write")
                # correspondence on the start/finish projection
                line = "ser " + " ".join(["q"] * m + ["f:%d:%s" % (i, "f" if script[i] == "modify-fail" else "o") for i in range(m)])
                impl_proj = " ".join("%s%d" % (e, [t for (ee, t) in log if ee == "S"].index(tag)) for (e, tag) in log)
                mo = ctx.model([line])
                if mo is not None:
                    model_proj = " ".join(t[:2] if t[0] == "S" else t[:-1] for t in mo[0].split(" | ")[0].split() if t[0] in "SF")
                    if impl_proj != model_proj:
                        ctx.disagree("start/finish order of real whole-file operations", case, impl_proj, model_proj)
                ctx.case(repr((script, version, seed)))
                ctx.count("grid-batch")
                for k in script:
                    ctx.count("real-op:" + k)

                # directory edits issued concurrently through one client never lose each other's changes
                # both handles are obtained through the capability string (the node returned by
                # create_dirnode() itself is not registered in the NodeMaker cache, and the property
                # speaks of nodes "obtained through the same capability string")
                dn0 = rt.wait(c.create_dirnode())
                dn = c.create_node_from_uri(dn0.get_uri())
                lit = b"URI:LIT:krugkidfnzsc4"
                names = ["n%d" % i for i in range(ctx.rng.randrange(3, 9))]
                dds = [dn.set_uri(nm_, lit, lit) for nm_ in names]
                dele = names[0]
                dds.append(dn.delete(dele))
                # same cap -> same node: edits through a second handle of the same cap string
                dn2 = c.create_node_from_uri(dn.get_uri())
                if dn2 is not dn:
                    ctx.violation("create_node_from_uri(same dircap) returned a node with a different underlying mutable node",
                                  case, "nodemaker-not-memoised-dir")
                # a child directory reached through its parent is the same node as the one made from its cap
                sub = rt.wait(dn.create_subdirectory("sub"))
                via_parent = rt.wait(dn.get("sub"))
                direct = c.create_node_from_uri(sub.get_uri())
                if via_parent is not direct:
                    ctx.violation("a node reached through its parent directory and the node made from the same cap string are different objects",
                                  case, "nodemaker-parent-vs-direct")
                pds = [via_parent.set_uri("p1", lit, lit), direct.set_uri("d1", lit, lit), via_parent.set_uri("p2", lit, lit)]
                for d in pds:
                    try:
                        rt.wait(d)
                    except grid.Stuck:
                        ctx.violation("directory edit never completed", case, "dir-edit-blocked")
                    except Exception as e:
                        ctx.violation("concurrent edit through two handles of one cap failed: %s" % type(e).__name__, case,
                                      "dir-edit-two-handles-failed")
                got = sorted(rt.wait(direct.list()).keys())
                if got != ["d1", "p1", "p2"]:
                    ctx.violation("edits through the parent-derived handle and the direct handle lost a change",
                                  dict(case, got=got), "dir-edit-lost-two-handles")
                # reads are whole-file operations too: a read requested after an edit (without waiting for it)
                # must see that edit, and one requested after a delete must not see the entry
                rnames = ["r%d" % i for i in range(ctx.rng.randrange(1, 4))]
                rds = []
                for rn in rnames:
                    rds.append(("set", rn, direct.set_uri(rn, lit, lit)))
                    kind = ctx.rng.choice(["list", "has", "get"])
                    if kind == "list":
                        rds.append(("list", rn, direct.list()))
                    elif kind == "has":
                        rds.append(("has", rn, direct.has_child(rn)))
                    else:
                        rds.append(("get", rn, direct.get(rn)))
                gone = rnames[0]
                rds.append(("del", gone, direct.delete(gone)))
                rds.append(("has-after-del", gone, direct.has_child(gone)))
                for (kind, rn, d) in rds:
                    try:
                        val = rt.wait(d)
                    except grid.Stuck:
                        ctx.violation("directory operation never completed", case, "dir-edit-blocked")
                        continue
                    except Exception as e:
                        ctx.violation("a read requested after an edit on the same node failed: %s" % type(e).__name__,
                                      dict(case, op=kind, name=rn), "dir-read-not-serialized:" + kind)
                        continue
                    if (kind == "list" and rn not in val) or (kind == "has" and val is not True):
                        ctx.violation("a read requested after an edit on the same node did not see the edit",
                                      dict(case, op=kind, name=rn), "dir-read-not-serialized:" + kind)
                    if kind == "has-after-del" and val is not False:
                        ctx.violation("a read requested after a delete on the same node still saw the entry",
                                      dict(case, op=kind, name=rn), "dir-read-not-serialized:" + kind)
                ctx.count("dir-read-after-edit", len(rds))
                names = names + ["sub"]
                extra = "via-second-handle"
                dds.append(dn2.set_uri(extra, lit, lit))
                for d in dds:
                    try:
                        rt.wait(d)
                    except grid.Stuck:
                        ctx.violation("directory edit never completed", case, "dir-edit-blocked")
                listing = sorted(rt.wait(dn.list()).keys())
                want = sorted(set(names + [extra]) - {dele})
                if listing != want:
                    ctx.violation("concurrent directory edits through one client lost a change",
                                  dict(case, got=listing, want=want), "dir-edit-lost")
                ctx.count("dir-batch")
            finally:
                g.close()


# ----------------------------------------------------------------------------- (d) collisions with another client

WRITE = "slot_testv_and_readv_and_writev"
LIT = b"URI:LIT:krugkidfnzsc4"


def gen_collision_params(rng, kind, policy):
    m = rng.randrange(2, 5)
    ops = []
    if kind == "file":
        for j in range(m):
            ops.append(rng.choice(["modify", "modify", "modify", "modify-fail", "download"]))
        publishing = [j for j, o in enumerate(ops) if o == "modify"]
    else:
        names = []
        for j in range(m):
            r = rng.random()
            if r < 0.5 or not names:
                nm = "a%d" % rng.randrange(3)
                ops.append("set:" + nm)
                names.append(nm)
            elif r < 0.8:
                ops.append("delete:" + rng.choice(names))       # possibly already deleted: then it must fail
            elif r < 0.9:
                ops.append("delete:nosuch")                     # fails; must not block the rest
            else:
                ops.append("list")
        publishing = [j for j, o in enumerate(ops) if o.startswith("set:")]
    if not publishing:
        ops[0] = "modify" if kind == "file" else "set:a0"
        publishing = [0]
    # mostly the first operation collides (later ones are then already queued behind it)
    collide_at = publishing[0] if rng.random() < 0.7 else rng.choice(publishing)
    return {"kind": kind, "policy": policy, "seed": rng.randrange(1 << 30), "ops": ops, "collide_at": collide_at,
            "mdmf": rng.random() < 0.3}


def collision_scenario(ctx, prm):
    """Client A requests prm["ops"] back to back on ONE node object; when the share writes of operation
    `collide_at` are in the network they are held back while client B completes a write of its own to
    the same file / directory, then released: A's publish fails with UncoordinatedWriteError and
    modify() goes round its retry loop (the default BackoffAgent's timer runs on the virtual clock).
    Checked, from the statement only: one at a time in request order, each operation's extent
    includes all of its attempts; success is reported only once the edit is on the grid; a failed
    operation does not block; the final contents are the successful edits in request order."""
    import grid
    from twisted.internet import defer
    from twisted.python.failure import Failure
    from allmydata import uri
    from allmydata.dirnode import DirectoryNode
    from allmydata.mutable.filenode import MutableFileNode
    from allmydata.mutable.publish import MutableData, Publish
    from allmydata.mutable.servermap import ServermapUpdater
    from allmydata.mutable.retrieve import Retrieve
    from allmydata.interfaces import SDMF_VERSION, MDMF_VERSION
    kind, ops = prm["kind"], prm["ops"]
    m = len(ops)
    patched = []
    with grid.Runtime(seed=prm["seed"], policy=prm["policy"]) as rt:
        g = grid.Grid(grid.fresh_dir("c13x"), rt, num_servers=5, num_clients=3, k=2, happy=2, n=4)
        try:
            A, B, C = g.clients
            version = MDMF_VERSION if prm["mdmf"] else SDMF_VERSION
            if kind == "file":
                first = rt.wait(A.create_mutable_file(MutableData(b"base"), version=version))
                cap = first.get_uri()
                hA = A.create_node_from_uri(cap)
                nodeA = hA
                hB = B.create_node_from_uri(cap)
                filecap = cap
            else:
                first = rt.wait(A.create_dirnode())
                cap = first.get_uri()
                hA = A.create_node_from_uri(cap)
                rt.wait(hA.set_uri("keep", LIT, LIT))
                nodeA = hA._node
                hB = B.create_node_from_uri(cap)
                filecap = uri.from_string(cap).get_filenode_cap().to_string()
            si = nodeA.get_storage_index()

            def fresh_reader():
                n = MutableFileNode(C.storage_broker, C._secret_holder, C.get_encoding_parameters(), C.history)
                n.init_from_cap(uri.from_string(filecap))
                return n if kind == "file" else DirectoryNode(n, C.nodemaker, None)

            def read_fresh():
                r = fresh_reader()
                if kind == "file":
                    return rt.wait(r.download_best_version())
                return sorted(rt.wait(r.list()).keys())

            log = []            # ("S"|"F"|"D", i, ok?) | ("M", i) | ("A", what)
            cur = [None]
            snaps = {}

            orig_ser = nodeA._do_serialized

            def do_serialized(cb, *a, **k):
                i = cur[0]

                def cb2(*a2, **k2):
                    log.append(("S", i))
                    d = defer.maybeDeferred(cb, *a2, **k2)
                    d.addBoth(lambda r: (log.append(("F", i, not isinstance(r, Failure))), r)[1])
                    return d
                d = orig_ser(cb2, *a, **k)

                def delivered(r):
                    ok = not isinstance(r, Failure)
                    log.append(("D", i, ok))
                    if ok:
                        # what is on the servers' disks at the moment the caller is told "done"
                        snaps[i] = {p: open(p, "rb").read() for (_s, _sh, p) in g.share_files(si)}
                    return r
                d.addBoth(delivered)
                return d
            nodeA._do_serialized = do_serialized
            orig_modify = nodeA.modify

            def modify(modifier, backoffer=None):
                i = cur[0]

                def m2(old, servermap, first_time):
                    log.append(("M", i))
                    return modifier(old, servermap, first_time)
                return orig_modify(m2, backoffer)
            nodeA.modify = modify

            def patch(cls, name, what):
                orig = getattr(cls, name)

                def wrapped(self, *a, **k):
                    if getattr(self, "_node", None) is nodeA:
                        log.append(("A", what))
                    return orig(self, *a, **k)
                setattr(cls, name, wrapped)
                patched.append((cls, name, orig))
            patch(ServermapUpdater, "update", "mapupdate")
            patch(Publish, "publish", "publish")
            patch(Publish, "update", "publish")
            patch(Retrieve, "download", "retrieve")

            # --- the requests, back to back
            ds = []
            for i, op in enumerate(ops):
                cur[0] = i
                if op == "modify":
                    tok = b"<%d>" % i
                    ds.append(hA.modify(lambda old, sm, first, tok=tok: old if tok in old else old + tok))
                elif op == "modify-fail":
                    def bad(old, sm, first):
                        raise ValueError("modifier failure")
                    ds.append(hA.modify(bad))
                elif op == "download":
                    ds.append(hA.download_best_version())
                elif op.startswith("set:"):
                    ds.append(hA.set_uri(op[4:], LIT, LIT))
                elif op.startswith("delete:"):
                    ds.append(hA.delete(op[7:]))
                else:
                    ds.append(hA.list())
            cur[0] = None

            # --- the collision
            collided = False
            for _ in range(200000):
                if ("S", prm["collide_at"]) in log and any(lbl and lbl[1] == WRITE for (lbl, _d) in rt.pending):
                    collided = True
                    break
                if not rt.step():
                    break
            if collided:
                held, rt.pending = rt.pending, []
                if kind == "file":
                    rt.wait(hB.modify(lambda old, sm, first: old if b"<B>" in old else old + b"<B>"))
                else:
                    rt.wait(hB.set_uri("from-B", LIT, LIT))
                rt.pending = held + rt.pending
            ctx.count("collision:%s:%s" % (kind, "yes" if collided else "no"))

            results = []
            for d in ds:
                try:
                    results.append(("ok", rt.wait(d)))
                except grid.Stuck:
                    results.append(("stuck", None))
                except Exception as e:
                    results.append(("err", type(e).__name__))
            # anything still going on in the background runs out here (timers: up to 10 virtual minutes)
            rt.pump(horizon=rt.clock.seconds() + 600.0)
            for (cls, name, orig) in patched:
                setattr(cls, name, orig)
            del patched[:]
            nodeA._do_serialized = orig_ser
            nodeA.modify = orig_modify

            shown = [e[0] + ("" if e[0] == "A" else str(e[1])) + ("" if len(e) < 3 else ("o" if e[2] else "f")) if e[0] != "A"
                     else "A:" + e[1] for e in log]
            case = {"family": "collision", "params": prm, "log": shown, "results": [(st, v if st != "ok" else None) for st, v in results]}

            # --- (1) one at a time, in request order; every attempt inside the operation's extent
            pos = {}
            for p_, e in enumerate(log):
                if e[0] in "SFD":
                    pos.setdefault((e[0], e[1]), p_)
            starts = [e[1] for e in log if e[0] == "S"]
            if starts != sorted(starts) or len(set(starts)) != len(starts):
                ctx.violation("operations did not start in request order", case, "serializer-order-real")
            for j in starts:
                for i in range(j):
                    if ("F", i) not in pos or pos[("F", i)] > pos[("S", j)]:
                        ctx.violation("operation %d started before operation %d finished" % (j, i), case, "serializer-overlap-real")
                        break
            for p_, e in enumerate(log):
                if e[0] == "M":
                    j = e[1]
                    if ("F", j) in pos and pos[("F", j)] < p_ or ("D", j) in pos and pos[("D", j)] < p_:
                        ctx.violation("operation %d reported completion and then ran its modifier again (it was not finished)" % j,
                                      case, "op-active-after-completion")
                        break
                    if any(("F", i) not in pos or pos[("F", i)] > p_ for i in range(j)):
                        ctx.violation("operation %d ran its modifier before an earlier-requested operation finished" % j,
                                      case, "serializer-overlap-real")
                        break
                elif e[0] == "A":
                    open_ops = [j for j in starts if pos[("S", j)] < p_ and not (("F", j) in pos and pos[("F", j)] < p_)]
                    if not open_ops:
                        ctx.violation("the node ran a %s although every operation started so far had reported completion" % e[1],
                                      case, "op-active-after-completion")
                        break

            # --- failure does not block; outcomes follow request order
            ref_tokens, ref_names = [], {"keep"}
            expected_ok = []
            for i, op in enumerate(ops):
                if op == "modify":
                    expected_ok.append(True)
                elif op == "modify-fail":
                    expected_ok.append(False)
                elif op.startswith("delete:"):
                    expected_ok.append(op[7:] in ref_names)
                else:
                    expected_ok.append(True)
                (st, val) = results[i]
                if st == "stuck":
                    ctx.violation("operation never completed (blocked)", case, "serializer-blocked-real")
                    continue
                if (st == "ok") != expected_ok[i]:
                    ctx.violation("operation %d (%s) %s, which is not its outcome when the operations run one at a time in request order"
                                  % (i, op, "succeeded" if st == "ok" else "failed: %s" % val), case,
                                  "serializer-unexpected-error" if st != "ok" else "serializer-unexpected-success")
                if st == "ok":
                    if op == "modify":
                        ref_tokens.append(b"<%d>" % i)
                    elif op.startswith("set:"):
                        ref_names.add(op[4:])
                    elif op.startswith("delete:"):
                        ref_names.discard(op[7:])
                    elif op == "download":
                        import re
                        got = re.findall(rb"<\d+>", val)
                        if got != ref_tokens:
                            ctx.violation("download_best_version did not see exactly the edits requested before it",
                                          dict(case, got=repr(val)), "serializer-stale-read")
                    elif op == "list":
                        got = sorted(k for k in val.keys() if k != "from-B")
                        if got != sorted(ref_names):
                            ctx.violation("list() did not see exactly the edits requested before it", dict(case, got=got),
                                          "dir-read-not-serialized:list")

            # --- (3) final contents = the successful edits in request order
            final = read_fresh()
            if kind == "file":
                import re
                if re.findall(rb"<\d+>", final) != ref_tokens:
                    ctx.violation("final contents differ from the successful edits applied in request order",
                                  dict(case, got=repr(final), want=[t.decode() for t in ref_tokens]), "serializer-lost-write")
                ctx.count("collision:B-edit-%s" % ("kept" if b"<B>" in final else "absent"))
            else:
                if sorted(k for k in final if k != "from-B") != sorted(ref_names):
                    ctx.violation("concurrent directory edits through one client lost a change",
                                  dict(case, got=final, want=sorted(ref_names)), "dir-edit-lost")
                ctx.count("collision:B-edit-%s" % ("kept" if "from-B" in final else "absent"))

            # --- (2) when an operation reported success its edit was readable by a fresh client at that moment
            live = {p: open(p, "rb").read() for (_s, _sh, p) in g.share_files(si)}
            for i in sorted(snaps):
                op = ops[i]
                if op in ("download", "list"):
                    continue
                for p in live:
                    if p not in snaps[i]:
                        os.unlink(p)
                for p, raw in snaps[i].items():
                    with open(p, "wb") as fh:
                        fh.write(raw)
                try:
                    seen = read_fresh()
                except Exception as e:
                    seen = None
                    ctx.violation("operation %d (%s) reported success but the file was not readable at that moment: %s"
                                  % (i, op, type(e).__name__), case, "success-reported-before-edit-readable")
                    continue
                good = (b"<%d>" % i in seen) if op == "modify" else (op[4:] in seen) if op.startswith("set:") \
                    else (op[7:] not in seen)
                if not good:
                    ctx.violation("operation %d (%s) reported success but a fresh client reading at that moment does not see its edit"
                                  % (i, op), dict(case, seen=repr(seen)), "success-reported-before-edit-readable")
            # --- correspondence: start / further attempt / finish order against the model
            toks, line_ops = [], ["q"] * m
            seen_m = set()
            for e in log:
                if e[0] == "S":
                    toks.append("S%d" % e[1])
                elif e[0] == "F":
                    toks.append("F%d%s" % (e[1], "o" if e[2] else "f"))
                elif e[0] == "M":
                    if e[1] in seen_m:
                        toks.append("R%d" % e[1])
                    seen_m.add(e[1])
            for i in range(m):
                line_ops += ["r:%d" % i] * max(0, sum(1 for e in log if e == ("M", i)) - 1)
                fin = [e for e in log if e[0] == "F" and e[1] == i]
                if fin:
                    line_ops.append("f:%d:%s" % (i, "o" if fin[0][2] else "f"))
            mo = ctx.model(["ser " + " ".join(line_ops)])
            if mo is not None:
                model_proj = " ".join(t for t in mo[0].split(" | ")[0].split() if t[0] in "SFR")
                if " ".join(toks) != model_proj:
                    ctx.disagree("start / further-attempt / finish order of colliding operations", case, " ".join(toks), model_proj)
            retried = any(t[0] == "R" for t in toks)
            ctx.case(repr((kind, prm["policy"], prm["seed"], tuple(ops), prm["collide_at"])) if collided else None)
            ctx.count("collision:%s" % ("retried" if retried else "no-retry"))
            for op in ops:
                ctx.count("collision-op:" + op.split(":")[0])
        finally:
            for (cls, name, orig) in patched:
                setattr(cls, name, orig)
            g.close()


def collision_family(ctx, rounds):
    combos = [(kd, p) for p in ("random", "fifo", "lifo") for kd in ("file", "dir")]
    for r in range(rounds):
        kd, policy = combos[r % len(combos)]
        collision_scenario(ctx, gen_collision_params(ctx.rng, kd, policy))


# ----------------------------------------------------------------------------- (e) read-only nodes whose first read attempt fails

def readonly_retry_scenario(ctx, prm):
    """A read-only node (file, or directory read through list()/has_child()) whose shares on the servers
    that come first in the permuted order have one damaged block byte (valid signature: the quick MODE_READ
    survey counts them), `intact` intact shares further out: the first attempt of download_best_version
    fails with NotEnoughSharesError and the node retries with a full survey.  Several reads are requested
    at once, one later, one after all shares were restored.  From the statement: every operation's
    Deferred fires (data or error) once the grid is quiescent; a failed one does not block later ones;
    they finish in request order."""
    import grid
    import shutil
    from twisted.python.failure import Failure
    from allmydata.mutable.publish import MutableData
    from allmydata.interfaces import SDMF_VERSION, MDMF_VERSION
    k, n, ns = prm["k"], prm["n"], prm["servers"]
    with grid.Runtime(seed=prm["seed"], policy=prm["policy"]) as rt:
        g = grid.Grid(grid.fresh_dir("c13e"), rt, num_servers=ns, k=k, happy=1, n=n)
        try:
            c = g.clients[0]
            if prm["kind"] == "file":
                contents = b"C13 read-only contents " + bytes(range(200))
                mn = rt.wait(c.create_mutable_file(MutableData(contents), version=MDMF_VERSION if prm["mdmf"] else SDMF_VERSION))
                rocap = mn.get_readonly_uri()
                si = mn.get_storage_index()
            else:
                dn = rt.wait(c.create_dirnode())
                rt.wait(dn.set_uri("child", LIT, LIT))
                rocap = dn.get_readonly_uri()
                si = dn.get_storage_index()
            order = [s_.get_serverid() for s_ in g.broker.get_servers_for_psi(si)]
            shares = sorted(g.share_files(si), key=lambda t: order.index(g.serverid(t[0])))
            backups = []
            for (_srv, _sh, path) in shares[:max(0, len(shares) - prm["intact"])]:
                raw = open(path, "rb").read()
                backups.append((path, raw))
                import props.c10 as c10
                (a, b) = c10.share_fields(raw[c10.DATA_OFFSET:])["share_data"]
                pos = c10.DATA_OFFSET + a + min(5, b - a - 1)
                with open(path, "wb") as fh:
                    fh.write(raw[:pos] + bytes([raw[pos] ^ 0xFF]) + raw[pos + 1:])
            ro = c.create_node_from_uri(rocap)
            node = ro if prm["kind"] == "file" else ro._node
            done = []

            def request(tag, what):
                d = ro.download_best_version() if prm["kind"] == "file" else (ro.list() if what == "list" else ro.has_child("child"))
                box = []
                d.addBoth(lambda r: (box.append(r), done.append(tag)) and None)
                return (tag, d, box)

            def finish(reqs):
                out = {}
                for (tag, d, box) in reqs:
                    try:
                        rt.wait(d)
                    except grid.Stuck:
                        pass
                    out[tag] = "hung" if not box else ("err:" + box[0].type.__name__ if isinstance(box[0], Failure) else "ok")
                return out
            whats = ["list", "has", "list"]
            first = [request("r%d" % i, whats[i % 3]) for i in range(prm["concurrent"])]
            out = finish(first)
            later = [request("later", "list")]
            out.update(finish(later))
            for (path, raw) in backups:
                with open(path, "wb") as fh:
                    fh.write(raw)
            after = [request("after-restore", "has")]
            out.update(finish(after))
            names = [t for (t, _d, _b) in first + later + after]
            paused = bool(getattr(node._serializer, "paused", 0)) or bool(getattr(node._serializer, "callbacks", []))
            case = {"family": "readonly-retry", "params": prm, "outcomes": [(t, out[t]) for t in names], "completion_order": list(done),
                    "serializer_still_busy": paused}
            hung = [t for t in names if out[t] == "hung"]
            if hung:
                ctx.violation("operation(s) %s on a read-only node never finished although the grid was quiescent%s"
                              % (", ".join(hung), "; the node's serializer chain is still paused, later operations are blocked" if paused else ""),
                              case, "serialized-op-never-finished:self-deadlock" if paused else "serializer-blocked-real")
            elif done != names:
                ctx.violation("operations on one node finished out of request order", case, "serializer-order-real")
            ctx.case(repr((prm["kind"], prm["seed"], prm["policy"], prm["intact"], prm["concurrent"])))
            ctx.count("readonly-retry:%s:intact%sk:%s" % (prm["kind"], ">=" if prm["intact"] >= k else "<", "/".join(out[t] for t in names)))
        finally:
            g.close()


def readonly_retry_corpus(ctx):
    base = {"k": 3, "n": 10, "servers": 10, "mdmf": False}
    for kind in ("file", "dir"):
        readonly_retry_scenario(ctx, dict(base, kind=kind, seed=1, policy="random", intact=3, concurrent=3))
        readonly_retry_scenario(ctx, dict(base, kind=kind, seed=2, policy="fifo", intact=2, concurrent=2))
    readonly_retry_scenario(ctx, dict(base, kind="file", seed=3, policy="lifo", intact=3, concurrent=2, mdmf=True))


def readonly_retry_family(ctx, rounds):
    combos = [(kd, p) for p in ("random", "fifo", "lifo") for kd in ("file", "dir")]
    for r in range(rounds):
        kind, policy = combos[r % len(combos)]
        k, n, ns = ctx.rng.choice([(3, 10, 10), (2, 6, 8), (3, 7, 7), (2, 5, 10)])
        readonly_retry_scenario(ctx, {"kind": kind, "k": k, "n": n, "servers": ns, "mdmf": ctx.rng.random() < 0.3,
                                      "seed": ctx.rng.randrange(1 << 30), "policy": policy,
                                      "intact": ctx.rng.choice([k, k, k - 1, k + 1, 0, n]), "concurrent": ctx.rng.randrange(2, 4)})


# ----------------------------------------------------------------------------- (f) routing table vs the code

def routing_cases(ctx):
    """Instrumentation of real nodes: for every public whole-file operation of a mutable node -- does the
    call enter `_do_serialized` (before any map update / retrieve / publish of that node), and is
    `_do_serialized` entered again on the node while the body runs (one operation at a time, so any such
    call comes from inside the body)?  For every directory operation -- which public operations of the
    backing node it reaches, in order.  The names are taken from the driver, so an operation missing
    from the harness shows up as a disagreement.  Includes the read-only retry path of
    download_best_version (first survey finds too few good shares)."""
    import grid
    from twisted.internet import defer
    from allmydata.immutable import upload
    from allmydata.mutable.publish import MutableData, Publish
    from allmydata.mutable.servermap import ServermapUpdater
    from allmydata.mutable.retrieve import Retrieve
    from allmydata.mutable.common import MODE_WRITE
    mo = ctx.model(["route names"])
    if mo is None or " | " not in mo[0]:
        return
    node_ops, dir_ops = [x.split() for x in mo[0].split(" | ")]
    PUBLIC = ["download_best_version", "overwrite", "upload", "modify", "get_servermap"]
    patched = []
    lines, impls, cases = [], [], []
    with grid.Runtime(seed=17, policy="fifo") as rt:
        g = grid.Grid(grid.fresh_dir("c13r"), rt, num_servers=10, k=3, happy=1, n=10)
        try:
            c = g.clients[0]
            state = {"node": None, "depth": 0, "events": []}

            def instrument(node):
                state["node"] = node
                orig_ser = node._do_serialized

                def do_serialized(cb, *a, **k):
                    state["events"].append("ser-inner" if state["depth"] else "ser")

                    def cb2(*a2, **k2):
                        state["depth"] += 1
                        d = defer.maybeDeferred(cb, *a2, **k2)

                        def done(r):
                            state["depth"] -= 1
                            return r
                        d.addBoth(done)
                        return d
                    return orig_ser(cb2, *a, **k)
                node._do_serialized = do_serialized
                for name in PUBLIC:
                    orig = getattr(node, name)

                    def wrapped(*a, _orig=orig, _name=name, **k):
                        state["events"].append("call:" + _name)
                        return _orig(*a, **k)
                    setattr(node, name, wrapped)

            def patch(cls, name):
                orig = getattr(cls, name)

                def wrapped(self, *a, **k):
                    if getattr(self, "_node", None) is state["node"]:
                        state["events"].append("work")
                    return orig(self, *a, **k)
                setattr(cls, name, wrapped)
                patched.append((cls, name, orig))
            patch(ServermapUpdater, "update")
            patch(Publish, "publish")
            patch(Publish, "update")
            patch(Retrieve, "download")

            def observe(thunk):
                del state["events"][:]
                try:
                    rt.wait(thunk())
                except grid.Stuck:
                    state["events"].append("hung")
                except Exception:
                    pass
                return list(state["events"])

            # --- node operations
            mn0 = rt.wait(c.create_mutable_file(MutableData(b"routing")))
            mn = c.create_node_from_uri(mn0.get_uri())
            instrument(mn)
            smap = rt.wait(mn.get_servermap(MODE_WRITE))
            thunks = {"download_best_version": lambda: mn.download_best_version(),
                      "overwrite": lambda: mn.overwrite(MutableData(b"routing 2")),
                      "upload": lambda: mn.upload(MutableData(b"routing 3"), smap),
                      "modify": lambda: mn.modify(lambda old, sm, first: old + b"!"),
                      "get_servermap": lambda: mn.get_servermap(MODE_WRITE)}
            observed = {}
            for name in node_ops:
                if name not in thunks:
                    observed[name] = (None, None)
                    continue
                ev = observe(thunks[name])
                core = [e for e in ev if not e.startswith("call:")]
                observed[name] = (bool(core) and core[0] == "ser", "ser-inner" in ev or "hung" in ev)
            # the read-only retry path of download_best_version
            ro = c.create_node_from_uri(mn0.get_readonly_uri())
            order = [s_.get_serverid() for s_ in g.broker.get_servers_for_psi(mn0.get_storage_index())]
            shares = sorted(g.share_files(mn0.get_storage_index()), key=lambda t: order.index(g.serverid(t[0])))
            import props.c10 as c10
            for (_srv, _sh, path) in shares[:len(shares) - 3]:
                raw = open(path, "rb").read()
                (a, b) = c10.share_fields(raw[c10.DATA_OFFSET:])["share_data"]
                pos = c10.DATA_OFFSET + a
                with open(path, "wb") as fh:
                    fh.write(raw[:pos] + bytes([raw[pos] ^ 0xFF]) + raw[pos + 1:])
            instrument(ro)
            ev = observe(lambda: ro.download_best_version())
            core = [e for e in ev if not e.startswith("call:")]
            ro_obs = (bool(core) and core[0] == "ser", "ser-inner" in ev or "hung" in ev)
            ctx.count("routing:ro-retry-mapupdates", sum(1 for e in ev if e == "work"))
            (s0, r0) = observed.get("download_best_version", (None, None))
            observed["download_best_version"] = (s0 and ro_obs[0], bool(r0) or ro_obs[1])
            for name in node_ops:
                (ser, inner) = observed[name]
                lines.append("route node " + name)
                impls.append("not-driven" if ser is None else "serialized=%s reenters=%s" % (str(bool(ser)).lower(), str(bool(inner)).lower()))
                cases.append({"node_op": name})
                ctx.case("route node " + name)

            # --- directory operations
            dn0 = rt.wait(c.create_dirnode())
            dn = c.create_node_from_uri(dn0.get_uri())
            rt.wait(dn.set_uri("c", LIT, LIT))
            litnode = c.create_node_from_uri(LIT)
            instrument(dn._node)
            dthunks = {"list": lambda: dn.list(), "has_child": lambda: dn.has_child("c"), "get": lambda: dn.get("c"),
                       "get_child_and_metadata": lambda: dn.get_child_and_metadata("c"),
                       "get_metadata_for": lambda: dn.get_metadata_for("c"),
                       "set_metadata_for": lambda: dn.set_metadata_for("c", {"k": "v"}),
                       "set_uri": lambda: dn.set_uri("n1", LIT, LIT), "set_children": lambda: dn.set_children({"n2": (LIT, LIT)}),
                       "set_node": lambda: dn.set_node("n3", litnode), "set_nodes": lambda: dn.set_nodes({"n4": (litnode, None)}),
                       "add_file": lambda: dn.add_file("f", upload.Data(b"x" * 30, convergence=b"c" * 16)),
                       "delete": lambda: dn.delete("n1"), "create_subdirectory": lambda: dn.create_subdirectory("sub"),
                       "move_child_to": lambda: dn.move_child_to("c", dn, "c-moved")}
            for name in dir_ops:
                if name not in dthunks:
                    impl = "not-driven"
                else:
                    ev = observe(dthunks[name])
                    calls = [e[5:] for e in ev if e.startswith("call:")]
                    # every piece of work on the backing node has to lie behind a serialized entry
                    if "work" in ev and ("ser" not in ev or ev.index("work") < ev.index("ser")):
                        calls.append("UNSERIALIZED-WORK")
                    if "ser-inner" in ev or "hung" in ev:
                        calls.append("REENTERS")
                    impl = ",".join(calls)
                lines.append("route dir " + name)
                impls.append(impl)
                cases.append({"dir_op": name})
                ctx.case("route dir " + name)
        finally:
            for (cls, name, orig) in patched:
                setattr(cls, name, orig)
            g.close()
    ctx.compare("routing table: which operations enter the node's serializer, which re-enter it", cases, impls, ctx.model(lines))


def run(ctx):
    import common
    common.setup_impl_path()
    if ctx.replay and (ctx.replay.get("case") or {}).get("family") == "readonly-retry":
        readonly_retry_scenario(ctx, ctx.replay["case"]["params"])
        return
    if ctx.replay and (ctx.replay.get("case") or {}).get("family") == "collision":
        collision_scenario(ctx, ctx.replay["case"]["params"])
        return
    if ctx.replay and ctx.replay.get("case", {}).get("ops"):
        ops = ctx.replay["case"]["ops"]
        text, log = run_schedule_impl(ops)
        monitor_log(ctx, ops, log)
        ctx.compare("replayed schedule", [{"ops": ops}], [text], ctx.model(["ser " + " ".join(ops)]))
        return
    readonly_retry_corpus(ctx)
    routing_cases(ctx)
    n = ctx.budget(400, 20000)
    corpus = [["q", "i:0", "q", "f:1:o", "f:0:o", "f:2:f", "t", "f:0:f"], ["q", "q", "i:0", "f:0:o", "t", "q"],
              ["q", "r:0", "q", "f:0:o", "t", "f:1:o", "t"], ["q", "u:0", "q", "f:1:f", "t", "qo"]]
    scheds = corpus + [gen_schedule(ctx.rng, ctx.rng.choice([3, 8, 15, 40])) for _ in range(n)]
    impls = []
    for ops in scheds:
        text, log = run_schedule_impl(ops)
        impls.append(text)
        monitor_log(ctx, ops, log)
        # non-trivial: some request arrives while an operation is in progress
        overlap = False
        inprog = 0
        for o in ops:
            if o == "q":
                if inprog:
                    overlap = True
                inprog += 1
            elif o.startswith("f:") or o.startswith("u:"):
                inprog = max(0, inprog - 1)
            elif o.startswith("i:"):
                overlap = True
        ctx.case(" ".join(ops) if overlap else None)
        for o in ops:
            ctx.count("ev:" + o.split(":")[0])
    ctx.compare("_do_serialized event log (start/finish/deliver), waiting op, content", [{"ops": o} for o in scheds],
                impls, ctx.model(["ser " + " ".join(o) for o in scheds]))
    ctx.sample({"ops": scheds[0], "impl": impls[0]})
    nodemaker_cases(ctx, ctx.budget(100, 3000))
    grid_batches(ctx, ctx.budget(12, 400))
    collision_family(ctx, ctx.budget(18, 600))
    readonly_retry_family(ctx, ctx.budget(6, 200))
