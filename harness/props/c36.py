"""C36 — erasure coding recovers from any k blocks (codec.py and the callers' padding arithmetic)."""
import hashlib
import itertools
import os
import random

import common

ID = "C36"
LEAN_PROPS = "Tahoe.Props.C36"
DRIVER = "C36"
GENERATED = []
SOURCES = ["src/allmydata/codec.py", "src/allmydata/immutable/encode.py",
           "src/allmydata/immutable/downloader/node.py", "src/allmydata/mutable/publish.py",
           "src/allmydata/mutable/retrieve.py"]
DESIGN_REF = "DESIGN.md §2 C36"
TECHNIQUE = ("Lean 4 theorems over an executable model of CRSEncoder/CRSDecoder and of the immutable and mutable "
             "segment padding / chopping / truncation / trimming code, parametric in an abstract code with the MDS law "
             "as explicit hypothesis, and that law proved for the model of zfec's code (Field instance on GF(256) + "
             "Lagrange interpolation, single Mathlib modules); differential correspondence (sizes, exceptions, every produced block byte, decoded "
             "segment) of the model instantiated with a Lean transcription of zfec's GF(2^8) Reed-Solomon code against "
             "the real classes")
LEVEL_TEXT = ("any_k_blocks_decode (bare pipeline), immutable_any_k_blocks_decode and mutable_any_k_blocks_decode proved "
              "in Lean for every k <= n <= 256, every segment length (tail padding included), every duplicate-free "
              "supply of >= k (mutable; immutable: exactly k, as CRSDecoder demands) genuine blocks in any order, given "
              "the MDS hypothesis on the code; MDS itself is proved for replication (all n), identity (all k), "
              "2-of-3 XOR parity and (rs256_mds, rs256_scalar_identity, rs256_generator_is_vandermonde_systematic) for "
              "the model of zfec's GF(2^8) code for every 1 <= k <= n <= 256, so zfec_code_any_k_blocks_decode and the "
              "*_rs256 corollaries carry no hypothesis on the code.")
LEVEL_NOTE = ("Lean kernel + standard axioms; the repo's arithmetic/plumbing and the MDS law of the modelled code are proved; "
              "zfec's C implementation is tied to the modelled generator by correspondence only (all k-subsets for N<=7, "
              "seeded subsets up to N=256, byte-exact blocks and encoding/decoding matrices).")
RULE = ("one case = one driver line (math / sizes / codec / imm / mut / zdec / matrix / mask) evaluated on the real code and on the model, "
        "or one whole-path read (e2e: one k-subset of the shares of a CHK/SDMF/MDMF file on the in-process grid, monitor only); "
        "distinct = distinct lines; non-trivial = well-formed round-trip case in which a secondary block (id >= k) is used "
        "or the segment is padded or more than k blocks are supplied")
TRUSTED = [
    "lean/Tahoe/Codec/Model.lean is a hand transcription of codec.py, Encoder._got_all_encoding_parameters/_encode_segment/"
    "_gather_data, DownloadNode._calculate_sizes/_decode_blocks, Publish.setup_encoding_parameters/_encode_segment, "
    "Retrieve._setup_encoding_parameters/_decode_blocks (tied by correspondence on fields, exceptions and bytes)",
    "rs256 in the model is a hand transcription of zfec's systematic Vandermonde code over GF(2^8)/0x11d as Lagrange "
    "interpolation at 0, 2^0, 2^1, ...; tied to zfec byte for byte on every generated case (also on non-genuine blocks)",
    "the real methods are run on stand-in `self` objects (SimpleNamespace) with a fake uploadable / data source; "
    "allmydata.util.cputhreadpool._DISABLED is set so defer_to_thread runs synchronously (the repo's own test switch); "
    "for MDMF cases publish.DEFAULT_MUTABLE_MAX_SEGMENT_SIZE is set to the case's segment size in-process",
    "harness/grid.py (in-process grid of production classes, seeded scheduler) for the whole-path e2e reads; shares are "
    "hidden by renaming the share files on the servers' disks",
]
ASSUMPTIONS = [
    "zfec (C extension outside /repo) computes the generator that the Lean model rs256 specifies (V * V_top^-1 over "
    "GF(2^8)/0x11d): RS256_MDS is a theorem about that model; the C code is tied to it by sampling only: every k-subset "
    "for N <= 7, seeded subsets/orders up to N = 256, each case compared byte-exactly with the model",
    "supplied blocks come from a dict keyed by share number (distinct ids) — zfec.Decoder.decode loops forever on "
    "duplicate primary ids (observed: Decoder(3,5).decode(blocks,[0,1,1])), never exercised by the repo's callers",
    "encryption (AES-CTR) of the mutable path is outside the model: the model receives the crypttext recomputed from the "
    "salt; the monitor additionally checks the decrypted plaintext",
]

hx = common.hx


def blocks_s(bs):
    bs = list(bs)
    return ",".join(hx(b) for b in bs) if bs else "_"


def ids_s(ids):
    return ",".join(str(i) for i in ids) if ids else "-"


def exc_name(e):
    return "E:" + type(e).__name__


def fire(d):
    """Result of a Deferred that must already have fired (thread pool disabled)."""
    out = []
    d.addCallbacks(lambda r: out.append(("ok", r)), lambda f: out.append(("err", f)))
    if not out:
        raise common.InfraError("Deferred did not fire synchronously")
    if out[0][0] == "err":
        return "E:" + out[0][1].type.__name__, None
    return None, out[0][1]


class NS:
    def __init__(self, **kw):
        self.__dict__.update(kw)


def _noop(*a, **k):
    return None


# ------------------------------------------------------------------ recording what reaches CRSDecoder.decode

CALLS = []


def install_recorder():
    """Replace the name `CRSDecoder` seen by the callers with a subclass that records the arguments of every
    decode() call and then runs the real method: the (decoder params, ids, blocks) triple is the caller-side
    selection that lean `immCodecCall` / `mutCodecCall` model."""
    import allmydata.codec as codec_mod
    import allmydata.immutable.downloader.node as node_mod
    base = codec_mod.CRSDecoder
    if getattr(base, "_verif_recorder", False):
        return

    class RecDecoder(base):
        _verif_recorder = True

        def decode(self, some_shares, their_shareids):
            CALLS.append((self.data_size, self.required_shares, self.max_shares,
                          [int(i) for i in their_shareids], [bytes(b) for b in some_shares]))
            return base.decode(self, some_shares, their_shareids)

    codec_mod.CRSDecoder = RecDecoder          # mutable/retrieve.py looks the class up as codec.CRSDecoder
    node_mod.CRSDecoder = RecDecoder           # downloader/node.py imported the name


def last_call():
    if not CALLS:
        return "none"
    d, k, n, ids, shares = CALLS[-1]
    return "%d,%d,%d|%s|%s" % (d, k, n, ids_s(ids), blocks_s(shares))


# ------------------------------------------------------------------ implementation runners

def impl_math(a, b):
    from allmydata.util import mathutil
    return "%d,%d,%d" % (mathutil.div_ceil(a, b), mathutil.next_multiple(a, b), mathutil.pad_size(a, b))


def impl_sizes(d, k, n):
    from allmydata.codec import CRSEncoder, CRSDecoder
    try:
        e = CRSEncoder(); e.set_params(d, k, n)
        es = "%d,%d,%d" % (e.share_size, e.last_share_padding, e.get_block_size())
    except Exception as ex:
        es = exc_name(ex)
    try:
        c = CRSDecoder(); c.set_params(d, k, n)
        cs = "%d,%d,%d" % (c.chunk_size, c.num_chunks, c.share_size)
    except Exception as ex:
        cs = exc_name(ex)
    return "enc=%s;dec=%s" % (es, cs)


def show_enc(res):
    shares, ids = res
    return blocks_s(shares) + "/" + (str(len(ids)) if list(ids) == list(range(len(ids))) else "ids?")


def impl_codec(ctx, d, k, n, pieces, ids, valid):
    from allmydata.codec import CRSEncoder, CRSDecoder
    try:
        e = CRSEncoder(); e.set_params(d, k, n)
        err, res = fire(e.encode(list(pieces)))
    except Exception as ex:
        err, res = exc_name(ex), None
    if err:
        return "enc=%s;dec=skipped" % err
    shares = list(res[0])
    try:
        c = CRSDecoder(); c.set_params(d, k, n)
        derr, dres = fire(c.decode([shares[i] for i in ids], list(ids)))   # fresh lists: zfec reorders its input list
    except Exception as ex:
        derr, dres = exc_name(ex), None
    if valid:
        # monitor: the statement — any k distinct blocks decode back to the k input pieces
        if derr or [bytes(b) for b in dres] != [bytes(p) for p in pieces]:
            ctx.violation("CRSDecoder.decode of k distinct genuine blocks differs from the encoder input",
                          {"kind": "codec", "d": d, "k": k, "n": n, "pieces": [hx(p) for p in pieces], "ids": list(ids)},
                          "codec-roundtrip")
        for b in shares:
            if len(b) != e.get_block_size():
                ctx.violation("produced block length differs from get_block_size()",
                              {"kind": "codec", "d": d, "k": k, "n": n}, "codec-blocksize")
    return "enc=%s;dec=%s" % (show_enc(res), derr if derr else blocks_s(dres))


def encp(c):
    return "%d,%d,%d,%d,%d" % (c.data_size, c.required_shares, c.max_shares, c.share_size, c.last_share_padding)


def decp(c):
    return "%d,%d,%d,%d,%d,%d" % (c.data_size, c.required_shares, c.max_shares, c.chunk_size, c.num_chunks, c.share_size)


def impl_imm(ctx, f, k, n, s, segnum, data, ids, valid):
    from twisted.internet import defer
    from allmydata.immutable.encode import Encoder
    from allmydata.immutable.downloader.node import DownloadNode
    from allmydata.util import hashutil
    enc = Encoder()
    enc.file_size = f
    enc._uploadable = NS(read_encrypted=lambda size, hash_only: defer.succeed([bytes(data)]))
    enc._crypttext_hasher = hashutil.crypttext_hasher()
    enc._crypttext_hashes = []
    enc._times = {"cumulative_encoding": 0.0}
    try:
        enc._got_all_encoding_parameters((k, k, n, s))
        setup = "%d|%s|%s" % (enc.num_segments, encp(enc._codec), encp(enc._tail_codec))
        setup_ok = True
    except Exception as ex:
        setup, setup_ok = exc_name(ex), False
    node = NS(_verifycap=NS(size=f, needed_shares=k, total_shares=n),
              _download_status=NS(add_misc_event=_noop))
    try:
        r = DownloadNode._calculate_sizes(node, s)
        calc = "%d,%d,%d,%d,%d" % (r["tail_segment_size"], r["tail_segment_padded"], r["num_segments"],
                                   r["block_size"], r["tail_block_size"])
        calc_ok = True
    except Exception as ex:
        calc, calc_ok = exc_name(ex), False
    if not (setup_ok and calc_ok):
        return "setup=%s;calc=%s;enc=skipped;dec=skipped" % (setup, calc)
    is_tail = (segnum + 1 == enc.num_segments)
    try:
        err, res = fire(enc._encode_segment(segnum, is_tail))
    except Exception as ex:
        err, res = exc_name(ex), None
    if err:
        return "setup=%s;calc=%s;enc=%s;dec=skipped" % (setup, calc, err)
    shares = list(res[0])
    from allmydata.codec import CRSDecoder
    node.segment_size = s
    node.tail_segment_size = r["tail_segment_size"]
    node.tail_segment_padded = r["tail_segment_padded"]
    node.num_segments = r["num_segments"]
    node.block_size = r["block_size"]
    node.tail_block_size = r["tail_block_size"]
    try:
        node._codec = CRSDecoder(); node._codec.set_params(s, k, n)
        blocks = dict((i, shares[i]) for i in ids)         # dict in the supplied order, as the fetcher hands it over
        del CALLS[:]
        derr, dres = fire(DownloadNode._decode_blocks(node, segnum, blocks))
    except Exception as ex:
        derr, dres = exc_name(ex), None
    if valid and len(ids) == k:
        if derr or bytes(dres[0]) != bytes(data):
            ctx.violation("immutable _decode_blocks of k distinct genuine blocks differs from the segment",
                          {"kind": "imm", "f": f, "k": k, "n": n, "s": s, "segnum": segnum, "data": hx(data), "ids": list(ids)},
                          "imm-roundtrip-%s" % ("tail" if is_tail else "full"))
    return "setup=%s;calc=%s;enc=%s;dec=%s;call=%s" % (setup, calc, show_enc(res), derr if derr else hx(dres[0]), last_call())


class DataSrc:
    def __init__(self, total, data):
        self.total, self.data = total, data

    def get_size(self):
        return self.total

    def read(self, n):
        return [bytes(self.data)]          # "XXX: Why does this return a list?" — the real uploadables do


def impl_mut(ctx, mdmf, seg0, dl, k, n, segnum, data, ids, valid):
    from allmydata.mutable import publish, retrieve
    from allmydata.mutable.layout import MDMF_VERSION, SDMF_VERSION
    from allmydata.util import hashutil
    from allmydata.crypto import aes
    readkey = b"k" * 16
    status = NS(set_status=_noop, accumulate_encrypt_time=_noop, accumulate_encode_time=_noop,
                accumulate_decode_time=_noop, accumulate_decrypt_time=_noop)
    pub = NS(_version=MDMF_VERSION if mdmf else SDMF_VERSION, datalength=dl, required_shares=k, total_shares=n,
             data=DataSrc(dl, data), log=_noop, _status=status, readkey=readkey)
    saved = publish.DEFAULT_MUTABLE_MAX_SEGMENT_SIZE
    try:
        if mdmf:
            publish.DEFAULT_MUTABLE_MAX_SEGMENT_SIZE = seg0
        try:
            publish.Publish.setup_encoding_parameters(pub)
            pubs = "%d,%d,%d|%s|%s" % (pub.segment_size, pub.num_segments, pub.tail_segment_size, encp(pub.fec), encp(pub.tail_fec))
        except Exception as ex:
            return "pub=%s;ret=skipped;enc=skipped;dec=skipped" % exc_name(ex)
    finally:
        publish.DEFAULT_MUTABLE_MAX_SEGMENT_SIZE = saved
    ret = NS(verinfo=(1, b"r" * 32, (None if mdmf else b"i" * 16), pub.segment_size, dl, k, n, b"prefix", ()),
             _offset=0, _read_length=dl, log=_noop, _status=status, _set_current_status=_noop, _data_length=dl,
             _node=NS(get_readkey=lambda: readkey), _current_segment=segnum)
    try:
        retrieve.Retrieve._setup_encoding_parameters(ret)
    except AssertionError:
        if not hasattr(ret, "_tail_decoder"):
            raise                              # only the late read-range asserts (datalength 0) are expected here
    rets = "%d,%d,%d|%s|%s" % (ret._num_segments, ret._tail_data_size, ret._tail_segment_size,
                               decp(ret._segment_decoder), decp(ret._tail_decoder))
    try:
        err, res = fire(publish.Publish._encode_segment(pub, segnum))
    except Exception as ex:
        err, res = exc_name(ex), None
    if err:
        return "pub=%s;ret=%s;enc=%s;dec=skipped" % (pubs, rets, err), None
    (shares_ids, salt) = res
    shares = list(shares_ids[0])
    key = hashutil.ssk_readkey_data_hash(salt, readkey)
    crypttext = aes.encrypt_data(aes.create_encryptor(key), bytes(data))
    try:
        bs = dict((i, (shares[i], salt)) for i in ids)
        del CALLS[:]
        derr, dres = fire(retrieve.Retrieve._decode_blocks(ret, [bs], segnum))
    except Exception as ex:
        derr, dres = exc_name(ex), None
    if valid:
        last = (segnum + 1 == pub.num_segments)
        sig = "mut-roundtrip-%s-%s" % ("tail" if last else "full", "extra" if len(ids) > k else "exact")
        case = {"kind": "mut", "mdmf": mdmf, "seg0": seg0, "dl": dl, "k": k, "n": n, "segnum": segnum, "data": hx(data), "ids": list(ids)}
        if derr or bytes(dres[0]) != crypttext:
            ctx.violation("mutable _decode_blocks of >= k distinct genuine blocks differs from the crypttext segment", case, sig)
        else:
            perr, plain = fire(retrieve.Retrieve._decrypt_segment(ret, dres))
            if perr or bytes(plain) != bytes(data):
                ctx.violation("mutable decode+decrypt differs from the published segment", case, sig + "-plain")
    out = "pub=%s;ret=%s;enc=%s;dec=%s;call=%s" % (pubs, rets, show_enc(shares_ids), derr if derr else hx(dres[0]), last_call())
    return out, crypttext


def impl_matrix(k, n, ids):
    """zfec's matrices read off the real encoder/decoder: encoding the unit vectors gives the rows of the n x k
    encoding matrix; decoding unit vectors under share numbers `ids` gives the rows of the k x k decoding matrix;
    inv = the decoder undoes the encoder on those rows."""
    import zfec
    unit = [bytes(1 if t == j else 0 for t in range(k)) for j in range(k)]
    enc = [bytes(b) for b in zfec.Encoder(k, n).encode(list(unit))]
    dec = [bytes(b) for b in zfec.Decoder(k, n).decode(list(unit), list(ids))]
    back = [bytes(b) for b in zfec.Decoder(k, n).decode([enc[i] for i in ids], list(ids))]
    return "enc=%s;dec=%s;inv=%s" % (blocks_s(enc), blocks_s(dec), "T" if back == unit else "F")


def impl_zdec(k, n, blocks, ids):
    import zfec
    return blocks_s(zfec.Decoder(k, n).decode(list(blocks), list(ids)))


# ------------------------------------------------------------------ generators

def rbytes(rng, n):
    return bytes(rng.getrandbits(8) for _ in range(n))


def pick_kn(rng):
    r = rng.random()
    if r < 0.10:
        n = rng.choice([1, 2, 3, 10, 64, 256]); return 1, n
    if r < 0.20:
        n = rng.choice([1, 2, 3, 7, 16, 100, 256]); return n, n
    if r < 0.30:
        return rng.randrange(1, 257), 256
    if r < 0.45:
        n = rng.randrange(1, 65); return rng.randrange(1, n + 1), n
    if r < 0.55:
        return 3, 10
    n = rng.randrange(1, 13)
    return rng.randrange(1, n + 1), n


def pick_size(rng, k):
    return rng.choice([0, 1, max(k - 1, 0), k, k + 1, 2 * k - 1, 2 * k, 2 * k + 1, 3 * k + rng.randrange(k),
                       rng.randrange(0, 40), rng.randrange(0, 6 * k + 1), rng.randrange(0, 300)])


def pick_ids(rng, k, n, allow_extra):
    m = k
    if allow_extra and n > k and rng.random() < 0.35:
        m = rng.randrange(k + 1, min(n, k + 4) + 1)
    ids = rng.sample(range(n), m)
    r = rng.random()
    if r < 0.2:
        ids.sort()
    elif r < 0.3:
        ids.sort(reverse=True)
    return ids


class Batch:
    def __init__(self, ctx):
        self.ctx = ctx
        self.lines, self.impl, self.cases = [], [], []

    def add(self, line, impl_out, case, nontrivial):
        self.lines.append(line)
        self.impl.append(impl_out)
        self.cases.append(case)
        self.ctx.case(hashlib.md5(line.encode()).hexdigest()[:20] if nontrivial else None)
        self.ctx.count("kind:" + line.split(" ", 1)[0])
        if "E:" in impl_out:
            for part in impl_out.split(";"):
                if "E:" in part:
                    self.ctx.count("exc:" + part.split("=")[0] + ":" + part.split("E:")[1])

    def flush(self, what):
        model = self.ctx.model(self.lines)
        self.ctx.compare(what, self.cases, self.impl, model)
        if self.lines:
            self.ctx.sample({"line": self.lines[0][:200], "impl": self.impl[0][:200]})


def do_codec(ctx, b, k, n, L, ids, pieces=None, d=None, valid=True):
    rng = ctx.rng
    if pieces is None:
        pieces = [rbytes(rng, L) for _ in range(k)]
    if d is None:
        d = k * L - (rng.randrange(k) if L > 0 and rng.random() < 0.5 else 0)     # any d with ceil(d/k) == L
    line = "codec %d %d %d %s %s" % (d, k, n, blocks_s(pieces), ids_s(ids))
    out = impl_codec(ctx, d, k, n, pieces, ids, valid)
    b.add(line, out, {"kind": "codec", "d": d, "k": k, "n": n, "pieces": [hx(p) for p in pieces], "ids": list(ids), "valid": valid},
          valid and (any(i >= k for i in ids) or d != k * L))


def do_imm(ctx, b, f, k, n, s, segnum, data, ids, valid=True):
    line = "imm %d %d %d %d %d %s %s" % (f, k, n, s, segnum, hx(data), ids_s(ids))
    out = impl_imm(ctx, f, k, n, s, segnum, data, ids, valid)
    b.add(line, out, {"kind": "imm", "f": f, "k": k, "n": n, "s": s, "segnum": segnum, "data": hx(data), "ids": list(ids), "valid": valid},
          valid and (any(i >= k for i in ids) or len(data) % max(k, 1) != 0))


def do_mut(ctx, b, mdmf, seg0, dl, k, n, segnum, data, ids, valid=True):
    r = impl_mut(ctx, mdmf, seg0, dl, k, n, segnum, data, ids, valid)
    out, crypttext = r if isinstance(r, tuple) else (r, None)
    # the model is fed the crypttext (encryption is outside the model); when encoding failed any bytes of that length do
    ct = crypttext if crypttext is not None else data
    line = "mut %d %d %d %d %d %s %s" % (seg0, dl, k, n, segnum, hx(ct), ids_s(ids))
    b.add(line, out, {"kind": "mut", "mdmf": mdmf, "seg0": seg0, "dl": dl, "k": k, "n": n, "segnum": segnum, "data": hx(data),
                      "ids": list(ids), "valid": valid},
          valid and (any(i >= k for i in ids) or len(data) % max(k, 1) != 0 or len(ids) > k))


def gen_imm(ctx, b):
    rng = ctx.rng
    k, n = pick_kn(rng)
    if n > 64 and rng.random() < 0.7:
        n = rng.randrange(1, 17); k = rng.randrange(1, n + 1)
    s = k * rng.choice([1, 1, 2, 3, 5, rng.randrange(1, 12)])
    nseg = rng.choice([1, 1, 2, 3])
    tail = rng.choice([1, s, max(s - 1, 1), rng.randrange(1, s + 1), rng.randrange(1, s + 1)])
    f = (nseg - 1) * s + tail
    segnum = rng.randrange(nseg)
    seglen = tail if segnum == nseg - 1 else s
    ids = pick_ids(rng, k, n, False)
    do_imm(ctx, b, f, k, n, s, segnum, rbytes(rng, seglen), ids)


def gen_mut(ctx, b):
    rng = ctx.rng
    k, n = pick_kn(rng)
    if n > 64 and rng.random() < 0.7:
        n = rng.randrange(1, 17); k = rng.randrange(1, n + 1)
    mdmf = rng.random() < 0.5
    if mdmf:
        seg0 = rng.choice([1, k, k + 1, 2 * k + 1, rng.randrange(1, 8 * k + 2)])
        S = -(-seg0 // k) * k
        nseg = rng.choice([1, 2, 3])
        tail = rng.choice([1, S, rng.randrange(1, S + 1)])
        dl = (nseg - 1) * S + tail
        segnum = rng.randrange(nseg)
        seglen = tail if segnum == nseg - 1 else S
    else:
        dl = max(1, pick_size(rng, k))
        seg0, segnum, seglen = dl, 0, dl
    ids = pick_ids(rng, k, n, True)
    do_mut(ctx, b, mdmf, seg0, dl, k, n, segnum, rbytes(rng, seglen), ids)


def malformed(ctx, b):
    """Structurally wrong calls: the model must raise the same exception class at the same place."""
    rng = ctx.rng
    r = rng.randrange(10)
    k, n = pick_kn(rng)
    if n > 32:
        n = rng.randrange(1, 17); k = rng.randrange(1, n + 1)
    L = rng.randrange(0, 5)
    if r == 0 and n > k:        # more than k blocks straight into CRSDecoder.decode: precondition
        do_codec(ctx, b, k, n, L, rng.sample(range(n), k + 1), valid=False)
    elif r == 1 and k > 1:      # fewer than k
        do_codec(ctx, b, k, n, L, rng.sample(range(n), k - 1), valid=False)
    elif r == 2:                # wrong number of input pieces
        m = rng.choice([k - 1, k + 1]) if k > 1 else k + 1
        do_codec(ctx, b, k, n, L, rng.sample(range(n), k), pieces=[rbytes(rng, L) for _ in range(m)], d=k * L, valid=False)
    elif r == 3:                # one piece of the wrong length
        pieces = [rbytes(rng, L) for _ in range(k)]
        pieces[rng.randrange(k)] = rbytes(rng, L + 1)
        do_codec(ctx, b, k, n, L, rng.sample(range(n), k), pieces=pieces, d=k * L, valid=False)
    elif r == 4:                # bad (k, n)
        kk, nn = rng.choice([(0, 3), (4, 3), (3, 257), (0, 0), (257, 257), (1, 300)])
        do_codec(ctx, b, kk, nn, 1, [0], pieces=[b"a"] * max(kk, 1), d=max(kk, 1), valid=False)
    elif r == 5:                # immutable: segment size not a multiple of k / zero
        s = rng.choice([0, k + 1 if k > 1 else 0, 2 * k + 1 if k > 1 else 0])
        do_imm(ctx, b, rng.randrange(1, 40), k, n, s, 0, rbytes(rng, 3), list(range(k)), valid=False)
    elif r == 6:                # immutable: short / long read for a full (non-tail) or tail segment
        s = k * rng.randrange(1, 4)
        data = rbytes(rng, rng.choice([max(s - 1, 0), s + 1, 0]))
        do_imm(ctx, b, 2 * s + 1, k, n, s, rng.choice([0, 2]), data, rng.sample(range(n), k), valid=False)
    elif r == 7 and n > k:      # immutable: k+1 blocks handed to _decode_blocks
        s = k * rng.randrange(1, 4)
        do_imm(ctx, b, s + 1, k, n, s, 0, rbytes(rng, s), rng.sample(range(n), k + 1), valid=False)
    elif r == 8:                # mutable: data of the wrong length / too few blocks
        dl = rng.randrange(1, 30)
        if rng.random() < 0.5 and k > 1:
            do_mut(ctx, b, False, dl, dl, k, n, 0, rbytes(rng, dl), rng.sample(range(n), k - 1), valid=False)
        else:
            do_mut(ctx, b, False, dl, dl, k, n, 0, rbytes(rng, dl + 1), rng.sample(range(n), k), valid=False)
    else:                       # mutable: bad (k, n), empty file
        kk, nn, dl = rng.choice([(0, 3, 5), (4, 3, 5), (3, 257, 5), (2, 3, 0)])
        mdmf = rng.random() < 0.5
        do_mut(ctx, b, mdmf, 4 if mdmf else dl, dl, kk, nn, 0, rbytes(rng, dl), [0, 1], valid=False)


def exhaustive_small(ctx, b, maxn, all_orders_upto):
    """Every (k, n) with n <= maxn and every k-subset; every order of the subset for n <= all_orders_upto."""
    rng = ctx.rng
    for n in range(1, maxn + 1):
        for k in range(1, n + 1):
            L = rng.choice([1, 2, 3])
            pieces = [rbytes(rng, L) for _ in range(k)]
            for sub in itertools.combinations(range(n), k):
                if n <= all_orders_upto:
                    orders = list(itertools.permutations(sub))
                else:
                    o = list(sub); rng.shuffle(o); orders = [tuple(o)]
                for ids in orders:
                    do_codec(ctx, b, k, n, L, list(ids), pieces=pieces, d=k * L)
            # the two caller paths with a padded tail, every subset (one order each)
            tail = rng.randrange(1, 2 * k + 2)
            data = rbytes(rng, tail)
            for sub in itertools.combinations(range(n), k):
                o = list(sub); rng.shuffle(o)
                do_imm(ctx, b, tail, k, n, 2 * k, 0, data, o)
                extra = [i for i in range(n) if i not in sub]
                o2 = o + (rng.sample(extra, 1) if extra and rng.random() < 0.5 else [])
                do_mut(ctx, b, False, tail, tail, k, n, 0, data, o2)
    ctx.count("exhaustive-subsets-N<=%d" % maxn)


def mechanism_corpus(ctx, b):
    """One minimal, fully literal case per known way of breaking C36 (the seeded changes C36-a/b/c; no defect
    has been repaired in /repo for C36).  Independent of VERIF_SEED; each case is judged by the monitor."""
    a, bb, c = b"\x11\x12", b"\x21\x22", b"\x31\x32"
    # C36-a  decoder returns the blocks in the order handed over when all ids are primary:
    #        exactly the primary blocks, NOT in ascending share-number order (codec level, immutable 3-of-3, mutable)
    do_codec(ctx, b, 3, 5, 2, [2, 0, 1], pieces=[a, bb, c], d=6)
    do_codec(ctx, b, 3, 5, 2, [2, 1, 0], pieces=[a, bb, c], d=5)
    do_codec(ctx, b, 2, 2, 1, [1, 0], pieces=[b"\x07", b"\x09"], d=2)
    do_imm(ctx, b, 5, 3, 3, 6, 0, b"\x01\x02\x03\x04\x05", [2, 0, 1])            # single padded tail segment, k = N
    do_imm(ctx, b, 11, 3, 10, 6, 0, b"\x01\x02\x03\x04\x05\x06", [1, 2, 0])      # full segment, primaries scrambled
    do_mut(ctx, b, False, 5, 5, 3, 5, 0, b"\x01\x02\x03\x04\x05", [1, 0, 2])
    # C36-b  tail decoder memoised without N: same (padded tail size, k), first a small N, then a larger N read
    #        from shares numbered >= the small N (several follow-ups: the stale decoder reads outside its matrix)
    tail = b"\xa1\xa2\xa3\xa4\xa5"
    do_imm(ctx, b, 5, 2, 3, 8, 0, tail, [2, 0])                                     # 2-of-3, padded tail 6
    do_imm(ctx, b, 5, 2, 10, 8, 0, tail, [9, 7])                                    # 2-of-10, same padded tail, ids >= 3
    do_imm(ctx, b, 5, 2, 10, 8, 0, tail, [4, 1])
    do_imm(ctx, b, 5, 2, 6, 8, 0, tail, [5, 3])
    do_imm(ctx, b, 13, 2, 10, 8, 1, tail, [8, 6])                                   # as the last of two segments
    # C36-c  ids and blocks trimmed/ordered independently in Retrieve._decode_blocks:
    #        surplus blocks, and exactly k blocks in non-ascending arrival order (SDMF and MDMF, full and tail)
    do_mut(ctx, b, False, 5, 5, 3, 5, 0, b"\x01\x02\x03\x04\x05", [4, 2, 0, 1])
    do_mut(ctx, b, False, 5, 5, 3, 5, 0, b"\x01\x02\x03\x04\x05", [3, 4, 1])
    do_mut(ctx, b, False, 6, 6, 2, 4, 0, b"\x01\x02\x03\x04\x05\x06", [3, 0, 2, 1])
    do_mut(ctx, b, True, 4, 10, 2, 4, 0, b"\x0a\x0b\x0c\x0d", [3, 1, 0])               # MDMF full segment
    do_mut(ctx, b, True, 4, 10, 2, 4, 2, b"\x0e\x0f", [2, 3, 0, 1])                      # MDMF tail segment (2 of 4 bytes)


# ------------------------------------------------------------------ whole-path reads on the in-process grid

def det_bytes(n, tag):
    out, i = b"", 0
    while len(out) < n:
        out += hashlib.sha256(b"%s-%d" % (tag, i)).digest()
        i += 1
    return out[:n]


def e2e_case(ctx, fmt, k, n, size, max_seg, subsets, seed=7):
    """Store one file (CHK / SDMF / MDMF, k-of-n, one share per server, last segment needs padding) on the
    in-process grid built from the production classes; for each k-subset in `subsets` hide every other share
    and read through a fresh node.  Monitor (statement, end to end): a reader that can reach k distinct
    shares gets exactly the bytes written.  Monitor only — there is no model line for this family."""
    import grid
    from allmydata.immutable import upload
    from allmydata.util.consumer import MemoryConsumer
    from allmydata.mutable.publish import MutableData
    from allmydata.interfaces import SDMF_VERSION, MDMF_VERSION
    data = det_bytes(size, b"c36-%s-%d-%d-%d" % (fmt.encode(), k, n, size))
    with grid.Runtime(seed=seed, policy="fifo") as rt:
        g = grid.Grid(grid.fresh_dir("c36e"), rt, num_servers=n, num_clients=1, k=k, happy=1, n=n,
                      max_segment_size=max_seg)
        try:
            c = g.clients[0]
            if fmt == "CHK":
                cap = rt.wait(c.upload(upload.Data(data, convergence=b"c" * 16))).get_uri()
                si = c.create_node_from_uri(cap).get_storage_index()

                def read():
                    mc = MemoryConsumer()
                    rt.wait(c.create_node_from_uri(cap).read(mc, 0, None))
                    return b"".join(mc.chunks)
            else:
                mn = rt.wait(c.create_mutable_file(MutableData(data),
                                                   version=SDMF_VERSION if fmt == "SDMF" else MDMF_VERSION))
                cap, si = mn.get_uri(), mn.get_storage_index()
                del mn

                def read():
                    return rt.wait(c.create_node_from_uri(cap).download_best_version())

            files = g.share_files(si)
            shnums = sorted(set(sh for (_s, sh, _p) in files))
            if shnums != list(range(n)):
                raise common.InfraError("C36 e2e: expected shares 0..%d on disk, found %r" % (n - 1, shnums))
            if subsets == "all":
                subsets = list(itertools.combinations(range(n), k))
            for keep in subsets:
                keep = sorted(keep)
                case = {"kind": "e2e", "format": fmt, "k": k, "n": n, "size": size, "max_seg": max_seg, "keep": keep}
                hidden = []
                for (_srv, sh, path) in files:
                    if sh not in keep:
                        os.rename(path, path + ".hidden")
                        hidden.append(path)
                try:
                    try:
                        got, why = read(), None
                    except Exception as ex:           # UnrecoverableFileError, NotEnoughSharesError, Stuck, ...
                        got, why = None, "%s: %s" % (type(ex).__name__, str(ex)[:120])
                finally:
                    for path in hidden:
                        os.rename(path + ".hidden", path)
                if got != data:
                    ctx.violation("a reader reaching exactly these k distinct shares of a %s file does not get the bytes written"
                                  % fmt, case, "k-shares-not-enough:%s" % fmt,
                                  detail=why or ("read %d bytes, differs from the %d written" % (len(got), len(data))))
                ctx.case("e2e:%s:%d:%d:%d:%s" % (fmt, k, n, size, ids_s(keep)) if (k < n or size % k) else None)
                ctx.count("kind:e2e-" + fmt)
        finally:
            g.close()


E2E_CORPUS = [
    # format, k, n, size (never a multiple of k nor of the segment size: the tail is padded), max segment size
    ("CHK", 3, 5, 1999, 600),             # control: 4 segments, immutable
    ("SDMF", 2, 4, 101, None),
    ("SDMF", 3, 3, 100, None),            # k == N
    ("SDMF", 1, 3, 77, None),
    ("MDMF", 2, 4, 131073, None),         # two segments, 1-byte tail
    ("MDMF", 3, 5, 2 * 131072 + 1000, None),
]


def e2e_corpus(ctx):
    for (fmt, k, n, size, max_seg) in E2E_CORPUS:
        e2e_case(ctx, fmt, k, n, size, max_seg, "all")


def e2e_random(ctx):
    rng = ctx.rng
    for _ in range(ctx.budget(3, 40)):
        fmt = rng.choice(["SDMF", "SDMF", "MDMF", "CHK"])
        if rng.random() < 0.7:
            n = rng.randrange(1, 7); k = rng.randrange(1, n + 1); subsets = "all"          # every k-subset, N <= 6
        else:
            n = rng.randrange(7, 13); k = rng.choice([1, 2, 3, n - 1, n, rng.randrange(1, n + 1)])
            subsets = [rng.sample(range(n), k) for _ in range(6)]                            # seeded subsets beyond
        max_seg = None
        if fmt == "CHK":
            max_seg = rng.choice([None, 100 * k, 600])
            size = rng.randrange(56, 3000)          # above the LIT threshold
        elif fmt == "SDMF":
            size = rng.randrange(1, 4000)
        else:
            size = rng.choice([rng.randrange(1, 3000), 131072 + rng.randrange(1, 2000), 2 * 131072 + rng.randrange(1, 500)])
        if size % k == 0:
            size += 1
        e2e_case(ctx, fmt, k, n, size, max_seg, subsets, seed=rng.randrange(1000))


def corpus(ctx, b):
    """Fixed cases (independent of VERIF_SEED): one per known mechanism, then the three parameter sets of
    test_codec, boundary sizes, n = 256."""
    saved = ctx.rng
    ctx.rng = random.Random("C36-fixed-corpus")
    try:
        mechanism_corpus(ctx, b)
        _corpus_general(ctx, b)
    finally:
        ctx.rng = saved


def _corpus_general(ctx, b):
    rng = ctx.rng
    for (k, n) in [(3, 10), (25, 100), (100, 100), (1, 1), (1, 256), (256, 256), (128, 256), (255, 256), (2, 3)]:
        for L in ([0, 1, 2] if n <= 10 else [1]):
            ids = rng.sample(range(n), k)
            do_codec(ctx, b, k, n, L, ids)
    for k, n in [(3, 10), (1, 4), (4, 4), (7, 9)]:
        for size in [1, k - 1, k, k + 1, 2 * k + 1]:
            if size <= 0:
                continue
            data = rbytes(rng, size)
            s = k * ((size + k - 1) // k)
            do_imm(ctx, b, size, k, n, s, 0, data, rng.sample(range(n), k))
            do_mut(ctx, b, False, size, size, k, n, 0, data, rng.sample(range(n), min(n, k + 1)))
            do_mut(ctx, b, True, 2 * k + 1, size, k, n, 0, rbytes(rng, min(size, 3 * k)), rng.sample(range(n), k))
    # one MDMF case with the real 128 KiB segment size, tail segment
    dl = 131072 + 1000
    do_mut(ctx, b, True, 131072, dl, 3, 10, 1, rbytes(rng, dl - 131072), [9, 0, 4, 2])


def run(ctx):
    common.setup_impl_path()
    import allmydata.util.cputhreadpool as ctp
    ctp._DISABLED = True            # defer_to_thread runs inline: the Deferreds fire synchronously
    install_recorder()
    rng = ctx.rng

    if ctx.replay:
        b = Batch(ctx)
        c = ctx.replay["case"]
        un = common.unhx
        if c["kind"] == "codec":
            do_codec(ctx, b, c["k"], c["n"], 0, c["ids"], pieces=[un(p) for p in c["pieces"]], d=c["d"], valid=c.get("valid", True))
        elif c["kind"] == "imm":
            do_imm(ctx, b, c["f"], c["k"], c["n"], c["s"], c["segnum"], un(c["data"]), c["ids"], valid=c.get("valid", True))
        elif c["kind"] == "mut":
            do_mut(ctx, b, c["mdmf"], c["seg0"], c["dl"], c["k"], c["n"], c["segnum"], un(c["data"]), c["ids"], valid=c.get("valid", True))
        elif c["kind"] == "e2e":
            e2e_case(ctx, c["format"], c["k"], c["n"], c["size"], c["max_seg"], [c["keep"]])
        elif c["kind"] == "matrix":
            b.add("matrix %d %d %s" % (c["k"], c["n"], ids_s(c["ids"])), impl_matrix(c["k"], c["n"], c["ids"]), c, False)
        elif c["kind"] == "mask":
            b.add("mask %d %d" % (c["n"], c["m"]), ids_s([i for i in range(c["n"]) if (c["m"] >> i) & 1]), c, False)
        b.flush("replayed case")
        return

    # 0. fixed corpus
    b = Batch(ctx)
    corpus(ctx, b)
    b.flush("fixed corpus (one case per known mechanism; test_codec parameter sets, boundary sizes, n=256)")
    e2e_corpus(ctx)
    if os.environ.get("VERIF_CORPUS_ONLY"):
        ctx.note("VERIF_CORPUS_ONLY: random families skipped")
        return

    # 1. arithmetic and set_params
    b = Batch(ctx)
    for _ in range(ctx.budget(150, 3000)):
        k = rng.choice([1, 2, 3, 7, 10, 255, 256, rng.randrange(1, 300)])
        a = rng.choice([0, 1, k - 1, k, k + 1, 2 * k, rng.randrange(0, 5000), rng.randrange(0, 2 ** 40)])
        b.add("math %d %d" % (a, k), impl_math(a, k), {"kind": "math", "a": a, "b": k}, a % k != 0)
    for _ in range(ctx.budget(150, 3000)):
        k, n = pick_kn(rng) if rng.random() < 0.8 else (rng.randrange(0, 300), rng.randrange(0, 300))
        d = pick_size(rng, max(k, 1)) if rng.random() < 0.8 else rng.randrange(0, 2 ** 33)
        b.add("sizes %d %d %d" % (d, k, n), impl_sizes(d, k, n), {"kind": "sizes", "d": d, "k": k, "n": n}, d % max(k, 1) != 0)
    b.flush("mathutil and CRSEncoder/CRSDecoder.set_params fields and exceptions")

    # 2. every k-subset for small N (the sampled assumption, and the model's bytes)
    b = Batch(ctx)
    if ctx.tier == "thorough":
        exhaustive_small(ctx, b, 7, 5)
    else:
        exhaustive_small(ctx, b, 7 if not ctx.escalated else 7, 3)
    b.flush("all k-subsets, N <= 7: produced blocks and decoded pieces/segments")

    # 3. seeded codec cases up to N = 256, shuffled orders
    b = Batch(ctx)
    for _ in range(ctx.budget(120, 2500)):
        k, n = pick_kn(rng)
        L = rng.choice([0, 1, 1, 2, 3, 5, 16]) if n <= 64 else rng.choice([1, 2])
        do_codec(ctx, b, k, n, L, pick_ids(rng, k, n, False))
    b.flush("CRSEncoder.encode / CRSDecoder.decode bytes, seeded (k, n) up to 256")

    # 4. the callers' paths
    b = Batch(ctx)
    for _ in range(ctx.budget(120, 2500)):
        gen_imm(ctx, b)
    b.flush("immutable Encoder._encode_segment -> DownloadNode._decode_blocks")
    b = Batch(ctx)
    for _ in range(ctx.budget(120, 2500)):
        gen_mut(ctx, b)
    b.flush("mutable Publish._encode_segment -> Retrieve._decode_blocks")

    # 5. malformed stream
    b = Batch(ctx)
    for _ in range(ctx.budget(120, 2000)):
        malformed(ctx, b)
    b.flush("malformed calls: exception class and place")

    # 6. raw decoder on non-genuine blocks (transcription of zfec, beyond the MDS law)
    b = Batch(ctx)
    for _ in range(ctx.budget(40, 600)):
        k, n = pick_kn(rng)
        if n > 64 and rng.random() < 0.8:
            n = rng.randrange(1, 33); k = rng.randrange(1, n + 1)
        L = rng.choice([1, 2, 4])
        blocks = [rbytes(rng, L) for _ in range(k)]
        ids = rng.sample(range(n), k)
        b.add("zdec %d %d %s %s" % (k, n, blocks_s(blocks), ids_s(ids)), impl_zdec(k, n, blocks, ids),
              {"kind": "zdec", "k": k, "n": n, "blocks": [hx(x) for x in blocks], "ids": ids}, False)
    b.flush("zfec.Decoder.decode on arbitrary blocks vs rs256.dec")

    # 7. zfec's encoding / decoding matrices (coefficient level) and the subset-mask helper
    b = Batch(ctx)
    for n in range(1, 6):                       # the family proved in Lean (LemmasRS): every subset, N <= 5
        for m in range(1, 2 ** n):
            ids = [i for i in range(n) if (m >> i) & 1]
            b.add("mask %d %d" % (n, m), ids_s(ids), {"kind": "mask", "n": n, "m": m}, False)
            b.add("matrix %d %d %s" % (len(ids), n, ids_s(ids)), impl_matrix(len(ids), n, ids),
                  {"kind": "matrix", "k": len(ids), "n": n, "ids": ids}, len(ids) < n)
    for _ in range(ctx.budget(25, 300)):
        k, n = pick_kn(rng)
        if n > 40:
            n = rng.randrange(1, 41); k = rng.randrange(1, n + 1)
        ids = rng.sample(range(n), k)
        out = impl_matrix(k, n, ids)
        if not out.endswith("inv=T"):
            ctx.violation("zfec decoder does not invert the encoder's rows for this id set",
                          {"kind": "matrix", "k": k, "n": n, "ids": ids}, "matrix-not-inverse")
        b.add("matrix %d %d %s" % (k, n, ids_s(ids)), out, {"kind": "matrix", "k": k, "n": n, "ids": ids}, k < n)
    b.flush("zfec encoding/decoding matrices vs encMatrix/decMatrix; idsOfMask")
    # 8. whole-path reads from exactly k shares (monitor only)
    e2e_random(ctx)
    ctx.note("MDS is proved for the model of zfec's code; zfec's C implementation is tied to that model by sampling (see ASSUMPTIONS)")
