"""C03 — immutable availability with k good shares (downloader/fetcher.py SegmentFetcher; end-to-end through
finder.py / share.py / node.py)."""
ID = "C03"
LEAN_PROPS = "Tahoe.Props.C03"
DRIVER = "C03"
GENERATED = []
SOURCES = ["src/allmydata/immutable/downloader/fetcher.py", "src/allmydata/immutable/downloader/finder.py",
           "src/allmydata/immutable/downloader/share.py", "src/allmydata/immutable/downloader/node.py"]
DESIGN_REF = "DESIGN.md §2 C03/C46, Appendix A.4"
TECHNIQUE = ("Lean 4 theorems (9) over executable event-system models of SegmentFetcher (fetcher.py: add_shares / no_more_shares / "
             "per-share OVERDUE|COMPLETE|CORRUPT|DEAD|BADSEGNUM / loop turns; _do_loop and _find_and_use_share transcribed with the "
             "diversity limit), of ShareFinder (finder.py: hungry / loop / answers / failures / overdue timers, bounded "
             "parallelism) and of the composed system Sys (reads = Segmentation instances routed through the DownloadNode queue): "
             "enough_good_shares_succeed, too_few_fail (both halves of the statement for every fair event sequence of a fetcher), "
             "genuine_segment_is_accepted, composed_read_delivers_exact_range, composed_step_writes_contiguous (a read delivers "
             "exactly its range whatever the segment-size guess), got_shares_always_recorded, "
             "new_fetcher_starts_with_known_live_shares (shares announced at any time reach every later fetcher), "
             "finder_answers_every_hungry, finder_asks_each_server_once; differential correspondence of seeded event scripts "
             "against the real SegmentFetcher (fake shares) and the real ShareFinder (fake servers / timers), internal state after "
             "every event; a fixed seed-independent corpus (one history per seeded change and per repaired defect) and random "
             "end-to-end fault-schedule families on an in-process grid with the statement monitor")
LEVEL_TEXT = ("Proved in Lean for all histories: both halves of the availability statement for the segment fetcher (any placement, "
              "several shares per server, any set of bad / late shares, any interleaving allowed by `Fair`); the finder's contract "
              "(a hungry ShareFinder with no query in flight has delivered shares or announced no_more_shares, each server asked "
              "once in order); shares announced while no fetcher runs are kept for every later fetcher; in the composed system "
              "(reads + node + its fetchers) a successful read has delivered exactly [offset, offset+size) in order, whatever the "
              "segment-size guess.  Tied to fetcher.py and finder.py by comparing the complete internal state after every event of "
              "seeded scripts (valid and malformed).  Not proved, monitored end-to-end against the statement: that share.py turns "
              "server faults into exactly one terminal event per get_block (the Share state machine is not modelled), and "
              "'terminates WITH SUCCESS when >= k good shares' inside the composed system (termination itself is C46's "
              "every_read_terminates; success needs the C03 invariant threaded through the node's per-segment fetchers — "
              "read_succeeds_partial in the Props header).")
LEVEL_NOTE = ("Lean kernel + standard axioms; schedules are those of the models' event systems (the real reactor / foolscap "
              "machinery is tied only by seeded runs); the finder model is proved separately and not yet composed with Sys in one "
              "transition system; Share (share.py) remains an environment assumption (`Fair`), sampled end-to-end; liveness is 'no "
              "stuck quiescent state', not a time bound.  Defects found by this check and repaired in /repo: 4f1ea1b (get_block on "
              "a dead share never answered), b6b8db9 (wrong segment-size guess made the downloader abandon good shares).")
RULE = ("fixed corpus first (VERIF_CORPUS_ONLY=1 runs only it): fetcher scripts, finder scripts and end-to-end scenarios, one "
        "per seeded change C03-a..e / C46-a..e and per repaired defect; then random families: (1) seeded fetcher scripts (k 1..4, "
        "0..10 shares over 1..6 share numbers and 1..5 servers, dispositions good/corrupt/dead/late, batches, one third with "
        "malformed events) on the real SegmentFetcher and the driver — a case is one script, non-trivial = a get_block was "
        "started; (2) ShareFinder scripts (0..8 servers, parallelism 1..10, answers with/without shares, failures, overdue "
        "timers, repeated hungry, stop) on the real class and the driver; (3) end-to-end scenarios (k-of-n upload to 1..7 "
        "servers, extra copies, deleted / byte-flipped / header-truncated shares per region, targeted damage of one hash-chain / "
        "ciphertext-tree / block-tree node, per-server plans ok/late/error/error-on-nth/one-failing-read/disconnect/"
        "hang-then-drop/late-DYHB, wrong segment-size guesses on fresh nodes incl. one real >1 MiB-segment file in thorough, "
        "late failing reads after a block completed, get_buckets answers held until the node is idle, sequential and concurrent "
        "ranged reads on one node, random/fifo/lifo delivery): a case is one read, non-trivial = at least one fault is present")
TRUSTED = ["lean/Tahoe/Immutable/Fetch.lean, Finder.lean, Segmentation.lean are hand transcriptions of fetcher.py / node.py, "
           "finder.py, segmentation.py (sets as lists, dicts as association lists, the while loop on fuel with a proof that fuel "
           "suffices, stop() deleting attributes modelled as emptying, iterator-exhausted as a flag)",
           "harness/grid.py and the FaultWrapper / wait_all in harness/props/_fetch_common.py (delays on the virtual clock, held "
           "and hung calls, forced time advance after a busy stretch) stand in for foolscap connections",
           "`Fair` (FetchEnv.lean), as far as it is still assumed: a started Share sends exactly one terminal event, COMPLETE iff it "
           "is intact on an answering server (share.py, not modelled); the finder's part of `Fair` is proved for the finder model "
           "(finder_answers_every_hungry) but the two systems are composed by hand"]
ASSUMPTIONS = ["a server that never answers a block read and never disconnects is outside the statement (the real Share never "
               "emits OVERDUE, so the fetcher waits for it); scenarios use finite delays, held answers and hang-then-disconnect",
               "max_outstanding_requests > 0 for the finder theorem (with 0 the finder never asks anybody: shown by an example)",
               "oracle of the end-to-end monitor: good = byte-identical share file on a server whose plan is ok/late; "
               "possible = share file present on a server that does not fail every call; good >= k => exact bytes, "
               "possible < k => NotEnoughShares/NoShares for reads of size > 0, otherwise either",
               "share objects are announced once (distinct objects); rtt ties are broken as Python's stable sort does"]

import json

import common
import props._fetch_common as fc

CORPUS = [
    # the instance used in Props/C03.lean (late share, corrupt share, diversity bump, second server)
    (2, ["a:0.0.0.0,1.1.0.0", "l", "s:0:O", "a:2.0.1.1,3.2.1.1", "l", "s:1:X", "l", "l", "n", "s:3:C", "s:0:C", "l", "l", "l"]),
    (3, ["a:0.0.0.0,1.1.0.0", "l", "n", "s:0:C", "s:1:X", "l", "l", "l"]),
    (1, ["n", "l"]),
    # OVERDUE twice (KeyError), events after stop, add_shares after stop, bad segnum
    (1, ["a:0.0.0.0", "l", "s:0:O", "s:0:O", "l", "x", "a:1.1.1.0", "s:0:C", "n", "l"]),
    (2, ["a:0.0.0.0,1.0.1.0,2.1.0.5", "l", "b", "s:0:B", "l", "l"]),
    # two overdue shares complete after their replacement: more than k blocks
    (1, ["a:0.0.0.0,1.1.1.0", "l", "s:0:O", "l", "s:0:C", "s:1:C", "l", "l"]),
    # seeded C03-b: server 0 holds a damaged share (sh0, DEAD) and an intact one (sh1) that is still unused when sh0
    # dies (diversity limit: server 1's sh2 is active); sh1 + sh2 are k = 2 good share numbers
    (2, ["a:0.2.1.0", "l", "a:1.0.0.1,2.1.0.1", "l", "s:1:D", "l", "n", "l", "s:0:C", "s:2:C", "l", "l"]),
    # seeded C46-e: two copies of share 0 only (k = 2): after the block of share 0 the unused duplicate is no way forward
    (2, ["a:0.0.0.0,1.0.1.1", "l", "n", "l", "s:0:C", "l"]),
    # past harness disagreements: the same share object announced again after no_more_shares
    (2, ["a:-", "l", "a:0.1.0.3,1.0.0.2", "l", "n", "s:0:O", "a:1.0.0.2", "l", "s:0:C", "l", "l", "s:1:D", "l", "l"]),
    (2, ["a:2.0.4.3,3.0.1.0,0.0.3.1,1.1.0.1", "l", "s:1:O", "n", "l", "l", "s:3:C", "a:1.1.0.1", "l", "s:1:C", "b", "l",
         "s:2:X", "l"]),
]


def corpus_fetch_monitor(ctx, k, toks, verdict):
    """the statement on a fixed fair script: shares answering C are the good ones; >= k distinct good share numbers
    => process_blocks, otherwise NotEnoughShares/NoShares.  Scripts with stop / bad segnum / KeyError are skipped."""
    if any(t in ("x", "b") for t in toks) or toks.count("n") == 0:
        return
    announced = [x.split(".")[0] for t in toks if t.startswith("a:") and t != "a:-" for x in t[2:].split(",")]
    if len(announced) != len(set(announced)) or any(t.endswith(":O") and toks.count(t) > 1 for t in toks):
        return          # malformed stream (re-announcement, OVERDUE twice): outside `Fair`
    shares = {}
    for t in toks:
        if t.startswith("a:") and t != "a:-":
            for x in t[2:].split(","):
                sid, shnum, server, rtt = [int(y) for y in x.split(".")]
                shares[sid] = shnum
    good = set(shares[int(t.split(":")[1])] for t in toks if t.startswith("s:") and t.endswith(":C"))
    case = {"kind": "fetch", "k": k, "toks": toks}
    if len(good) >= k and not (verdict or "").startswith("blocks:"):
        ctx.violation(">= k distinct good share numbers answered COMPLETE but the fetcher ended with %s" % verdict, case,
                      "fetcher-failed-with-enough")
    if len(good) < k and verdict not in ("failed:NotEnoughShares", "failed:NoShares"):
        ctx.violation("< k good share numbers but the fetcher ended with %s" % verdict, case, "fetcher-wrong-end-with-too-few")


def fetch_monitor(ctx, k, toks, info):
    """The statement on a complete fair script (fake shares: good = disposition COMPLETE)."""
    case = {"kind": "fetch", "k": k, "toks": toks}
    if info["verdicts"] > 1:
        ctx.violation("the fetcher delivered more than one verdict", case, "fetcher-two-verdicts")
    shares = {s[0]: s for s in info["shares"]}
    goodnums = set(shares[int(i)][1] for i, d in info["disp"].items() if d[0] == "C")
    v = info["verdict"]
    if v and v.startswith("blocks:"):
        blocks = [p.split("=") for p in v[7:].split(",")] if v[7:] != "-" else []
        nums = set(int(a) for a, b in blocks)
        if len(nums) < k:
            ctx.violation("process_blocks called with fewer than k distinct share numbers", case, "fetcher-too-few-blocks")
        for a, b in blocks:
            if info["disp"].get(b, ["?"])[0] != "C" or shares[int(b)][1] != int(a):
                ctx.violation("a delivered block does not come from a good share of that number", case, "fetcher-bad-block")
    finished = not info["running"]
    quiescent = info["complete"] and info["queue"] == 0 and not info["outstanding"]
    if quiescent and not finished:
        ctx.violation("fetcher quiescent without verdict", case, "fetcher-stuck")
    if finished and info["complete"]:
        if len(goodnums) >= k and not (v or "").startswith("blocks:"):
            ctx.violation(">= k distinct good share numbers but the fetcher failed: %s" % v, case, "fetcher-failed-with-enough")
    if v and v.startswith("failed:"):
        if len(goodnums) < k and v not in ("failed:NotEnoughShares", "failed:NoShares"):
            ctx.violation("failure is not NotEnoughShares/NoShares: %s" % v, case, "fetcher-wrong-error")
    if v and v.startswith("blocks:") and len(goodnums) < k:
        ctx.violation("fewer than k good share numbers but blocks were delivered", case, "fetcher-delivered-with-too-few")


def grid_monitor(ctx, sc, out):
    case = {"kind": "grid", "sc": sc}
    if out["upload"] != "ok":
        ctx.count("grid-upload-" + out["upload"])
        return
    k = sc["k"]
    enough = len(out["good"]) >= k
    poss = len(out["possible"]) >= k
    badguess = bool(sc.get("fresh_nodes"))
    faults = bool(sc["share_faults"] or sc["server_plans"] or sc["copies"] or badguess)
    for group, outs in zip(sc["reads"], out["groups"]):
        for (off, sz), o in zip(group, outs):
            ctx.case(json.dumps([sc, off, sz]) if faults else None)
            ctx.count("grid-read:" + o)
            if badguess:
                # first read on a fresh node; relation of the segment number computed from the guessed segment
                # size to the real one (beyond = guessed segnum >= real number of segments)
                ctx.count("badguess:%s:%s%s" % (fc.guess_relation(sc, off), o, ":concurrent" if len(group) > 1 else ""))
            ctx.count("grid-enough" if enough else ("grid-possible" if poss else "grid-too-few"))
            if o == "wrong-data":
                ctx.violation("read returned wrong bytes", case, "wrong-data")
            elif o == "stuck":
                if enough:
                    ctx.violation(">= k good shares on answering servers but the read never completed", case,
                                  "enough-good-shares-read-stuck")
            elif o == "ok":
                if not poss and sz > 0:
                    ctx.violation("data returned although fewer than k share numbers are reachable", case,
                                  "data-with-too-few-shares")
            else:
                if enough:
                    ctx.violation(">= k distinct good shares on answering servers but the read failed with %s%s" %
                                  (o, " (first read on a fresh node, segment-size guess %s real)" %
                                   ("<" if sc["gmax"] < sc["segsize"] else ">") if sc.get("gmax") else ""), case,
                                  "enough-good-shares-read-failed:hash-chain-damage" if sc.get("hashdamage") else
                                  ("wrong-segsize-guess-read-failed-" if badguess else "enough-good-shares-read-failed-") + o)
                elif o not in ("NotEnoughSharesError", "NoSharesError"):
                    ctx.violation("read failed with %s instead of NotEnoughSharesError/NoSharesError" % o, case,
                                  "too-few-shares-wrong-error-" + o)


def late_error_monitor(ctx, sc, out):
    """a share-holding server answers one read late and with an error after the share's block was delivered"""
    case = {"kind": "late-error", "sc": sc}
    if out["upload"] != "ok":
        ctx.count("late-error-upload-" + out["upload"])
        return
    ctx.case(json.dumps(sc))
    res = out["result"]
    ctx.count("late-error-read:" + res)
    if out["silent_death"]:
        # the error arrived while the share had no observer (after its block was delivered)
        ctx.count("late-error:share-died-with-no-observer")
        ctx.count("late-error:died-after-next-fetcher-was-built-then-used" if out["dead_get_block"]
                  else "late-error:died-unobserved-never-used-again")
    if out["death_with_observer"]:
        ctx.count("late-error:share-died-with-observer")
    if res == "stuck":
        ctx.violation("read never completed although %d >= k=%d intact shares are on answering servers%s" %
                      (len(out["good"]), sc["k"], " (get_block() was called on a share that had died unobserved)"
                       if out["dead_get_block"] else ""), case,
                      "stuck-get-block-on-dead-share" if out["dead_get_block"] else "enough-good-shares-read-stuck")
    elif res != "ok":
        ctx.violation("read returned %s although >= k intact shares are on answering servers" % res, case,
                      "wrong-data" if res == "wrong-data" else "enough-good-shares-read-failed-" + res)


def late_dyhb_monitor(ctx, sc, out):
    """a share-location answer that arrives while no fetcher runs, then loss of a server used so far"""
    case = {"kind": "late-dyhb", "sc": sc}
    if out["upload"] != "ok" or not out["setup_ok"]:
        ctx.count("late-dyhb-setup-not-reached")
        return
    ctx.case(json.dumps(sc))
    res = out["result"]
    ctx.count("late-dyhb:%s:%s" % (sc["mode"], res))
    if res == "stuck":
        ctx.violation("read never completed although every server answered or failed", case, "late-dyhb-read-stuck",
                      detail={"unhandled": out.get("unhandled")})
    elif res == "wrong-data":
        ctx.violation("read returned wrong bytes", case, "wrong-data")
    elif sc["mode"] == "control":
        if res == "ok":
            ctx.violation("data returned although only one share is reachable (k=2)", case, "data-with-too-few-shares")
        elif res not in ("NotEnoughSharesError", "NoSharesError"):
            ctx.violation("read failed with %s instead of NotEnoughSharesError/NoSharesError" % res, case,
                          "too-few-shares-wrong-error-" + res)
    elif res != "ok":
        ctx.violation("2 intact shares are on answering servers (one announced while the node was idle) but the %s "
                      "failed with %s (node knows %s shares)" % ("resumed read" if sc["mode"] == "resume" else "second read",
                                                                 res, out.get("node_shares")), case,
                      "late-share-answer-dropped-read-failed")


def run(ctx):
    common.setup_impl_path()
    B = (lambda q, t: 0) if fc.corpus_only() else ctx.budget
    fcases, impl, lines = [], [], []
    scenarios = []
    late = []
    lated = []
    if ctx.replay:
        c = ctx.replay.get("case") or ((ctx.replay.get("correspondence_disagreements") or [{}])[0].get("case")) or {}
        if c.get("kind") == "fetch":
            digs, verdict = fc.replay_fetch_script(c["k"], c["toks"])
            fcases.append(c)
            impl.append(";".join(digs))
            lines.append("fetch %d %s" % (c["k"], " ".join(c["toks"])))
        elif c.get("kind") == "grid":
            scenarios.append(c["sc"])
        elif c.get("kind") == "late-error":
            late.append(c["sc"])
        elif c.get("kind") == "late-dyhb":
            lated.append(c["sc"])
    else:
        for (k, toks) in CORPUS:
            digs, verdict = fc.replay_fetch_script(k, toks)
            fcases.append({"kind": "fetch", "k": k, "toks": toks})
            impl.append(";".join(digs))
            lines.append("fetch %d %s" % (k, " ".join(toks)))
            ctx.case(("F", k, tuple(toks)))
            corpus_fetch_monitor(ctx, k, toks, verdict)
        for i in range(B(600, 30000)):
            malformed = (i % 3 == 2)
            k, toks, digs, info = fc.gen_fetch_script(ctx.rng, malformed=malformed, max_events=300)
            fcases.append({"kind": "fetch", "k": k, "toks": toks})
            impl.append(";".join(digs))
            lines.append("fetch %d %s" % (k, " ".join(toks)))
            started = any("start=" in d for d in digs)
            ctx.case(("F", k, tuple(toks)) if started else None)
            ctx.count("fetch-script:" + ("malformed" if malformed else "fair"))
            ctx.count("fetch-verdict:" + str(info["verdict"]).split(":")[0] +
                      (":" + info["verdict"].split(":")[1] if str(info["verdict"]).startswith("failed") else ""))
            if any("exc=" in d for d in digs):
                ctx.count("fetch-exception-branch")
            if any(d.split("|")[6] not in ("1",) for d in digs):
                ctx.count("fetch-diversity-bump")
            if any(t.endswith(":O") for t in toks):
                ctx.count("fetch-overdue")
            if not malformed and len(toks) < 300:
                fetch_monitor(ctx, k, toks, info)
        for i in range(B(200, 6000)):
            scenarios.append(fc.gen_scenario(ctx.rng))
        for name, sc in fc.GRID_CORPUS:                    # fixed end-to-end corpus, one history per known mechanism
            if not sc["crafted"]:                          # (deliberately inconsistent files are C46's business)
                scenarios.insert(0, dict(sc, corpus=name))
        # corpus: intact 1-of-2 file, 128-byte segments, reader guesses 17: first read at 384 (guessed segnum 22 of 6)
        scenarios.append({"kind": "grid", "k": 1, "n": 2, "servers": 2, "segsize": 128, "gmax": 17, "fresh_nodes": True,
                          "size": 700, "grid_seed": 816538223, "policy": "random", "dataseed": 268472504, "copies": [],
                          "share_faults": [], "server_plans": {}, "reads": [[[384, 17]], [[373, 2]]], "crafted": []})
        for i in range(B(50, 1500)):
            scenarios.append(fc.gen_badguess_scenario(ctx.rng, faults=(i % 2 == 1)))
        for i in range(B(40, 1200)):
            scenarios.append(fc.gen_hashdamage_scenario(ctx.rng))
        if ctx.tier == "thorough" and not fc.corpus_only():
            scenarios.append(fc.big_badguess_scenario())
        for m in ("second-read", "resume", "control"):      # corpus (seeded C03-e): late get_buckets answer while idle
            lated.append(fc.gen_late_dyhb_scenario(None, mode=m, canonical=True))
        for i in range(B(30, 600)):
            lated.append(fc.gen_late_dyhb_scenario(ctx.rng))
        late.append(fc.gen_late_error_scenario(None, canonical=True))      # corpus: minimised history
        for i in range(B(30, 700)):
            late.append(fc.gen_late_error_scenario(ctx.rng))
    # ---- ShareFinder scripts (real class, fake servers)
    if ctx.replay:
        c = ctx.replay.get("case") or ((ctx.replay.get("correspondence_disagreements") or [{}])[0].get("case")) or {}
        fdc = ([c], [";".join(fc.replay_finder_script((c["params"][0], c["params"][1]), c["toks"]))],
               ["finder %d %s %s" % (c["params"][0], ",".join(map(str, c["params"][1])) or "-", " ".join(c["toks"]))]) \
            if c.get("kind") == "finder" else ([], [], [])
    else:
        fdc = fc.finder_family(ctx, B(400, 10000))
    if fdc[2]:
        fmodel = ctx.model(fdc[2])
        if fmodel is not None:
            ctx.compare("ShareFinder script: calls (send / got_shares / no_more_shares), running, hungry, iterator exhausted, "
                        "pending, overdue, timers, queued loops after every event", fdc[0], fdc[1],
                        [";".join(fc.strip_finder_digest(x) for x in m.split(";")) for m in fmodel])
    model = ctx.model(lines) if lines else None
    if model is not None:
        ctx.compare("SegmentFetcher script: calls, _shares, _shares_from_server, _active_share_map, _overdue_share_map, "
                    "_blocks, _max_shares_per_server, flags, queued loops, verdict after every event", fcases, impl, model)
    if fcases:
        ctx.sample({"script": lines[0][:160], "impl": impl[0][:240]})
    for sc in scenarios:
        try:
            out = fc.run_scenario(sc)
        except Exception as e:                       # an exception escaping from one case must not end the run
            import traceback
            ctx.disagree("harness exception in one end-to-end scenario (recorded, run continues)", {"kind": "grid", "sc": sc},
                         traceback.format_exc()[-600:], None)
            ctx.count("scenario-exception:" + type(e).__name__)
            continue
        grid_monitor(ctx, sc, out)
        ctx.sample({"scenario": sc, "outcome": out.get("groups"), "good": out.get("good")}, limit=8)
    for sc in late:
        out = fc.run_late_error(sc)
        late_error_monitor(ctx, sc, out)
        ctx.sample({"late-error": sc, "outcome": {k: out.get(k) for k in ("result", "roles", "silent_death", "dead_get_block")}},
                   limit=9)
    for sc in lated:
        try:
            out = fc.run_late_dyhb(sc)
        except Exception as e:
            import traceback
            ctx.disagree("harness exception in one late-dyhb scenario (recorded, run continues)", {"kind": "late-dyhb", "sc": sc},
                         traceback.format_exc()[-600:], None)
            continue
        late_dyhb_monitor(ctx, sc, out)
    for k, v in fc.WAIT_STATS.items():
        ctx.count("wait:" + k, v)
