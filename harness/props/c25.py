"""C25 — lease semantics (storage/lease.py, lease_schema.py, immutable.py, mutable.py, server.py)."""
import os
import props._storage_common as sc
from common import hx, unhx

ID = "C25"
LEAN_PROPS = "Tahoe.Props.C25"
DRIVER = "C25"
GENERATED = ["storage"]
SOURCES = ["src/allmydata/storage/lease.py", "src/allmydata/storage/lease_schema.py", "src/allmydata/storage/immutable.py",
           "src/allmydata/storage/mutable.py", "src/allmydata/storage/server.py"]
DESIGN_REF = "DESIGN.md §2 C25"
TECHNIQUE = ("Lean 4 theorems (29) over byte-exact models of the lease records, the v1 (cleartext) / v2 (hashed, abstract blake2b) "
             "serializers, add / renew / add_or_renew / cancel on mutable and immutable containers, the immutable upload "
             "(allocate_buckets, BucketWriter.write with its size bound, close) and the server calls over whole buckets; differential "
             "correspondence of a fixed corpus and seeded add_lease / renew_lease / cancel_lease / allocate / data-write histories (lease "
             "lists and raw container bytes) against a real StorageServer over v1 and v2, mutable and immutable containers; the monitor "
             "reads lease records from the raw bytes itself and scans v2 containers for cleartext secrets")
LEVEL_TEXT = ("Proved in Lean: renew_or_add and no_backdating (both container kinds, renew path and add path); at the server level "
              "add_lease_no_duplicate, allocate_no_duplicate, renew_lease_keeps_lease_counts, server_lease_ops_keep_every_lease "
              "(add_lease / renew_lease / allocate_buckets over mixed buckets), rtw_keeps_every_lease (slot_testv_and_readv_and_writev); "
              "unknown_renew_noop_error (+ _server); cancel_removes_exactly (+ _immutable), cancel_unknown_noop_error (+ _immutable), "
              "cancel_all_unlinks_*, cancel_unlink_removes_share_only; leases_survive_data_ops, data_write_keeps_leases_immutable, "
              "open_upload_container; v2_no_cleartext (non-interference in the secret, abstract blake2b); lease_constants. The model "
              "is tied to the code by comparing get_leases / get_slot_leases and the raw bytes of every container after each operation.")
LEVEL_NOTE = ("Lean kernel + standard axioms; blake2b abstract (its values are supplied to the driver as a table computed by nacl); "
              "timing_safe_compare modelled as equality. Hypotheses that exclude inputs: expiry times < 2^32 and immutable lease count "
              "+ 1 < 2^32 (Python raises struct.error there, the model packs mod 2^32); request keys distinct in rtw_keeps_every_lease. "
              "Not covered: the exact bucket-level expiry value max(old, new) (container level: renew_or_add; buckets: not smaller); "
              "expirer-driven cancellation schedules (C26); BucketWriter's overlap check and 30-minute timeout (C22).")
RULE = ("a fixed corpus (growth smaller than the extra-lease block with 7 leases, holes after cancel, upload overruns, secrets / hashes "
        "ending in 0x00, renew-by-add without spare space) followed by seeded histories of add_lease / renew_lease (repeated, fresh and "
        "unknown secrets) / cancel_lease (holes in the lease table) / allocate_buckets on buckets that already hold shares / "
        "read-test-write data writes / immutable uploads (in-bounds, exact and overrunning BucketWriter writes) over buckets holding "
        "mutable (v1 fabricated, v2) or immutable (v1, v2 fabricated) containers with 0..10 leases, available space 0 / small / large "
        "and a forward-moving clock; a case is one operation; distinct = distinct (history index, op index); non-trivial = the bucket "
        "holds a share with >= 1 lease")
TRUSTED = ["lean/Tahoe/Storage/Lease.lean, Mutable.lean, Slot.lean are hand transcriptions of the lease code paths",
           "blake2b (nacl) abstract in the model; harness supplies its values",
           "v1 containers and pre-existing immutable shares are fabricated by the harness; harness-side raw lease parser (sc.parse_leases)"]
ASSUMPTIONS = ["timing_safe_compare is equality", "expiry times < 2^32, lease counts + 1 < 2^32 (struct.error otherwise)",
               "lease secrets are 32 bytes (shorter ones are zero-padded by struct.pack)", "get_available_space() is patched by the harness to the value under test"]

RENEWAL = 31 * 24 * 60 * 60
WE = hx(b"W" * 32)


def sec(rng):
    return hx(bytes(rng.randrange(1, 256) for _ in range(32)))


def gen_history(rng, nops):
    ops = []
    kind = rng.choice(["mut2", "mut2", "mut1", "imm1", "imm2", "mutmix"])
    pool = [[sec(rng), sec(rng)] for _ in range(rng.choice([1, 2, 4, 11]))]
    now = rng.randrange(0, 2000)
    pre = rng.sample(pool, rng.randrange(0, len(pool) + 1))[:10]

    def lease_tuples(ls, far=False, holes=False):
        out = [(1, (now + RENEWAL + rng.choice([0, 5, 10 ** 6])) if not far else 4 * 10 ** 8, unhx(r), unhx(c)) for (r, c) in ls]
        if holes and len(out) >= 2:
            # empty slots in the middle of the table, as an earlier cancel_lease leaves them (never the last one)
            for i in rng.sample(range(len(out) - 1), rng.randrange(1, max(2, len(out) // 2))):
                out[i] = (0, 0, b"", b"")
        return out
    if kind in ("mut1", "mutmix"):
        data = sc.rand_bytes(rng, rng.randrange(0, 60))
        ops.append(["put", 0, sc.rle(sc.fabricate_mutable(1, sc.NODEID, unhx(WE), data, lease_tuples(pre, holes=rng.random() < 0.3), extra_gap=rng.choice([0, 9])))])
    if kind in ("mut2", "mutmix"):
        n = 1 if kind == "mutmix" else 0
        data = sc.rand_bytes(rng, rng.randrange(0, 60))
        if rng.random() < 0.5:
            ops.append(["put", n, sc.rle(sc.fabricate_mutable(2, sc.NODEID, unhx(WE), data, lease_tuples(pre[:rng.randrange(0, len(pre) + 1)], holes=rng.random() < 0.3)))])
        else:
            p = rng.choice(pool)
            ops.append(["rtw", now, 10 ** 12, WE, p[0], p[1], rng.random() < 0.7, [[n, [], [[0, hx(data)]], None]], []])
    if kind in ("imm1", "imm2"):
        v = 1 if kind == "imm1" else 2
        for n in range(rng.choice([1, 1, 2])):
            data = sc.rand_bytes(rng, rng.randrange(0, 80))
            ls = lease_tuples(pre[:rng.randrange(1, len(pre) + 1)] if pre else [pool[0]], far=rng.random() < 0.2)
            ops.append(["put", n, sc.rle(sc.fabricate_immutable(v, data, ls))])
    cur = 60
    for _ in range(nops):
        now += rng.choice([0, 0, 1, 3600, 86400, 40 * 86400])
        r = rng.random()
        if rng.random() < 0.17:
            # the lease crawler (or an operator) cancels a lease by its cancel secret: leaves a hole in a mutable
            # container, re-packs an immutable one; the history then goes on with add / renew / writes / listings
            c = rng.choice(pool)[1] if rng.random() < 0.85 else sec(rng)
            nshare = rng.choice([0, 0, 1]) if kind in ("mutmix", "imm1", "imm2") else 0
            ops.append(["cancel", nshare, rng.choice(["secret", "crawler"]), c])
            if rng.random() < 0.5:
                ops.append(["leases"])
            if rng.random() < 0.6:
                # go on with a secret that is probably still on the share, now possibly behind a hole
                q = rng.choice(pool)
                if rng.random() < 0.5:
                    ops += [["order"], ["addlease", now, 10 ** 12, q[0], q[1]]]
                else:
                    ops += [["order"], ["renew", now, q[0]]]
            continue
        if r < 0.4:
            p = rng.choice(pool) if rng.random() < 0.75 else [sec(rng), sec(rng)]
            if kind in ("imm1", "imm2") and rng.random() < 0.3:
                # allocate_buckets for another share number: the lease goes onto every share already held; on a server
                # without spare space (avail 0 / 50) no writer is created but known secrets are still renewed
                na = rng.choice([7, 8])
                # (closed at once: an upload left open is aborted by BucketWriter's 30-minute timeout when the clock moves on)
                ops += [["order"], ["alloc", now, rng.choice([0, 50, 10 ** 12]), na, rng.choice([5, 60]), p[0], p[1]], ["bclose", na]]
            else:
                ops += [["order"], ["addlease", now, rng.choice([10 ** 12, 10 ** 12, 10 ** 12, 80, 0, 0]), p[0], p[1]]]
        elif r < 0.65:
            s = rng.choice(pool)[0] if rng.random() < 0.7 else sec(rng)
            ops += [["order"], ["renew", now, s]]
        elif r < 0.85 and kind.startswith("mut"):
            p = rng.choice(pool)
            n = rng.choice([0, 1]) if kind == "mutmix" else 0
            dv, cur = sc.rand_datav(rng, cur, 3000, nmax=2)
            nl = None if rng.random() < 0.7 else rng.randrange(1, cur + 10)
            ops.append(["rtw", now, 10 ** 12, WE, p[0], p[1], rng.random() < 0.5, [[n, [], dv, nl]], []])
        elif r < 0.93:
            ops.append(["leases"])
        else:
            ops.append(["dump"])
    ops += [["leases"], ["dump"]]
    return {"nodeid": hx(sc.NODEID), "ops": ops, "kind": kind}


OVERRUNS = [1, 2, 4, 5, 11, 12, 13, 40]


def gen_upload_history(rng):
    """An immutable upload through the real BucketWriter: allocate (the lease is written at once), data writes
    while the upload is open — in bounds, ending exactly at the allocated size, and overrunning it by a few
    bytes —, close, then lease operations with the uploader's own secrets."""
    ops = []
    now = rng.randrange(0, 2000)
    pool = [[sec(rng), sec(rng)] for _ in range(3)]
    mine = pool[0]
    n = 0
    if rng.random() < 0.35:
        # the bucket already holds a closed share with some leases
        v = rng.choice([1, 2])
        ls = [(1, now + RENEWAL + 7, unhx(r), unhx(c)) for (r, c) in rng.sample(pool, rng.randrange(1, 3))]
        ops.append(["put", 0, sc.rle(sc.fabricate_immutable(v, sc.rand_bytes(rng, rng.randrange(0, 30)), ls))])
        n = 1
    size = rng.choice([0, 0, 1, 1, 2, 5, 12, 13, 30, 100])
    ops += [["order"], ["alloc", now, 10 ** 12, n, size, mine[0], mine[1]], ["idump"]]
    ptr = 0
    steps = rng.randrange(2, 7)
    for k in range(steps):
        r = rng.random()
        if r < 0.38:
            over = rng.choice(OVERRUNS)
            start = ptr if rng.random() < 0.7 else max(0, size - rng.randrange(0, 3))
            start = max(start, ptr)
            ln = size - start + over
            ops.append(["bwrite", n, start, hx(sc.rand_bytes(rng, ln))])      # refused: ends `over` bytes past the end
        elif r < 0.55 and ptr < size:
            ops.append(["bwrite", n, ptr, hx(sc.rand_bytes(rng, size - ptr))])   # ends exactly at the allocated size
            ptr = size
        elif ptr < size:
            ln = rng.randrange(1, size - ptr + 1)
            ops.append(["bwrite", n, ptr, hx(sc.rand_bytes(rng, ln))])
            ptr += ln
        else:
            over = rng.choice(OVERRUNS)
            ops.append(["bwrite", n, size, hx(sc.rand_bytes(rng, over))])      # a write starting at the very end
        ops.append(["idump"])
    ops += [["bclose", n], ["leases"], ["dump"]]
    for _ in range(rng.randrange(2, 7)):
        now += rng.choice([0, 1, 3600, 40 * 86400])
        r = rng.random()
        if r < 0.45:
            p = mine if rng.random() < 0.8 else rng.choice(pool)
            ops += [["order"], ["addlease", now, 10 ** 12, p[0], p[1]]]
        elif r < 0.8:
            ops += [["order"], ["renew", now, mine[0] if rng.random() < 0.8 else sec(rng)]]
        elif r < 0.9:
            ops.append(["cancel", n, rng.choice(["secret", "crawler"]), rng.choice(pool)[1]])
        else:
            ops.append(["leases"])
    ops += [["leases"], ["dump"]]
    return {"nodeid": hx(sc.NODEID), "ops": ops, "kind": "immupload"}


def container_version(raw):
    """('mutable'|'immutable', schema version) from the file bytes (written from the format description)"""
    if raw[:26] == b"Tahoe mutable container v1":
        return ("mutable", 1)
    if raw[:26] == b"Tahoe mutable container v2":
        return ("mutable", 2)
    v = int.from_bytes(raw[:4], "big")
    return ("immutable", v)


class Monitor:
    """The C25 statement on the real server.  The leases a container holds are read from its RAW BYTES with the
    harness's own parser (sc.parse_leases), not through get_leases, so that a lease the code can no longer see is
    still known to the monitor."""

    def __init__(self, ctx, hist, hi):
        self.ctx, self.hist, self.hi, self.opi = ctx, hist, hi, -1
        self.secrets = [unhx(s) for s in sc.secrets_of(hist) if unhx(s) != b"\x00" * 32]

    def viol(self, what, sig, detail):
        self.ctx.violation(what, {"history": self.hist, "op_index": self.opi}, sig, detail)

    def stored(self, raw, secret):
        return secret if container_version(raw)[1] == 1 else sc.blake(secret)

    @staticmethod
    def parsed(raw):
        return {n: sc.parse_leases(v) for n, v in raw.items()}

    def __call__(self, impl, op, phase, info):
        ctx = self.ctx
        if phase == "before":
            self.opi += 1
            if op[0] in ("addlease", "renew", "rtw", "cancel", "alloc"):
                info["raw"] = impl.raw()
            if op[0] == "bwrite":
                info["inc"] = impl.raw_incoming()
            return
        kind = op[0]
        if kind == "bwrite":
            # leases survive share data writes: after EVERY data write of an open immutable upload, accepted or
            # refused, every lease record of the container is byte-for-byte what it was
            n = op[1]
            r0, r1 = info["inc"].get(n), impl.raw_incoming().get(n)
            exc = info.get("exc")
            ctx.count("bwrite:%s" % (type(exc).__name__ if exc else "ok"))
            if r0 is not None and r1 is not None:
                size = len(r0) - 12 - 72 * len(sc.parse_leases(r0))
                end = op[2] + len(unhx(op[3]))
                ctx.count("bwrite:" + ("in-bounds" if end < size else "ends-at-size" if end == size else "overrun-%d" % (end - size)))
                if sc.parse_leases(r1) != sc.parse_leases(r0) or r1[12 + size:] != r0[12 + size:]:
                    self.viol("a share data write changed a lease record of the immutable container",
                              "lease-changed-by-data-write:immutable",
                              {"share": n, "allocated_size": size, "write_end": end, "accepted": exc is None})
                ctx.case((self.hi, self.opi))
            return
        if kind not in ("addlease", "renew", "rtw", "cancel", "alloc"):
            return
        raw0, raw1 = info["raw"], impl.raw()
        p0, p1 = self.parsed(raw0), self.parsed(raw1)
        exc = info.get("exc")
        ctx.count("%s:%s" % (kind, type(exc).__name__ if exc else "ok"))
        holes = any(len(p0[n]) and [l[0] for l in p0[n]] != list(range(len(p0[n]))) for n in p0)
        if holes:
            ctx.count("state:lease-table-with-holes")
        # new-format containers never hold a secret in cleartext
        for n, raw in raw1.items():
            if container_version(raw)[1] == 2:
                for s in self.secrets:
                    if s in raw:
                        self.viol("a v2 container holds a lease secret in cleartext", "v2-cleartext-secret", {"share": n})
                ctx.count("v2-container-scanned")
        if kind == "cancel":
            (_, n, mode, csec) = op
            if n in p0 and exc is None:
                want = [l for l in p0[n] if l[4] != self.stored(raw0[n], unhx(csec))]
                got = p1.get(n, [])
                if [l[1:] for l in got] != [l[1:] for l in want]:
                    self.viol("cancel_lease did not remove exactly the leases with that cancel secret", "cancel-wrong-set",
                              {"share": n, "before": len(p0[n]), "after": len(got), "want": len(want)})
            ctx.case((self.hi, self.opi) if any(p0.values()) else None)
            return
        # every operation of the statement: a lease present before is still there with the same secrets and an
        # expiry that is not smaller
        for n in p0:
            if n not in p1:
                continue
            for (slot, o, e, r, c) in p0[n]:
                same = [l for l in p1[n] if l[3] == r and l[4] == c]
                if not same:
                    self.viol("a lease disappeared", "lease-lost-" + kind, {"share": n, "slot": slot})
                elif max(l[2] for l in same) < e:
                    self.viol("an operation shortened a lease's expiry", "backdated-" + kind, {"share": n, "slot": slot})
        # ... and is still LISTED by get_leases / get_slot_leases (a lease the server cannot see has not survived)
        listed = impl.leases()
        for n in p1:
            have = set((l[2], l[3]) for l in listed.get(n, []))
            for (slot, o, e, r, c) in p1[n]:
                if (r, c) not in have:
                    self.viol("a live lease record is not listed by get_leases after the operation",
                              "live-lease-not-listed-after-" + kind, {"share": n, "slot": slot, "holes_before": holes})
        if kind in ("addlease", "rtw", "alloc"):
            if kind in ("addlease", "alloc"):
                # add_lease, and allocate_buckets (which puts the lease on every share the bucket already holds)
                if kind == "addlease":
                    (_, now, avail, renew, cancel) = op
                else:
                    (_, now, avail, _n, _size, renew, cancel) = op
                targets = [n for n in p1 if n in p0]
                # "adding a lease whose renew secret already exists renews that lease": when EVERY share already holds
                # the secret nothing has to be allocated, so the call cannot be refused for lack of space
                knows = [n for n in p0 if any(l[3] == self.stored(raw0[n], unhx(renew)) for l in p0[n])]
                if p0 and len(knows) == len(p0):
                    ctx.count(kind + ":secret-known-to-every-share" + (":no-space" if avail < 72 else ""))
                    if exc is not None:
                        self.viol("adding a lease with a renew secret every share already holds raised %s instead of renewing"
                                  % type(exc).__name__, "renew-by-add-refused:" + type(exc).__name__,
                                  {"available_space": avail, "op": kind})
            else:
                (_, now, avail, we, renew, cancel, rl, tw, rv) = op
                targets = [n for n in p1 if n in p0 and rl and exc is None and n in [e[0] for e in tw]]
                if not rl and exc is None:
                    for n in p0:
                        if n in p1 and p1[n] != p0[n]:
                            self.viol("a data write altered the leases", "leases-changed-by-data-write", {"share": n})
                        ctx.count("rtw:leases-preserved-checked")
            new_exp = now + RENEWAL
            for n in targets:
                want_r = self.stored(raw0[n], unhx(renew))
                before = [l for l in p0[n] if l[3] == want_r]
                after = [l for l in p1[n] if l[3] == want_r]
                if before:
                    ctx.count(kind + ":existing-secret" + ("-behind-hole" if holes else ""))
                    if len(after) != len(before) or len(p1[n]) != len(p0[n]):
                        self.viol("adding a lease with an existing renew secret changed the number of leases (duplicate)",
                                  "duplicate-lease-added", {"share": n, "before": len(p0[n]), "after": len(p1[n]),
                                                            "holes_before": holes})
                    elif exc is not None:
                        ctx.count(kind + ":aborted-by-error")
                    elif after[0][2] != max(before[0][2], new_exp):
                        self.viol("add with an existing renew secret did not set expiry to max(old, new)", "renew-expiry-wrong",
                                  {"share": n, "old": before[0][2], "new": new_exp, "got": after[0][2]})
                    if [l for l in p1[n] if l[3] != want_r] != [l for l in p0[n] if l[3] != want_r] and len(p1[n]) == len(p0[n]):
                        self.viol("renewing one lease altered another", "other-lease-changed", {"share": n})
                elif exc is None:
                    ctx.count(kind + ":fresh-secret")
                    if len(p1[n]) != len(p0[n]) + 1:
                        self.viol("adding a lease with a fresh secret did not add exactly one lease", "fresh-lease-count",
                                  {"share": n, "before": len(p0[n]), "after": len(p1[n])})
                    elif not any(l[3] == want_r and l[2] == new_exp for l in p1[n]):
                        self.viol("the added lease is not recorded with the new expiry", "fresh-lease-missing", {"share": n})
        elif kind == "renew":
            (_, now, secret) = op
            known = [n for n in p0 if any(l[3] == self.stored(raw0[n], unhx(secret)) for l in p0[n])]
            if not known:
                ctx.count("renew:unknown-secret")
                if exc is None or type(exc).__name__ != "IndexError":
                    self.viol("renewing with an unknown secret did not report an error", "unknown-renew-no-error", None)
                if raw1 != raw0:
                    self.viol("renewing with an unknown secret changed a container", "unknown-renew-changed-files", None)
            elif len(known) == len(p0):
                ctx.count("renew:known-secret" + ("-behind-hole" if holes else ""))
                if exc is not None:
                    self.viol("renewing with a secret that every share of the bucket knows raised %s" % type(exc).__name__,
                              "known-renew-raised", {"holes_before": holes})
                else:
                    for n in known:
                        want_r = self.stored(raw0[n], unhx(secret))
                        b0 = [l for l in p0[n] if l[3] == want_r][0]
                        a0 = [l for l in p1[n] if l[3] == want_r]
                        if not a0 or a0[0][2] != max(b0[2], now + RENEWAL):
                            self.viol("renew did not set expiry to max(old, new)", "renew-expiry-wrong", {"share": n})
            else:
                ctx.count("renew:known-to-some-shares")
        nontrivial = any(len(v) > 0 for v in p0.values())
        ctx.case((self.hi, self.opi) if nontrivial else None)


def S(k):
    return hx(bytes([k]) * 32)


def corpus():
    """Fixed cases that run first in every run; one per known failure mechanism.  VERIF_CORPUS_ONLY=1 runs only these."""
    return [corpus_growth_with_extra_leases(), corpus_holes(), corpus_upload_overrun(), corpus_secrets_ending_in_nul(),
            corpus_renew_by_add_without_space()]


def corpus_growth_with_extra_leases():
    """a mutable share with 7 leases (3 extra, block of 280 bytes) grows by less than the block, then the later leases
    are renewed / re-added by their own secrets"""
    ls = [(1, 3000000 + i, bytes([0x21 + i]) * 32, bytes([0x31 + i]) * 32) for i in range(7)]
    ops = [["put", 0, sc.rle(sc.fabricate_mutable(2, sc.NODEID, unhx(WE), b"d" * 10, ls))], ["leases"]]
    end = 10
    for grow in [3, 40, 150, 279]:
        end += grow
        ops += [["rtw", 100, 10 ** 12, WE, S(0x21), S(0x31), False, [[0, [], [[end - 1, hx(b"G")]], None]], []], ["leases"], ["dump"]]
    ops += [["order"], ["renew", 200, S(0x26)], ["order"], ["addlease", 300, 10 ** 12, S(0x27), S(0x37)], ["leases"], ["dump"]]
    return {"nodeid": hx(sc.NODEID), "ops": ops, "kind": "corpus"}


def corpus_holes():
    """cancel a lease in an earlier slot (header slot and extra slot), then renew / add / write with the secrets of leases
    BEHIND the hole"""
    ls = [(1, 3000000 + i, bytes([0x21 + i]) * 32, bytes([0x31 + i]) * 32) for i in range(6)]
    ops = [["put", 0, sc.rle(sc.fabricate_mutable(2, sc.NODEID, unhx(WE), b"data", ls))],
           ["cancel", 0, "crawler", S(0x31)], ["leases"],
           ["order"], ["renew", 10, S(0x22)], ["order"], ["addlease", 20, 10 ** 12, S(0x23), S(0x33)], ["leases"],
           ["rtw", 30, 10 ** 12, WE, S(0x24), S(0x34), True, [[0, [], [[4, hx(b"more")]], None]], []], ["leases"],
           ["cancel", 0, "secret", S(0x35)], ["order"], ["renew", 40, S(0x26)], ["order"],
           ["addlease", 50, 10 ** 12, S(0x26), S(0x36)], ["leases"], ["dump"]]
    return {"nodeid": hx(sc.NODEID), "ops": ops, "kind": "corpus"}


# 32-byte secrets whose blake2b-256 hash ends in 0x00 (found once by search; checked by the corpus builder)
HASH_ENDS_NUL = ["7070707070707070707070707070707070707070707070707070707000000022",
                 "707070707070707070707070707070707070707070707070707070700000012d"]


def corpus_secrets_ending_in_nul():
    """stored lease secrets that END IN A ZERO BYTE are secrets like any other: v1 containers (cleartext) with a renew
    secret ending in 0x00, v2 containers with a renew secret whose blake2b hash ends in 0x00; mutable and immutable;
    renew and re-add by that secret must find the lease (no IndexError, no duplicate), cancel by it must work"""
    for x in HASH_ENDS_NUL:
        assert sc.blake(unhx(x))[-1] == 0
    r1 = hx(b"\x33" * 30 + b"\x00\x00")          # cleartext secret ending in two NULs
    c1 = hx(b"\x34" * 31 + b"\x00")
    r2, c2 = HASH_ENDS_NUL
    plain = (1, 3000000, b"\x21" * 32, b"\x31" * 32)
    ops = [
        ["put", 0, sc.rle(sc.fabricate_mutable(1, sc.NODEID, unhx(WE), b"v1 data", [plain, (1, 3000001, unhx(r1), unhx(c1))]))],
        ["put", 1, sc.rle(sc.fabricate_immutable(1, b"imm v1", [plain, (1, 3000001, unhx(r1), unhx(c1))]))],
        ["put", 2, sc.rle(sc.fabricate_mutable(2, sc.NODEID, unhx(WE), b"v2 data", [plain, (1, 3000001, unhx(r2), unhx(c2))]))],
        ["put", 3, sc.rle(sc.fabricate_immutable(2, b"imm v2", [plain, (1, 3000001, unhx(r2), unhx(c2))]))],
        ["leases"]]
    # shares 0/1 know r1, shares 2/3 know r2: add_lease renews where known and adds where not — never a duplicate
    for k, (r, c) in enumerate([(r1, c1), (r2, c2)]):
        ops += [["order"], ["addlease", 400000 + 200000 * k, 10 ** 12, r, c], ["leases"],
                ["order"], ["addlease", 500000 + 200000 * k, 10 ** 12, r, c], ["leases"]]
    # now every share knows both secrets: renew_lease must succeed
    ops += [["order"], ["renew", 800000, r1], ["order"], ["renew", 800001, r2], ["leases"], ["dump"]]
    # a v2 mutable share created by the server itself with such a secret, and an upload
    ops += [["rtw", 800002, 10 ** 12, WE, r2, c2, True, [[2, [], [[0, hx(b"more")]], None]], []], ["leases"],
            ["cancel", 0, "secret", c1], ["cancel", 3, "crawler", c2], ["leases"], ["dump"]]
    return {"nodeid": hx(sc.NODEID), "ops": ops, "kind": "corpus"}


def corpus_renew_by_add_without_space():
    """a server with no spare space (read-only / reserved space exhausted: get_available_space() = 0): add_lease and
    allocate_buckets with a renew secret the shares already hold must RENEW (expiry advances, count unchanged) — on
    immutable v1 and v2 shares and on mutable ones; only a secret that needs a new record may be refused"""
    la, lb = (1, 3000000, b"\x21" * 32, b"\x31" * 32), (1, 3000001, b"\x22" * 32, b"\x32" * 32)
    hists_ops = []
    for v in (1, 2):
        hists_ops += [["put", v - 1, sc.rle(sc.fabricate_immutable(v, b"imm data v%d" % v, [la, lb]))]]
    ops = hists_ops + [["leases"],
           ["order"], ["addlease", 400000, 0, S(0x22), S(0x32)], ["leases"],
           ["order"], ["addlease", 500000, 10, S(0x21), S(0x31)], ["leases"],
           ["order"], ["alloc", 600000, 0, 5, 10, S(0x22), S(0x32)], ["leases"],
           ["order"], ["addlease", 700000, 0, S(0x29), S(0x39)], ["leases"],      # fresh secret, no space: refused, nothing added
           ["order"], ["renew", 800000, S(0x21)], ["leases"], ["dump"]]
    return {"nodeid": hx(sc.NODEID), "ops": ops, "kind": "corpus"}


def corpus_upload_overrun():
    """immutable uploads of size 1, 0 and 20: writes overrunning by 1, 5, 12 and 13 bytes, an exact one, then the
    uploader renews / re-adds with its own secrets"""
    ops = []
    now = 5
    for (n, size) in [(0, 1), (1, 0), (2, 20)]:
        ops += [["order"], ["alloc", now, 10 ** 12, n, size, S(0x41 + n), S(0x51 + n)], ["idump"]]
        for over in [1, 5, 12, 13]:
            ops += [["bwrite", n, 0, hx(b"\xee" * (size + over))], ["idump"]]
        if size:
            ops += [["bwrite", n, 0, hx(b"\xdd" * size)], ["idump"]]
        ops += [["bclose", n], ["leases"]]
    ops += [["order"], ["renew", 50, S(0x41)], ["order"], ["addlease", 60, 10 ** 12, S(0x42), S(0x52)], ["leases"], ["dump"]]
    return {"nodeid": hx(sc.NODEID), "ops": ops, "kind": "corpus"}


def run(ctx):
    impl = sc.Impl()
    try:
        if ctx.replay:
            hists = [ctx.replay["case"]["history"]]
        else:
            hists = corpus()
            for i in range(0 if os.environ.get("VERIF_CORPUS_ONLY") else ctx.budget(150, 12000)):
                if i % 4 == 3:
                    hists.append(gen_upload_history(ctx.rng))
                else:
                    hists.append(gen_history(ctx.rng, ctx.rng.choice([4, 10, 25])))
        impl_outs, lines = [], []
        for hi, h in enumerate(hists):
            ctx.count("kind:" + h.get("kind", "?"))
            out, line = sc.run_history(impl, h, Monitor(ctx, h, hi))
            impl_outs.append(out)
            lines.append(line)
        model = ctx.model(lines)
        ctx.compare("lease history (add_lease / renew_lease results, lease lists, raw container bytes)",
                    [{"history": h} for h in hists], impl_outs, model)
        ctx.sample({"ops": hists[-1]["ops"][:3], "impl": impl_outs[-1][:300]})
    finally:
        impl.close()
