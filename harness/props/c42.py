"""C42 — the backup database reuses caps only for unchanged content (scripts/backupdb.py BackupDB_v2)."""
import hashlib
import io
import os
import shutil
import stat as statmod

ID = "C42"
LEAN_PROPS = "Tahoe.Props.C42"
DRIVER = "C42"
GENERATED = ["backupdb"]
SOURCES = ["src/allmydata/scripts/backupdb.py", "src/allmydata/scripts/tahoe_backup.py", "src/allmydata/util/netstring.py",
           "src/allmydata/util/dbutil.py"]
DESIGN_REF = "DESIGN.md §2 C42"
TECHNIQUE = ("Lean 4 invariant proofs over an executable finite-map model of BackupDB_v2 (all six public methods, "
             "FileResult/DirectoryResult); netstring unique decodability and canonical sorting proved for the directory "
             "encoding; differential correspondence of seeded API-call histories against a real BackupDB_v2 on SQLite "
             "with os.stat / time.time / random.random controlled")
LEVEL_TEXT = ("reuse_only_if_unchanged and dir_reuse_only_same_contents (under an explicit collision-freeness hypothesis on the "
              "directory hash) are proved for every history of API calls; dir_encoding_injective/canonical for all contents; "
              "the model is tied to the code by comparing every call's result, the hashed directory string and full table dumps.")
LEVEL_NOTE = ("Lean kernel + standard axioms; the model is a hand transcription tied by correspondence; SQLite semantics "
              "(PRIMARY KEY/UNIQUE/AUTOINCREMENT, REPLACE) are modelled as finite maps; the clock is integer seconds and "
              "random() a multiple of 1/1024 (float rounding argued harmless, boundary cases generated).")
RULE = ("seeded histories of check_file / did_upload / did_check_healthy / check_directory / did_create / did_check_healthy "
        "(also on stale result objects), whole backup runs following tahoe_backup.py's protocol, file edits (size, mtime, ctime, "
        "reverts, renames), clock jumps around the 1- and 2-month thresholds, table dumps and database reopen; a case is one API "
        "call; distinct = distinct (history prefix, call); non-trivial = a check_file on a path that has an upload record or a "
        "check_directory after at least one did_create")
TRUSTED = ["lean/Tahoe/BackupDb.lean is a hand transcription of BackupDB_v2; SQLite tables are modelled as finite maps",
           "the harness replaces the names os, time and random in backupdb's module namespace (and wraps backupdb_dirhash to "
           "record the hashed string)"]
ASSUMPTIONS = [
    "the directory hash (tagged SHA-256d, base32) is collision-free (explicit hypothesis of dir_reuse_only_same_contents; the driver uses the identity)",
    "paths are absolute and normalised (abspath_expanduser_unicode is the identity on them); str.encode('utf-8') is injective",
    "time.time() returns integer seconds and random.random() a multiple of 1/1024; the float comparison then equals the exact rational one (|p - r| >= 1/(1024*2592000) unless equal)",
    "os.stat succeeds (the tool only checks files it has just listed); did_check_healthy is called on results that carry a cap (API contract)",
    "the record of an upload is (size, mtime, ctime) as captured by the check_file call whose FileResult receives did_upload — the statement's 'record of its most recent upload'",
]

BASE_T = 1_700_000_000
MONTH = 30 * 24 * 3600


def hx(b):
    return b.hex() if b else "-"


class FakeOS:
    path = os.path

    def __init__(self):
        self.files = {}

    def stat(self, p):
        size, mtime, ctime = self.files[p]
        t = [0] * 10
        t[statmod.ST_SIZE] = size
        t[statmod.ST_MTIME] = mtime
        t[statmod.ST_CTIME] = ctime
        return tuple(t)


class FakeTime:
    now = BASE_T

    def time(self):
        return self.now


class FakeRandom:
    k = 0

    def random(self):
        return self.k / 1024.0


class World:
    """a real BackupDB_v2 with the environment under control"""

    def __init__(self, dbfile):
        from allmydata.scripts import backupdb
        self.mod = backupdb
        self.saved = (backupdb.os, backupdb.time, backupdb.random, backupdb.backupdb_dirhash)
        self.os, self.time, self.random = FakeOS(), FakeTime(), FakeRandom()
        self.hashed = {}       # dirhash_s -> data
        self.last_data = None
        real_hash = self.saved[3]

        def rec_hash(data):
            from allmydata.util import base32
            self.last_data = bytes(data)
            h = real_hash(data)
            self.hashed[base32.b2a(h)] = bytes(data)
            return h
        backupdb.os, backupdb.time, backupdb.random, backupdb.backupdb_dirhash = self.os, self.time, self.random, rec_hash
        self.dbfile = dbfile
        self.bdb = None
        self.open()

    def open(self):
        err = io.StringIO()
        # get_backupdb uses os.path.exists through dbutil's own `os`, not the patched name
        self.bdb = self.mod.get_backupdb(self.dbfile, stderr=err)
        if self.bdb is None:
            raise RuntimeError("get_backupdb failed: " + err.getvalue())

    def reopen(self):
        self.bdb.connection.close()
        self.open()

    def close(self):
        m = self.mod
        m.os, m.time, m.random, m.backupdb_dirhash = self.saved
        try:
            self.bdb.connection.close()
        except Exception:
            pass

    def dump(self):
        c = self.bdb.connection.cursor()
        lf = sorted("%s/%d/%d/%d/%d" % (hx(p.encode("utf-8")), s, m, ct, f)
                    for (p, s, m, ct, f) in c.execute("SELECT path,size,mtime,ctime,fileid FROM local_files"))
        caps = ["%d/%s" % (f, hx(bytes(cap))) for (f, cap) in c.execute("SELECT fileid,filecap FROM caps ORDER BY fileid")]
        lu = ["%d/%d/%d" % (f, a, b) for (f, a, b) in
              c.execute("SELECT fileid,last_uploaded,last_checked FROM last_upload ORDER BY fileid")]
        dirs = sorted("%s/%s/%d/%d" % (hx(self.hashed[bytes(h) if isinstance(h, bytes) else h.encode("ascii")]), hx(bytes(d)), a, b)
                      for (h, d, a, b) in c.execute("SELECT dirhash,dircap,last_uploaded,last_checked FROM directories"))
        return "lf[%s]caps[%s]lu[%s]dirs[%s]" % ("|".join(lf), "|".join(caps), "|".join(lu), "|".join(dirs))


# ------------------------------------------------------------------------------------------------ generation
# A history is a JSON-able list of steps; world edits are steps too, so a history replays exactly.

PATHS = ["/v/a", "/v/b", "/v/a ", "/v/A", "/v/ä", "/v/dir/a", "/v/a.txt", "/v/€/x"]
NAMES = ["a", "b", "ab", "a1:", "1:a,", "é", "", "a,b", "0", "10", "z", "A", "€", "b,1:c"]
CAPS = [b"URI:CHK:aaa", b"URI:CHK:bbb", b"URI:CHK:ccc", b"URI:LIT:x", b"", b"1:b,", b"c", b"bc", b"URI:DIR2-CHK:ddd", b"x,1:y"]


def gen_contents(rng, pool):
    r = rng.random()
    if pool and r < 0.45:
        c = dict(rng.choice(pool))
        r2 = rng.random()
        items = list(c.items())
        if r2 < 0.5:
            rng.shuffle(items)                     # same contents, different dict order
        elif r2 < 0.7 and items:
            k, v = rng.choice(items)
            items = [(a, (rng.choice(CAPS) if a == k else b)) for a, b in items]   # one cap changed
        elif r2 < 0.85 and items:
            items.pop(rng.randrange(len(items)))   # one entry dropped
        else:
            items.append((rng.choice(NAMES), rng.choice(CAPS)))                    # one entry added / replaced
        return [[k, v.hex()] for k, v in dict(items).items()]
    n = rng.choice([0, 1, 1, 2, 2, 3, 5])
    names = rng.sample(NAMES, n)
    return [[k, rng.choice(CAPS).hex()] for k in names]


def gen_history(rng, n):
    steps = []
    files = {}
    nres = ndres = 0
    dir_pool = []
    fresh = [0]

    def newcap():
        fresh[0] += 1
        return (b"URI:CHK:new%d" % fresh[0]) if rng.random() < 0.7 else rng.choice(CAPS)

    def edit(p):
        if p not in files:
            files[p] = [rng.choice([0, 1, 10, 2 ** 40]), BASE_T - rng.randrange(0, 5), BASE_T - rng.randrange(0, 5)]
        else:
            s = files[p]
            which = rng.random()
            if which < 0.3:
                s[0] += rng.choice([1, -1, 10]) if s[0] > 0 else 1
            elif which < 0.55:
                s[1] += rng.choice([1, -1, 3600, -10 ** 9 * 4])
            elif which < 0.8:
                s[2] += rng.choice([1, 2, 60])
            else:
                s[0] += 1; s[1] += 1; s[2] += 1
        steps.append(["set", p, list(files[p])])

    while len(steps) < n:
        r = rng.random()
        if r < 0.12 or not files:
            edit(rng.choice(PATHS))
        elif r < 0.15 and len(files) >= 1:
            a = rng.choice(sorted(files)); b = rng.choice(PATHS)
            if a != b:
                files[b] = files.pop(a)
                steps.append(["mv", a, b])
        elif r < 0.20 and len(files) >= 1:
            # put an old stat triple back (a restored file)
            p = rng.choice(sorted(files))
            old = [s for s in steps if s[0] == "set" and s[1] == p]
            if old:
                files[p] = list(rng.choice(old)[2])
                steps.append(["set", p, list(files[p])])
        elif r < 0.30:
            dt = rng.choice([1, 60, 86400, MONTH - 1, MONTH, MONTH + 1, MONTH + MONTH // 2, 2 * MONTH - 1, 2 * MONTH, 3 * MONTH,
                             MONTH + 4 * rng.randrange(256) * (MONTH // 1024)])
            steps.append(["tick", dt])
        elif r < 0.50:
            steps.append(["cf", rng.choice(sorted(files)), rng.random() < 0.85, rng.randrange(1024)])
            nres += 1
        elif r < 0.62 and nres:
            idx = nres - 1 if rng.random() < 0.7 else rng.randrange(nres)
            steps.append(["up", idx, newcap().hex()])
        elif r < 0.66 and nres:
            steps.append(["hl", nres - 1 if rng.random() < 0.7 else rng.randrange(nres)])
        elif r < 0.72:
            # one whole backup run over all files, following tahoe_backup.py
            steps.append(["run", rng.random() < 0.9, [rng.randrange(1024) for _ in files], [rng.random() < 0.7 for _ in files],
                          [newcap().hex() for _ in files]])
            nres += len(files)
        elif r < 0.84:
            c = gen_contents(rng, dir_pool)
            dir_pool.append([(k, bytes.fromhex(v)) for k, v in c])
            steps.append(["cd", c, rng.randrange(1024)])
            ndres += 1
            if rng.random() < 0.5:      # the tool creates the directory right away when told to
                steps.append(["dc", ndres - 1, (b"URI:DIR2-CHK:d%d" % rng.randrange(4)).hex()])
        elif r < 0.92 and ndres:
            idx = ndres - 1 if rng.random() < 0.75 else rng.randrange(ndres)
            steps.append(["dc", idx, (rng.choice([b"URI:DIR2-CHK:d%d" % rng.randrange(4), b""]) if rng.random() < 0.9 else b"").hex()])
        elif r < 0.95 and ndres:
            steps.append(["dh", ndres - 1 if rng.random() < 0.7 else rng.randrange(ndres)])
        elif r < 0.98:
            steps.append(["dump"])
        else:
            steps.append(["reopen"])
    steps.append(["dump"])
    return steps


CORPUS = [
    # unchanged file is reused, touched file is not, ignore-timestamps never reuses
    [["set", "/v/a", [10, 5, 6]], ["cf", "/v/a", True, 0], ["up", 0, b"URI:CHK:aaa".hex()], ["cf", "/v/a", True, 0],
     ["cf", "/v/a", False, 0], ["cf", "/v/a", True, 0], ["up", 2, b"URI:CHK:bbb".hex()], ["set", "/v/a", [10, 5, 7]],
     ["cf", "/v/a", True, 0], ["dump"]],
    # stale FileResult: an old result records the old stat with a new cap
    [["set", "/v/a", [10, 5, 6]], ["cf", "/v/a", True, 0], ["set", "/v/a", [11, 5, 6]], ["cf", "/v/a", True, 0],
     ["up", 1, b"URI:CHK:new".hex()], ["up", 0, b"URI:CHK:old".hex()], ["cf", "/v/a", True, 0], ["set", "/v/a", [10, 5, 6]],
     ["cf", "/v/a", True, 0], ["dump"]],
    # directory: permuted dict reuses, framing-sensitive near misses do not
    [["cd", [["a", b"bc".hex()], ["b", b"c".hex()]], 0], ["dc", 0, b"URI:DIR2-CHK:d1".hex()],
     ["cd", [["b", b"c".hex()], ["a", b"bc".hex()]], 0], ["cd", [["ab", b"c".hex()], ["b", b"c".hex()]], 0],
     ["cd", [["a", b"bc".hex()]], 0], ["tick", 2 * MONTH], ["cd", [["a", b"bc".hex()], ["b", b"c".hex()]], 1023], ["dh", 4],
     ["cd", [["a", b"bc".hex()], ["b", b"c".hex()]], 1023], ["dump"]],
]


# ------------------------------------------------------------------------------------------------ execution

def execute(ctx, steps, dbfile, case):
    """run one history on the real code; returns (impl outputs, driver tokens); evaluates the monitor"""
    w = World(dbfile)
    outs, toks = [], []
    fres, dres = [], []           # (FileResult, …) / (DirectoryResult, contents list)
    ref_upload = {}               # path -> (size, mtime, ctime, cap)   [statement side]
    ref_created = []              # [(contents dict, dircap)] in call order
    prefix = hashlib.md5()

    def note(tok, nontrivial):
        prefix.update(tok.encode())
        ctx.case(prefix.hexdigest()[:16] if nontrivial else None)

    def do_cf(p, ts, k):
        w.random.k = k
        size, mtime, ctime = w.os.files[p]
        had = p in ref_upload
        r = w.bdb.check_file(p, use_timestamps=ts)
        fres.append(r)
        got = r.was_uploaded()
        tok = "cf:%s:%d:%d:%d:%d:%d:%d" % (hx(p.encode("utf-8")), size, mtime, ctime, 1 if ts else 0, w.time.now, k)
        toks.append(tok)
        outs.append("%s,%s,%s" % ("N" if r.filecap is None else hx(r.filecap), "T" if r.should_check() else "F",
                                  hx(got) if got else "F"))
        # ---- monitor: the statement
        if got:
            rec = ref_upload.get(p)
            if not ts:
                ctx.violation("check_file reused a cap although timestamps are not trusted", case, "file-reuse:timestamps-untrusted")
            elif rec is None:
                ctx.violation("check_file reused a cap for a path with no upload record", case, "file-reuse:no-upload-record")
            elif rec[:3] != (size, mtime, ctime):
                which = [n for n, a, b in zip(("size", "mtime", "ctime"), rec[:3], (size, mtime, ctime)) if a != b]
                ctx.violation("check_file reused a cap although %s differ from the most recent upload's record" % "+".join(which),
                              case, "file-reuse:stat-differs:" + "+".join(which))
            elif rec[3] != got:
                ctx.violation("check_file returned a cap that is not the most recent upload's", case, "file-reuse:wrong-cap")
            ctx.count("file:reused" + (":should-check" if r.should_check() else ""))
        else:
            ctx.count("file:must-upload")
        note(tok, had)
        return r

    def do_up(r, cap):
        r.did_upload(cap)
        ref_upload[r.path] = (r.size, r.mtime, r.ctime, cap)
        tok = "up:%s:%s:%d:%d:%d:%d" % (hx(cap), hx(r.path.encode("utf-8")), r.mtime, r.ctime, r.size, w.time.now)
        toks.append(tok); outs.append("ok"); note(tok, False)

    def do_hl(r):
        r.did_check_healthy({"results": {"healthy": True}})
        tok = "hl:%s:%d" % (hx(r.filecap), w.time.now)
        toks.append(tok); outs.append("ok"); note(tok, False)

    def enc_entries(c):
        return ",".join("%s.%s" % (hx(k.encode("utf-8")), hx(bytes.fromhex(v))) for k, v in c) or "_"

    try:
        for st in steps:
            op = st[0]
            ctx.count("op:" + op)
            if op == "set":
                w.os.files[st[1]] = tuple(st[2])
            elif op == "mv":
                w.os.files[st[2]] = w.os.files.pop(st[1])
            elif op == "tick":
                w.time.now += st[1]
            elif op == "cf":
                do_cf(st[1], st[2], st[3])
            elif op == "up":
                do_up(fres[st[1]], bytes.fromhex(st[2]))
            elif op == "hl":
                r = fres[st[1]]
                if r.filecap is not None:
                    do_hl(r)
            elif op == "run":
                _, ts, ks, healthy, caps = st
                for i, p in enumerate(sorted(w.os.files)):
                    r = do_cf(p, ts, ks[i % len(ks)])
                    if not r.was_uploaded():
                        do_up(r, bytes.fromhex(caps[i % len(caps)]))
                    elif r.should_check():
                        if healthy[i % len(healthy)]:
                            do_hl(r)
                        else:
                            do_up(r, bytes.fromhex(caps[i % len(caps)]))
            elif op == "cd":
                c = st[1]
                contents = {k: bytes.fromhex(v) for k, v in c}
                w.random.k = st[2]
                w.last_data = None
                r = w.bdb.check_directory(contents)
                dres.append((r, c, contents))
                got = r.was_created()
                tok = "cd:%s:%d:%d" % (enc_entries(c), w.time.now, st[2])
                toks.append(tok)
                outs.append("%s,%s,%s,%s" % (hx(w.last_data), "N" if r.dircap is None else hx(r.dircap),
                                             "T" if r.should_check() else "F", hx(got) if got else "F"))
                if got:
                    # the statement: a dircap is reused only for exactly the same name-to-cap contents, i.e. it must be
                    # a dircap that was recorded for these very contents (the model proves more: the most recent one)
                    same = [d for (cc, d) in ref_created if cc == contents]
                    if got not in same:
                        ctx.violation("check_directory reused a dircap that was never recorded for exactly these contents",
                                      case, "dir-reuse:different-contents" if not same else "dir-reuse:foreign-dircap")
                    elif same[-1] != got:
                        ctx.count("dir:reused-older-dircap-of-same-contents")
                    ctx.count("dir:reused")
                else:
                    ctx.count("dir:must-create")
                note(tok, bool(ref_created))
            elif op == "dc":
                r, c, contents = dres[st[1]]
                d = bytes.fromhex(st[2])
                r.did_create(d)
                ref_created.append((contents, d))
                tok = "dc:%s:%s:%d" % (hx(d), enc_entries(c), w.time.now)
                toks.append(tok); outs.append("ok"); note(tok, False)
            elif op == "dh":
                r, c, contents = dres[st[1]]
                if r.dircap is not None:
                    r.did_check_healthy({"results": {"healthy": True}})
                    tok = "dh:%s:%d" % (hx(r.dircap), w.time.now)
                    toks.append(tok); outs.append("ok"); note(tok, False)
            elif op == "dump":
                toks.append("dump"); outs.append(w.dump())
            elif op == "reopen":
                if dbfile != ":memory:":
                    w.reopen()
                    # result objects keep the old connection's BackupDB; give them the new one, as a new tool run would
                    for r in fres:
                        r.bdb = w.bdb
                    for (r, _, _) in dres:
                        r.bdb = w.bdb
            else:
                raise ValueError(st)
    finally:
        w.close()
    return ";".join(outs), "hist " + " ".join(toks)


def run(ctx):
    from common import WORK
    tmp = os.path.join(WORK, "c42-%d" % os.getpid())
    os.makedirs(tmp, exist_ok=True)
    hists = []
    if ctx.replay:
        hists = [ctx.replay["case"]["steps"]]
    else:
        hists += CORPUS
        for _ in range(ctx.budget(250, 6000)):
            hists.append(gen_history(ctx.rng, ctx.rng.choice([8, 20, 40, 90])))
    cases, impl, lines = [], [], []
    try:
        for i, h in enumerate(hists):
            on_disk = any(s[0] == "reopen" for s in h)
            dbfile = os.path.join(tmp, "h%d.sqlite" % i) if on_disk else ":memory:"
            case = {"steps": h}
            out, line = execute(ctx, h, dbfile, case)
            if on_disk:
                ctx.count("history:on-disk-with-reopen")
                os.unlink(dbfile)
            cases.append(case); impl.append(out); lines.append(line)
    finally:
        shutil.rmtree(tmp, ignore_errors=True)
    model = ctx.model(lines)
    ctx.compare("BackupDB_v2 history: every call's result, hashed directory string, table dumps", cases, impl, model)
    ctx.sample({"steps": hists[0][:6], "impl": impl[0][:300]})
    if len(hists) > 3:
        ctx.sample({"steps": hists[3][:8], "impl": impl[3][:300]})
