"""C42 — the backup database reuses caps only for unchanged content (scripts/backupdb.py BackupDB_v2)."""
import hashlib
import io
import os
import shutil
import stat as statmod

ID = "C42"
LEAN_PROPS = "Tahoe.Props.C42"
DRIVER = "C42"
GENERATED = ["backupdb"]
SOURCES = ["src/allmydata/scripts/backupdb.py", "src/allmydata/scripts/tahoe_backup.py", "src/allmydata/util/netstring.py",
           "src/allmydata/util/dbutil.py"]
DESIGN_REF = "DESIGN.md §2 C42"
TECHNIQUE = ("Lean 4 invariant proofs over an executable finite-map model of BackupDB_v2 (all six public methods, "
             "FileResult/DirectoryResult), of the tool's use of it through result objects (sessions) and of whole backup runs "
             "(per-file / per-directory run steps, ordinary and --ignore-timestamps); netstring unique decodability and canonical "
             "sorting proved for the directory encoding; differential correspondence of seeded API-call histories against a real "
             "BackupDB_v2 on SQLite with os.stat / time.time / random.random controlled, and of whole runs against the real "
             "tahoe_backup machinery (collect_backup_targets, run_backup, BackerUpper.upload / upload_directory) with the HTTP layer faked")
LEVEL_TEXT = ("21 theorems, none partial. Files: reuse_only_if_unchanged (every history of API calls: a cap is reported only with trusted "
              "timestamps and size/mtime/ctime equal to the record of the most recent upload of the path, whose cap it is), "
              "did_upload_records_sampled_stat and reuse_only_if_sampled_stat_unchanged (the record is the stat sampled at check time), "
              "session_reuse_only_if_unchanged and session_results_carry_sampled_stat (the tool working through result objects, old ones "
              "included), backup_runs_reuse_sound (every reuse decision, file and directory, in any history of ordinary and "
              "--ignore-timestamps runs), ignore_timestamps_run_records_new_cap, tool_file_step_reuse_sound, tool_dir_step_reuse_sound. "
              "Caps table: fileid_of_cap_unique, fileid_determines_cap, alloc_stable_along_history, alloc_independent_of_other_tables. "
              "Directories: dir_encoding_injective and dir_encoding_canonical without hypothesis; dir_reuse_only_same_contents, "
              "dir_reuse_witness, session_dir_reuse_only_same_contents under the explicit hypothesis that the directory hash is injective. "
              "Also no_check_within_a_month, always_check_after_two_months, netstring_sample_pinned. The model is tied to the code by "
              "comparing every call's result, the hashed directory string, full table dumps, and every per-file / per-directory decision "
              "of whole runs of the real tool.")
LEVEL_NOTE = ("Lean kernel + standard axioms; the model is a hand transcription tied by correspondence; SQLite semantics "
              "(PRIMARY KEY/UNIQUE/AUTOINCREMENT, REPLACE) are modelled as finite maps; the clock is integer seconds and "
              "random() a multiple of 1/1024 (float rounding argued harmless, boundary cases generated). Correspondence only (no theorem): "
              "SQLite itself, abspath_expanduser_unicode, the float arithmetic of the check probability, SHA-256d/base32 (hypothesis "
              "Function.Injective H), and that tahoe_backup.py uses the result objects as the session model says. No defect of /repo was found "
              "for this property; all five seeded changes (C42-a..e) are caught by fixed-corpus cases.")
RULE = ("seeded histories of check_file / did_upload / did_check_healthy / check_directory / did_create / did_check_healthy "
        "(also on stale result objects), whole backup runs following tahoe_backup.py's protocol, file edits (size, mtime, ctime, "
        "reverts, renames), writes inside the upload window — between check_file(path) and result.did_upload(cap): same-size and "
        "size-changing modification, append, touch, replace-by-rename, delete/recreate, delete — followed by runs with trusted "
        "timestamps, whole backup runs through the real tahoe_backup machinery (collect_backup_targets, run_backup, "
        "BackerUpper.upload / upload_directory; do_http and mkdir faked, content-derived caps, virtual mtime/ctime) mixing ordinary "
        "and --ignore-timestamps runs with silent (same stat) and loud content changes, touches, renames and clock jumps, "
        "six tool-level cases through the real BackerUpper.upload with the HTTP PUT faked (the file is written during "
        "the PUT), clock jumps around the 1- and 2-month thresholds, table dumps and database reopen; a case is one API "
        "call; distinct = distinct (history prefix, call); non-trivial = a check_file on a path that has an upload record or a "
        "check_directory after at least one did_create")
TRUSTED = ["lean/Tahoe/BackupDb.lean is a hand transcription of BackupDB_v2 (SQLite tables are modelled as finite maps); "
           "lean/Tahoe/BackupDb/Session.lean is a hand transcription of how tahoe_backup.py uses it (result objects, "
           "check_backupdb_file / upload / check_backupdb_directory / upload_directory as run steps)",
           "in the whole-run family do_http and mkdir of tahoe_backup are replaced by local fakes (content-derived file caps, fresh "
           "dircaps) and a virtual mtime/ctime is laid over os.stat in backupdb's namespace",
           "the harness replaces the names os, time and random in backupdb's module namespace (and wraps backupdb_dirhash to "
           "record the hashed string)"]
ASSUMPTIONS = [
    "the directory hash (tagged SHA-256d, base32) is collision-free (explicit hypothesis Function.Injective H of dir_reuse_only_same_contents, session_dir_reuse_only_same_contents, tool_dir_step_reuse_sound and the directory half of backup_runs_reuse_sound; the driver uses the identity)",
    "paths are absolute and normalised (abspath_expanduser_unicode is the identity on them); str.encode('utf-8') is injective",
    "time.time() returns integer seconds and random.random() a multiple of 1/1024; the float comparison then equals the exact rational one (|p - r| >= 1/(1024*2592000) unless equal)",
    "os.stat succeeds (the tool only checks files it has just listed); did_check_healthy is called on results that carry a cap (API contract)",
    "the record of an upload is the (size, mtime, ctime) sampled by the check_file call whose FileResult receives did_upload, i.e. sampled before the bytes were read (FileResult.didUpload in the model; the harness keeps its own copy of that stat and of the content identity) — the statement's 'record of its most recent upload'; reuse with other bytes but an identical stat triple is permitted ('timestamps are trusted') and only counted",
]

BASE_T = 1_700_000_000
MONTH = 30 * 24 * 3600


def hx(b):
    return b.hex() if b else "-"


class FakeOS:
    path = os.path

    def __init__(self):
        self.files = {}

    def stat(self, p):
        if p not in self.files:
            raise FileNotFoundError(2, "No such file or directory", p)
        size, mtime, ctime = self.files[p]
        t = [0] * 10
        t[statmod.ST_SIZE] = size
        t[statmod.ST_MTIME] = mtime
        t[statmod.ST_CTIME] = ctime
        return tuple(t)


class FakeTime:
    now = BASE_T

    def time(self):
        return self.now


class FakeRandom:
    k = 0

    def random(self):
        return self.k / 1024.0


class World:
    """a real BackupDB_v2 with the environment under control"""

    def __init__(self, dbfile):
        from allmydata.scripts import backupdb
        self.mod = backupdb
        self.saved = (backupdb.os, backupdb.time, backupdb.random, backupdb.backupdb_dirhash)
        self.os, self.time, self.random = FakeOS(), FakeTime(), FakeRandom()
        self.hashed = {}       # dirhash_s -> data
        self.last_data = None
        real_hash = self.saved[3]

        def rec_hash(data):
            from allmydata.util import base32
            self.last_data = bytes(data)
            h = real_hash(data)
            self.hashed[base32.b2a(h)] = bytes(data)
            return h
        backupdb.os, backupdb.time, backupdb.random, backupdb.backupdb_dirhash = self.os, self.time, self.random, rec_hash
        self.dbfile = dbfile
        self.bdb = None
        self.open()

    def open(self):
        err = io.StringIO()
        # get_backupdb uses os.path.exists through dbutil's own `os`, not the patched name
        self.bdb = self.mod.get_backupdb(self.dbfile, stderr=err)
        if self.bdb is None:
            raise RuntimeError("get_backupdb failed: " + err.getvalue())

    def reopen(self):
        self.bdb.connection.close()
        self.open()

    def close(self):
        m = self.mod
        m.os, m.time, m.random, m.backupdb_dirhash = self.saved
        try:
            self.bdb.connection.close()
        except Exception:
            pass

    def dump(self):
        c = self.bdb.connection.cursor()
        lf = sorted("%s/%d/%d/%d/%d" % (hx(p.encode("utf-8")), s, m, ct, f)
                    for (p, s, m, ct, f) in c.execute("SELECT path,size,mtime,ctime,fileid FROM local_files"))
        caps = ["%d/%s" % (f, hx(bytes(cap))) for (f, cap) in c.execute("SELECT fileid,filecap FROM caps ORDER BY fileid")]
        lu = ["%d/%d/%d" % (f, a, b) for (f, a, b) in
              c.execute("SELECT fileid,last_uploaded,last_checked FROM last_upload ORDER BY fileid")]
        dirs = sorted("%s/%s/%d/%d" % (hx(self.hashed[bytes(h) if isinstance(h, bytes) else h.encode("ascii")]), hx(bytes(d)), a, b)
                      for (h, d, a, b) in c.execute("SELECT dirhash,dircap,last_uploaded,last_checked FROM directories"))
        return "lf[%s]caps[%s]lu[%s]dirs[%s]" % ("|".join(lf), "|".join(caps), "|".join(lu), "|".join(dirs))


# ------------------------------------------------------------------------------------------------ generation
# A history is a JSON-able list of steps; world edits are steps too, so a history replays exactly.

PATHS = ["/v/a", "/v/b", "/v/a ", "/v/A", "/v/ä", "/v/dir/a", "/v/a.txt", "/v/€/x"]
NAMES = ["a", "b", "ab", "a1:", "1:a,", "é", "", "a,b", "0", "10", "z", "A", "€", "b,1:c"]
CAPS = [b"URI:CHK:aaa", b"URI:CHK:bbb", b"URI:CHK:ccc", b"URI:LIT:x", b"", b"1:b,", b"c", b"bc", b"URI:DIR2-CHK:ddd", b"x,1:y"]


def gen_contents(rng, pool):
    r = rng.random()
    if pool and r < 0.45:
        c = dict(rng.choice(pool))
        r2 = rng.random()
        items = list(c.items())
        if r2 < 0.5:
            rng.shuffle(items)                     # same contents, different dict order
        elif r2 < 0.7 and items:
            k, v = rng.choice(items)
            items = [(a, (rng.choice(CAPS) if a == k else b)) for a, b in items]   # one cap changed
        elif r2 < 0.85 and items:
            items.pop(rng.randrange(len(items)))   # one entry dropped
        else:
            items.append((rng.choice(NAMES), rng.choice(CAPS)))                    # one entry added / replaced
        return [[k, v.hex()] for k, v in dict(items).items()]
    n = rng.choice([0, 1, 1, 2, 2, 3, 5])
    names = rng.sample(NAMES, n)
    return [[k, rng.choice(CAPS).hex()] for k in names]


def gen_history(rng, n):
    steps = []
    files = {}
    nres = ndres = 0
    dir_pool = []
    fresh = [0]

    def newcap():
        fresh[0] += 1
        return (b"URI:CHK:new%d" % fresh[0]) if rng.random() < 0.7 else rng.choice(CAPS)

    def edit(p):
        if p not in files:
            files[p] = [rng.choice([0, 1, 10, 2 ** 40]), BASE_T - rng.randrange(0, 5), BASE_T - rng.randrange(0, 5)]
        else:
            s = files[p]
            which = rng.random()
            if which < 0.3:
                s[0] += rng.choice([1, -1, 10]) if s[0] > 0 else 1
            elif which < 0.55:
                s[1] += rng.choice([1, -1, 3600, -10 ** 9 * 4])
            elif which < 0.8:
                s[2] += rng.choice([1, 2, 60])
            else:
                s[0] += 1; s[1] += 1; s[2] += 1
        steps.append(["set", p, list(files[p])])

    def window_write(p):
        """something happens to `p` while its upload is in flight (between check_file and did_upload)"""
        s = files[p]
        kind = rng.choice(["modify-same-size", "modify-size", "append", "touch", "replace-by-rename", "delete-recreate",
                           "delete", "modify-same-stat"])
        if kind == "modify-same-size":
            s[1] += rng.choice([1, 7]); s[2] = max(s[2], s[1])
        elif kind in ("modify-size", "append"):
            s[0] += rng.choice([1, 9]) if kind == "append" or s[0] == 0 else rng.choice([1, -1])
            s[1] += rng.choice([0, 1, 7]); s[2] += 1
        elif kind == "touch":
            s[1] += rng.choice([1, 100, -50]); s[2] += 1
        elif kind == "replace-by-rename":
            s[0] = rng.choice([s[0], s[0] + 3]); s[1] -= rng.choice([0, 5, 1000]); s[2] += 2
        elif kind == "delete-recreate":
            steps.append(["rm", p])
            s[0] = rng.choice([0, s[0], s[0] + 1]); s[1] += 3; s[2] += 3
        elif kind == "delete":
            steps.append(["rm", p])
            del files[p]
            return
        steps.append(["write", p, list(s), kind])

    while len(steps) < n:
        r = rng.random()
        if files and r < 0.10:
            # a backup of one file with a writer racing the upload, then (later) an ordinary run with trusted timestamps
            p = rng.choice(sorted(files))
            steps.append(["cf", p, rng.random() < 0.9, rng.randrange(1024)])
            nres += 1
            for _ in range(rng.choice([1, 1, 2])):
                if p in files:
                    window_write(p)
            steps.append(["up", nres - 1, newcap().hex()])
            if rng.random() < 0.5:
                steps.append(["tick", rng.choice([1, 60, 86400])])
            if files and rng.random() < 0.8:
                steps.append(["run", True, [rng.randrange(1024) for _ in files], [rng.random() < 0.7 for _ in files],
                              [newcap().hex() for _ in files]])
                nres += len(files)
        elif r < 0.12 or not files:
            edit(rng.choice(PATHS))
        elif r < 0.15 and len(files) >= 1:
            a = rng.choice(sorted(files)); b = rng.choice(PATHS)
            if a != b:
                files[b] = files.pop(a)
                steps.append(["mv", a, b])
        elif r < 0.20 and len(files) >= 1:
            # put an old stat triple back (a restored file)
            p = rng.choice(sorted(files))
            old = [s for s in steps if s[0] == "set" and s[1] == p]
            if old:
                files[p] = list(rng.choice(old)[2])
                steps.append(["set", p, list(files[p])])
        elif r < 0.30:
            dt = rng.choice([1, 60, 86400, MONTH - 1, MONTH, MONTH + 1, MONTH + MONTH // 2, 2 * MONTH - 1, 2 * MONTH, 3 * MONTH,
                             MONTH + 4 * rng.randrange(256) * (MONTH // 1024)])
            steps.append(["tick", dt])
        elif r < 0.50:
            steps.append(["cf", rng.choice(sorted(files)), rng.random() < 0.85, rng.randrange(1024)])
            nres += 1
        elif r < 0.62 and nres:
            idx = nres - 1 if rng.random() < 0.7 else rng.randrange(nres)
            steps.append(["up", idx, newcap().hex()])
        elif r < 0.66 and nres:
            steps.append(["hl", nres - 1 if rng.random() < 0.7 else rng.randrange(nres)])
        elif r < 0.72:
            # one whole backup run over all files, following tahoe_backup.py
            steps.append(["run", rng.random() < 0.9, [rng.randrange(1024) for _ in files], [rng.random() < 0.7 for _ in files],
                          [newcap().hex() for _ in files]])
            nres += len(files)
        elif r < 0.84:
            c = gen_contents(rng, dir_pool)
            dir_pool.append([(k, bytes.fromhex(v)) for k, v in c])
            steps.append(["cd", c, rng.randrange(1024)])
            ndres += 1
            if rng.random() < 0.5:      # the tool creates the directory right away when told to
                steps.append(["dc", ndres - 1, (b"URI:DIR2-CHK:d%d" % rng.randrange(4)).hex()])
        elif r < 0.92 and ndres:
            idx = ndres - 1 if rng.random() < 0.75 else rng.randrange(ndres)
            steps.append(["dc", idx, (rng.choice([b"URI:DIR2-CHK:d%d" % rng.randrange(4), b""]) if rng.random() < 0.9 else b"").hex()])
        elif r < 0.95 and ndres:
            steps.append(["dh", ndres - 1 if rng.random() < 0.7 else rng.randrange(ndres)])
        elif r < 0.965:
            # direct calls of the BackupDB_v2 methods (not through a result object)
            k = rng.random()
            if k < 0.4:
                st = list(files[rng.choice(sorted(files))]) if files and rng.random() < 0.7 else [rng.randrange(20), BASE_T, BASE_T]
                steps.append(["api-up", rng.choice(PATHS), st, newcap().hex()])
            elif k < 0.6:
                steps.append(["api-hl", rng.choice(CAPS + [b"URI:CHK:new1", b"URI:CHK:never-seen"]).hex()])
            elif k < 0.8 and ndres:
                steps.append(["api-dc", rng.randrange(ndres), (b"URI:DIR2-CHK:d%d" % rng.randrange(4)).hex()])
            else:
                steps.append(["api-dh", (b"URI:DIR2-CHK:d%d" % rng.randrange(4)).hex()])
        elif r < 0.98:
            steps.append(["dump"])
        else:
            steps.append(["reopen"])
    steps.append(["dump"])
    return steps


CORPUS = [
    # unchanged file is reused, touched file is not, ignore-timestamps never reuses
    [["set", "/v/a", [10, 5, 6]], ["cf", "/v/a", True, 0], ["up", 0, b"URI:CHK:aaa".hex()], ["cf", "/v/a", True, 0],
     ["cf", "/v/a", False, 0], ["cf", "/v/a", True, 0], ["up", 2, b"URI:CHK:bbb".hex()], ["set", "/v/a", [10, 5, 7]],
     ["cf", "/v/a", True, 0], ["dump"]],
    # stale FileResult: an old result records the old stat with a new cap
    [["set", "/v/a", [10, 5, 6]], ["cf", "/v/a", True, 0], ["set", "/v/a", [11, 5, 6]], ["cf", "/v/a", True, 0],
     ["up", 1, b"URI:CHK:new".hex()], ["up", 0, b"URI:CHK:old".hex()], ["cf", "/v/a", True, 0], ["set", "/v/a", [10, 5, 6]],
     ["cf", "/v/a", True, 0], ["dump"]],
    # a touched file is uploaded again and yields a cap the database already knows, after other rows were inserted:
    # the known cap must keep its own fileid (not the rowid of whatever was inserted last)   [seeded change C42-b]
    [["set", "/v/a", [10, 5, 6]], ["set", "/v/b", [20, 5, 6]], ["cf", "/v/a", True, 0], ["up", 0, b"URI:CHK:aaa".hex()],
     ["cf", "/v/b", True, 0], ["up", 1, b"URI:CHK:bbb".hex()], ["set", "/v/a", [10, 8, 9]], ["cf", "/v/a", True, 0],
     ["up", 2, b"URI:CHK:aaa".hex()], ["cf", "/v/a", True, 0], ["cf", "/v/b", True, 0], ["dump"],
     ["cd", [["a", b"URI:CHK:aaa".hex()]], 0], ["dc", 0, b"URI:DIR2-CHK:d1".hex()], ["set", "/v/b", [20, 8, 9]],
     ["cf", "/v/b", True, 0], ["up", 5, b"URI:CHK:bbb".hex()], ["cf", "/v/b", True, 0], ["cf", "/v/a", True, 0], ["dump"]],
    # two paths that differ only in letter case are different files, each with its own record   [seeded change C42-d]
    [["set", "/v/Makefile", [10, 100, 100]], ["set", "/v/makefile", [10, 100, 100]], ["cf", "/v/Makefile", True, 0],
     ["up", 0, b"URI:CHK:upper".hex()], ["cf", "/v/makefile", True, 0], ["up", 1, b"URI:CHK:lower".hex()],
     ["cf", "/v/Makefile", True, 0], ["cf", "/v/makefile", True, 0], ["dump"]],
    # timestamps one second off, same size: not "the same" (no tolerance window)   [seeded change C42-a]
    [["set", "/v/a", [10, 100, 100]], ["cf", "/v/a", True, 0], ["up", 0, b"URI:CHK:aaa".hex()],
     ["write", "/v/a", [10, 101, 100], "modify-same-size"], ["cf", "/v/a", True, 0], ["up", 1, b"URI:CHK:aab".hex()],
     ["write", "/v/a", [10, 101, 101], "modify-same-size"], ["cf", "/v/a", True, 0], ["up", 2, b"URI:CHK:aac".hex()],
     ["write", "/v/a", [10, 100, 100], "modify-same-size"], ["cf", "/v/a", True, 0], ["dump"]],
    # the file is written while its upload is in flight, then an ordinary run   [seeded change C42-c]
    [["set", "/v/a", [10, 100, 100]], ["cf", "/v/a", True, 0], ["write", "/v/a", [14, 107, 107], "append"],
     ["up", 0, b"URI:CHK:old-bytes".hex()], ["cf", "/v/a", True, 0], ["dump"]],
    # directory: permuted dict reuses, framing-sensitive near misses do not
    [["cd", [["a", b"bc".hex()], ["b", b"c".hex()]], 0], ["dc", 0, b"URI:DIR2-CHK:d1".hex()],
     ["cd", [["b", b"c".hex()], ["a", b"bc".hex()]], 0], ["cd", [["ab", b"c".hex()], ["b", b"c".hex()]], 0],
     ["cd", [["a", b"bc".hex()]], 0], ["tick", 2 * MONTH], ["cd", [["a", b"bc".hex()], ["b", b"c".hex()]], 1023], ["dh", 4],
     ["cd", [["a", b"bc".hex()], ["b", b"c".hex()]], 1023], ["dump"]],
]


# ------------------------------------------------------------------------------------------------ execution

def execute(ctx, steps, dbfile, case):
    """run one history on the real code; returns (impl outputs, driver tokens); evaluates the monitor"""
    w = World(dbfile)
    outs, toks = [], []
    fres, dres = [], []           # (FileResult, …) / (DirectoryResult, contents list)
    ref_upload = {}               # path -> (size, mtime, ctime, cap)   [statement side]
    ref_created = []              # [(contents dict, dircap)] in call order
    prefix = hashlib.md5()

    def note(tok, nontrivial):
        prefix.update(tok.encode())
        ctx.case(prefix.hexdigest()[:16] if nontrivial else None)

    content = {}                  # path -> id of the bytes on disk now      [harness bookkeeping]
    next_content = [0]
    checked = []                  # per FileResult: (path, stat sampled by the harness at check time, content id then)

    def new_content(p):
        next_content[0] += 1
        content[p] = next_content[0]

    def do_cf(p, ts, k):
        w.random.k = k
        size, mtime, ctime = w.os.files[p]
        had = p in ref_upload
        r = w.bdb.check_file(p, use_timestamps=ts)
        fres.append(r)
        checked.append((p, (size, mtime, ctime), content.get(p), sum(1 for c in checked if c is not None)))
        got = r.was_uploaded()
        tok = "cf:%s:%d:%d:%d:%d:%d:%d" % (hx(p.encode("utf-8")), size, mtime, ctime, 1 if ts else 0, w.time.now, k)
        toks.append(tok)
        outs.append("%s,%s,%s" % ("N" if r.filecap is None else hx(r.filecap), "T" if r.should_check() else "F",
                                  hx(got) if got else "F"))
        # ---- monitor: the statement
        if got:
            rec = ref_upload.get(p)
            if not ts:
                ctx.violation("check_file reused a cap although timestamps are not trusted", case, "file-reuse:timestamps-untrusted")
            elif rec is None:
                ctx.violation("check_file reused a cap for a path with no upload record", case, "file-reuse:no-upload-record")
            elif rec[:3] != (size, mtime, ctime):
                which = [n for n, a, b in zip(("size", "mtime", "ctime"), rec[:3], (size, mtime, ctime)) if a != b]
                if rec[5] and rec[6] == (size, mtime, ctime):     # written in the window and untouched since did_upload
                    ctx.violation("check_file reused the cap of an upload during which the file was written: %s now differ from "
                                  "what was sampled when that upload's bytes were checked (content on disk %s the uploaded content)"
                                  % ("+".join(which), "differs from" if content.get(p) != rec[4] else "equals"),
                                  case, "stale-cap-reused:written-during-upload")
                else:
                    ctx.violation("check_file reused a cap although %s differ from the most recent upload's record" % "+".join(which),
                                  case, "file-reuse:stat-differs:" + "+".join(which))
            elif rec[3] != got:
                ctx.violation("check_file returned a cap that is not the most recent upload's", case, "file-reuse:wrong-cap")
            elif content.get(p) != rec[4]:
                # same size/mtime/ctime as sampled, other bytes: permitted — "timestamps are trusted"
                ctx.count("file:reused-other-content-with-identical-stat")
            ctx.count("file:reused" + (":should-check" if r.should_check() else ""))
        else:
            ctx.count("file:must-upload")
        note(tok, had)
        return r

    def do_up(idx, cap):
        r = fres[idx]
        path, st, cid, drv_idx = checked[idx]      # drv_idx: position among the cf tokens of the driver line
        in_window = (w.os.files.get(path), content.get(path)) != (st, cid)
        if in_window:
            ctx.count("upload-window:written" + ("" if path in w.os.files else "+deleted"))
        r.did_upload(cap)
        # the record of this upload = what was sampled when its bytes were checked (known to the harness, not read
        # back from the result object); the cap stands for the content the file had then
        ref_upload[path] = (st[0], st[1], st[2], cap, cid, in_window, w.os.files.get(path))
        tok = "upr:%d:%s:%d" % (drv_idx, hx(cap), w.time.now)
        toks.append(tok); outs.append("ok"); note(tok, False)

    def do_hl(idx):
        r = fres[idx]
        r.did_check_healthy({"results": {"healthy": True}})
        tok = "hlr:%d:%d" % (checked[idx][3], w.time.now)
        toks.append(tok); outs.append("ok"); note(tok, False)

    def enc_entries(c):
        return ",".join("%s.%s" % (hx(k.encode("utf-8")), hx(bytes.fromhex(v))) for k, v in c) or "_"

    try:
        for st in steps:
            op = st[0]
            ctx.count("op:" + op)
            if op == "set":
                w.os.files[st[1]] = tuple(st[2])
                new_content(st[1])
            elif op == "write":
                w.os.files[st[1]] = tuple(st[2])
                if st[3] != "touch":
                    new_content(st[1])
                ctx.count("write:" + st[3])
            elif op == "rm":
                w.os.files.pop(st[1], None)
                content.pop(st[1], None)
            elif op == "mv":
                w.os.files[st[2]] = w.os.files.pop(st[1])
                content[st[2]] = content.pop(st[1], None)
            elif op == "tick":
                w.time.now += st[1]
            elif op == "cf":
                if st[1] in w.os.files:
                    do_cf(st[1], st[2], st[3])
                else:
                    fres.append(None); checked.append(None)      # keeps result indices aligned (never generated)
            elif op == "up":
                if fres[st[1]] is not None:
                    do_up(st[1], bytes.fromhex(st[2]))
            elif op == "hl":
                r = fres[st[1]]
                if r is not None and r.filecap is not None:
                    do_hl(st[1])
            elif op == "run":
                _, ts, ks, healthy, caps = st
                for i, p in enumerate(sorted(w.os.files)):
                    r = do_cf(p, ts, ks[i % len(ks)])
                    if not r.was_uploaded():
                        do_up(len(fres) - 1, bytes.fromhex(caps[i % len(caps)]))
                    elif r.should_check():
                        if healthy[i % len(healthy)]:
                            do_hl(len(fres) - 1)
                        else:
                            do_up(len(fres) - 1, bytes.fromhex(caps[i % len(caps)]))
            elif op == "cd":
                c = st[1]
                contents = {k: bytes.fromhex(v) for k, v in c}
                w.random.k = st[2]
                w.last_data = None
                r = w.bdb.check_directory(contents)
                dres.append((r, c, contents))
                got = r.was_created()
                tok = "cd:%s:%d:%d" % (enc_entries(c), w.time.now, st[2])
                toks.append(tok)
                outs.append("%s,%s,%s,%s" % (hx(w.last_data), "N" if r.dircap is None else hx(r.dircap),
                                             "T" if r.should_check() else "F", hx(got) if got else "F"))
                if got:
                    # the statement: a dircap is reused only for exactly the same name-to-cap contents, i.e. it must be
                    # a dircap that was recorded for these very contents (the model proves more: the most recent one)
                    same = [d for (cc, d) in ref_created if cc == contents]
                    if got not in same:
                        ctx.violation("check_directory reused a dircap that was never recorded for exactly these contents",
                                      case, "dir-reuse:different-contents" if not same else "dir-reuse:foreign-dircap")
                    elif same[-1] != got:
                        ctx.count("dir:reused-older-dircap-of-same-contents")
                    ctx.count("dir:reused")
                else:
                    ctx.count("dir:must-create")
                note(tok, bool(ref_created))
            elif op == "dc":
                r, c, contents = dres[st[1]]
                d = bytes.fromhex(st[2])
                r.did_create(d)
                ref_created.append((contents, d))
                tok = "dcr:%d:%s:%d" % (st[1], hx(d), w.time.now)
                toks.append(tok); outs.append("ok"); note(tok, False)
            elif op == "dh":
                r, c, contents = dres[st[1]]
                if r.dircap is not None:
                    r.did_check_healthy({"results": {"healthy": True}})
                    tok = "dhr:%d:%d" % (st[1], w.time.now)
                    toks.append(tok); outs.append("ok"); note(tok, False)
            elif op == "api-up":
                _, p, (size, mtime, ctime), caphex = st
                cap = bytes.fromhex(caphex)
                w.bdb.did_upload_file(cap, p, mtime, ctime, size)
                ref_upload[p] = (size, mtime, ctime, cap, None, False, w.os.files.get(p))
                tok = "up:%s:%s:%d:%d:%d:%d" % (hx(cap), hx(p.encode("utf-8")), mtime, ctime, size, w.time.now)
                toks.append(tok); outs.append("ok"); note(tok, False)
            elif op == "api-hl":
                cap = bytes.fromhex(st[1])
                w.bdb.did_check_file_healthy(cap, {"results": {"healthy": True}})
                tok = "hl:%s:%d" % (hx(cap), w.time.now)
                toks.append(tok); outs.append("ok"); note(tok, False)
            elif op == "api-dc":
                r, c, contents = dres[st[1]]
                d = bytes.fromhex(st[2])
                w.bdb.did_create_directory(d, r.dirhash)
                ref_created.append((contents, d))
                tok = "dc:%s:%s:%d" % (hx(d), enc_entries(c), w.time.now)
                toks.append(tok); outs.append("ok"); note(tok, False)
            elif op == "api-dh":
                d = bytes.fromhex(st[1])
                w.bdb.did_check_directory_healthy(d, {"results": {"healthy": True}})
                tok = "dh:%s:%d" % (hx(d), w.time.now)
                toks.append(tok); outs.append("ok"); note(tok, False)
            elif op == "dump":
                toks.append("dump"); outs.append(w.dump())
            elif op == "reopen":
                if dbfile != ":memory:":
                    w.reopen()
                    # result objects keep the old connection's BackupDB; give them the new one, as a new tool run would
                    for r in fres:
                        if r is not None:
                            r.bdb = w.bdb
                    for (r, _, _) in dres:
                        r.bdb = w.bdb
            else:
                raise ValueError(st)
    finally:
        w.close()
    return ";".join(outs), "hist " + " ".join(toks)


# ------------------------------------------------------------------------------------------------ tool level

TOOL_VARIANTS = ["none", "append", "rewrite-same-size", "touch", "replace-by-rename", "delete-recreate"]


def tool_level(ctx, tmp, variant):
    """One file backed up twice through the real tahoe_backup.BackerUpper.upload (real os.stat, real files, in-memory
    database); the HTTP PUT is a local fake during which `variant` happens to the file.  Monitor = the statement: the
    second run may reuse the cap only if size/mtime/ctime now equal what the file had when run 1 checked it."""
    from allmydata.scripts import backupdb, tahoe_backup
    d = os.path.join(tmp, "tool-" + variant)
    os.makedirs(d, exist_ok=True)
    p = os.path.join(d, "app.log")
    with open(p, "wb") as f:
        f.write(b"line 1\n" * 10)
    os.utime(p, (1400000000, 1400000000))

    def statkey():
        s = os.stat(p)
        return (s[statmod.ST_SIZE], s[statmod.ST_MTIME], s[statmod.ST_CTIME])

    def cap_for(data):
        return b"URI:CHK:" + hashlib.sha256(data).hexdigest().encode("ascii")

    state = {"race": True}

    class Resp:
        status = 200

        def __init__(self, body):
            self._body = body

        def read(self):
            return self._body

    def fake_do_http(method, url, body=b""):
        assert method == "PUT", (method, url)
        data = body.read()
        body.close()
        if state["race"]:
            if variant == "append":
                with open(p, "ab") as f:
                    f.write(b"line written while the upload was running\n")
                os.utime(p, (1400000100, 1400000100))
            elif variant == "rewrite-same-size":
                with open(p, "r+b") as f:
                    f.write(b"LINE")
                os.utime(p, (1400000100, 1400000100))
            elif variant == "touch":
                os.utime(p, (1400000100, 1400000100))
            elif variant == "replace-by-rename":
                q = p + ".new"
                with open(q, "wb") as f:
                    f.write(b"replacement\n")
                os.utime(q, (1399999000, 1399999000))
                os.rename(q, p)
            elif variant == "delete-recreate":
                os.unlink(p)
                with open(p, "wb") as f:
                    f.write(b"line 1\n" * 10)
                os.utime(p, (1400000200, 1400000200))
        return Resp(cap_for(data) + b"\n")

    class Options(dict):
        stdout = io.StringIO()
        stderr = io.StringIO()

    case = {"phase": "tool", "variant": variant}
    orig = tahoe_backup.do_http
    tahoe_backup.do_http = fake_do_http
    try:
        bu = tahoe_backup.BackerUpper(Options({"node-url": "http://127.0.0.1:1/", "ignore-timestamps": False}))
        bu.verbosity = 0
        bu.backupdb = backupdb.get_backupdb(":memory:", stderr=io.StringIO())
        sampled = statkey()
        created1, cap1, _ = bu.upload(p)
        state["race"] = False
        now = statkey()
        created2, cap2, _ = bu.upload(p)
        bu.backupdb.connection.close()
    finally:
        tahoe_backup.do_http = orig
    ctx.count("tool-level:" + variant + (":reused" if not created2 else ":uploaded-again"))
    ctx.case(("tool", variant))
    if not created1:
        ctx.violation("BackerUpper.upload reused a cap for a file that was never uploaded", case, "file-reuse:no-upload-record")
    if not created2 and now != sampled:
        with open(p, "rb") as f:
            want = cap_for(f.read())
        ctx.violation("BackerUpper.upload (second run) reused %r although size/mtime/ctime %r differ from %r sampled when the "
                      "uploaded bytes were checked; the bytes on disk would give %r" % (cap2, now, sampled, want), case,
                      "stale-cap-reused:written-during-upload")


# ------------------------------------------------------------------------------------------------ whole backup runs
# The real tahoe_backup machinery (collect_backup_targets / run_backup / BackerUpper.upload / upload_directory) on real
# files with a virtual mtime/ctime laid over os.stat *in backupdb's namespace*, do_http and mkdir faked: a PUT hands out
# a content-derived (convergent) cap, mkdir a fresh dircap.  Runs are ordinary or --ignore-timestamps.

class OverlayOS:
    path = os.path

    def __init__(self):
        self.overlay = {}

    def stat(self, p):
        s = os.stat(p)
        t = list(s[:10])
        if p in self.overlay:
            t[statmod.ST_MTIME], t[statmod.ST_CTIME] = self.overlay[p]
        return tuple(t)


def content_cap(data):
    return b"URI:CHK:" + hashlib.sha256(data).hexdigest()[:24].encode("ascii")


def gen_toolrun(rng, n):
    """steps: create/silent/loud/touch/rename/tick/backup; contents are part of the steps so a history replays exactly"""
    steps, files, clock, serial = [], {}, [1000], [0]
    names = ["f0", "f1", "d1/f0", "d1/f2", "d2/f1", "Makefile", "d1/makefile"]

    def content(size):
        serial[0] += 1
        return (b"%06d" % serial[0]).ljust(size, b".")

    def create():
        p = rng.choice(names)
        if p in files:
            return
        c = content(rng.choice([8, 12, 16]))
        clock[0] += rng.choice([0, 1, 5])
        files[p] = [len(c), clock[0], clock[0]]
        steps.append(["create", p, c.hex(), clock[0], clock[0]])

    for _ in range(rng.choice([1, 2, 3])):
        create()
    while len(steps) < n:
        op = rng.choice(["create", "silent", "silent", "loud", "touch", "rename", "tick", "backup", "backup", "backup",
                         "backup-ign", "backup-ign"])
        if op == "create" or not files:
            create()
        elif op == "silent":                      # new bytes, same size, mtime and ctime unchanged
            p = rng.choice(sorted(files))
            steps.append(["silent", p, content(files[p][0]).hex()])
        elif op == "loud":
            p = rng.choice(sorted(files))
            c = content(files[p][0] + rng.choice([0, 1, 4]))
            clock[0] += rng.choice([1, 2])
            files[p] = [len(c), clock[0], clock[0]]
            steps.append(["loud", p, c.hex(), clock[0], clock[0]])
        elif op == "touch":
            p = rng.choice(sorted(files))
            clock[0] += 1
            files[p][1] = rng.choice([clock[0], files[p][1]]); files[p][2] = clock[0]
            steps.append(["touch", p, files[p][1], files[p][2]])
        elif op == "rename":
            p = rng.choice(sorted(files)); q = rng.choice(names)
            if q not in files:
                clock[0] += rng.choice([0, 1])
                files[q] = files.pop(p); files[q][2] = clock[0]
                steps.append(["rename", p, q, clock[0]])
        elif op == "tick":
            steps.append(["tick", rng.choice([1, 3600, 86400, MONTH + MONTH // 2, 2 * MONTH + 1])])
        else:
            steps.append(["backup", op == "backup-ign", rng.randrange(1024), rng.random() < 0.7])
    steps.append(["backup", False, rng.randrange(1024), True])
    return steps


TOOLRUN_CORPUS = [
    # ordinary run records capA; the bytes change but size/mtime/ctime do not; an --ignore-timestamps run uploads capB and
    # must record it: the next ordinary run reuses capB, not capA                                  [seeded change C42-e]
    [["create", "report.txt", b"version ONE of the report".hex(), 1000, 1000], ["create", "d1/notes.txt", b"some notes".hex(), 1000, 1000],
     ["backup", False, 0, True], ["silent", "report.txt", b"version TWO of the report".hex()], ["backup", True, 0, True],
     ["backup", False, 0, True], ["tick", 2 * MONTH + 1], ["backup", False, 1023, True], ["backup", False, 1023, False],
     ["loud", "d1/notes.txt", b"more notes!".hex(), 1010, 1010], ["backup", True, 0, True], ["backup", False, 0, True]],
]


def execute_toolrun(ctx, steps, tmp, idx, case):
    import datetime
    import json
    from allmydata.scripts import tahoe_backup
    from allmydata.util.encodingutil import listdir_unicode
    base = os.path.join(tmp, "run%d" % idx)
    root = os.path.join(base, "home")
    os.makedirs(root)
    w = World(":memory:")
    ov = OverlayOS()
    w.mod.os = ov                      # World.close() restores the module's names
    outs, toks = [], []
    last_upload = {}                   # path -> (cap, (size, mtime, ctime))            [statement side]
    dir_contents = {}                  # dircap -> {name: cap} it was created with
    counter = [0]
    flags = {"ign": False, "healthy": True, "k": 0}

    class Resp:
        def __init__(self, status, body):
            self.status, self._body = status, body

        def read(self):
            return self._body

    def fake_do_http(method, url, body=b""):
        if method == "PUT" and url.endswith("uri"):
            data = body.read()
            body.close()
            return Resp(200, content_cap(data))
        if method == "POST" and "t=check" in url:
            return Resp(200, json.dumps({"results": {"healthy": flags["healthy"]}}).encode("ascii"))
        raise AssertionError((method, url))

    def fake_mkdir(contents, options):
        counter[0] += 1
        d = b"URI:DIR2-CHK:d%d" % counter[0]
        dir_contents[d] = dict((name, contents[name][1]) for name in contents)
        return d

    class Options(dict):
        stdout = io.StringIO()
        stderr = io.StringIO()

    opts = Options({"node-url": "http://127.0.0.1:1/", "ignore-timestamps": False, "verbose": False, "quiet": True})
    bu = tahoe_backup.BackerUpper(opts)
    bu.verbosity = 0
    bu.backupdb = w.bdb
    saved = (tahoe_backup.do_http, tahoe_backup.mkdir)
    tahoe_backup.do_http, tahoe_backup.mkdir = fake_do_http, fake_mkdir

    def full(rel):
        return os.path.join(root, *rel.split("/"))

    def put(rel, data):
        p = full(rel)
        os.makedirs(os.path.dirname(p), exist_ok=True)
        with open(p, "wb") as f:
            f.write(data)
        return p

    def upload_file(path):
        st = ov.stat(path)
        cur = (st[statmod.ST_SIZE], st[statmod.ST_MTIME], st[statmod.ST_CTIME])
        with open(path, "rb") as f:
            newcap = content_cap(f.read())
        had = path in last_upload
        created, cap, metadata = bu.upload(path)
        toks.append("tf:%s:%d:%d:%d:%d:%s:%d:%d:%d" % (hx(path.encode("utf-8")), cur[0], cur[1], cur[2], 1 if flags["ign"] else 0,
                                                     hx(newcap), 1 if flags["healthy"] else 0, w.time.now, flags["k"]))
        outs.append("%s,%s" % ("T" if created else "F", hx(cap)))
        ctx.case(("toolrun", idx, len(toks)) if had else None)
        if created:
            last_upload[path] = (cap, cur)
            ctx.count("toolrun:file-uploaded" + (":ignore-timestamps" if flags["ign"] else ""))
            return created, cap, metadata
        ctx.count("toolrun:file-reused")
        # ---- monitor: the statement, at the level of the tool
        rec = last_upload.get(path)
        if flags["ign"]:
            ctx.violation("a --ignore-timestamps run reused a cap", case, "tool-run:reuse-with-untrusted-timestamps")
        elif rec is None:
            ctx.violation("a run reused a cap for a path without an upload record", case, "tool-run:reuse-without-upload-record")
        elif rec[1] != cur:
            ctx.violation("a run reused a cap although (size,mtime,ctime)=%r differ from the most recent upload's %r" % (cur, rec[1]),
                          case, "tool-run:stat-differs")
        elif rec[0] != cap:
            ctx.violation("a run reused %r for a path whose most recent upload (same size/mtime/ctime) gave %r: the snapshot "
                          "reverts the file to older content" % (cap, rec[0]), case, "tool-run:reused-cap-not-most-recent-upload")
        return created, cap, metadata

    def upload_directory(path, compare, create):
        entries = [(k, compare[k]) for k in compare]
        newd = b"URI:DIR2-CHK:d%d" % (counter[0] + 1)
        created, dircap = bu.upload_directory(path, compare, create)
        toks.append("td:%s:%s:%d:%d:%d" % (",".join("%s.%s" % (hx(k.encode("utf-8")), hx(v)) for k, v in entries) or "_", hx(newd),
                                          1 if flags["healthy"] else 0, w.time.now, flags["k"]))
        outs.append("%s,%s" % ("T" if created else "F", hx(dircap)))
        ctx.case(("toolrun-dir", idx, len(toks)) if dir_contents else None)
        if not created:
            ctx.count("toolrun:dir-reused")
            if dir_contents.get(dircap) != dict(compare):
                ctx.violation("a run reused dircap %r created for other contents" % (dircap,), case, "tool-run:dir-reuse:different-contents")
        else:
            ctx.count("toolrun:dir-created")
        return created, dircap

    try:
        for st in steps:
            op = st[0]
            ctx.count("toolrun-op:" + op + (":ignore-timestamps" if op == "backup" and st[1] else ""))
            if op in ("create", "loud"):
                p = put(st[1], bytes.fromhex(st[2]))
                ov.overlay[p] = (st[3], st[4])
            elif op == "silent":
                if os.path.exists(full(st[1])):
                    put(st[1], bytes.fromhex(st[2]))
            elif op == "touch":
                if os.path.exists(full(st[1])):
                    ov.overlay[full(st[1])] = (st[2], st[3])
            elif op == "rename":
                a, b = full(st[1]), full(st[2])
                if os.path.exists(a) and not os.path.exists(b):
                    os.makedirs(os.path.dirname(b), exist_ok=True)
                    os.rename(a, b)
                    ov.overlay[b] = (ov.overlay.pop(a)[0], st[3])
            elif op == "tick":
                w.time.now += st[1]
            elif op == "backup":
                flags["ign"], flags["k"], flags["healthy"] = bool(st[1]), st[2], bool(st[3])
                opts["ignore-timestamps"] = flags["ign"]
                w.random.k = flags["k"]
                targets = list(tahoe_backup.collect_backup_targets(root, lambda d: sorted(listdir_unicode(d)), lambda ch: ch))
                tahoe_backup.run_backup(warn=bu.warn, upload_file=upload_file, upload_directory=upload_directory, targets=targets,
                                        start_timestamp=datetime.datetime.now(), stdout=io.StringIO())
            else:
                raise ValueError(st)
        toks.append("dump"); outs.append(w.dump())
    finally:
        tahoe_backup.do_http, tahoe_backup.mkdir = saved
        w.close()
        shutil.rmtree(base, ignore_errors=True)
    return ";".join(outs), "hist " + " ".join(toks)


def run(ctx):
    import traceback
    from common import WORK
    tmp = os.path.join(WORK, "c42-%d" % os.getpid())
    os.makedirs(tmp, exist_ok=True)
    hists = []
    tools = []
    toolruns = []
    if ctx.replay and ctx.replay["case"].get("phase") == "tool":
        tools = [ctx.replay["case"]["variant"]]
    elif ctx.replay and ctx.replay["case"].get("phase") == "toolrun":
        toolruns = [ctx.replay["case"]["steps"]]
    elif ctx.replay:
        hists = [ctx.replay["case"]["steps"]]
    else:
        tools = list(TOOL_VARIANTS)
        toolruns += TOOLRUN_CORPUS
        for _ in range(0 if os.environ.get("VERIF_CORPUS_ONLY") else ctx.budget(50, 1500)):
            toolruns.append(gen_toolrun(ctx.rng, ctx.rng.choice([8, 14, 24])))
        hists += CORPUS
        for _ in range(0 if os.environ.get("VERIF_CORPUS_ONLY") else ctx.budget(250, 6000)):
            hists.append(gen_history(ctx.rng, ctx.rng.choice([8, 20, 40, 90])))
    cases, impl, lines = [], [], []
    try:
        for v in tools:
            try:
                tool_level(ctx, tmp, v)
            except Exception:
                ctx.disagree("harness exception in the tool-level case (BackerUpper.upload no longer drivable as modelled)",
                             {"phase": "tool", "variant": v}, traceback.format_exc()[-1200:], None)
        for i, h in enumerate(toolruns):
            case = {"phase": "toolrun", "steps": h}
            try:
                out, line = execute_toolrun(ctx, h, tmp, i, case)
            except Exception:
                ctx.disagree("harness exception while driving whole backup runs through BackerUpper", case,
                             traceback.format_exc()[-1200:], None)
                continue
            cases.append(case); impl.append(out); lines.append(line)
        for i, h in enumerate(hists):
            on_disk = any(s[0] == "reopen" for s in h)
            dbfile = os.path.join(tmp, "h%d.sqlite" % i) if on_disk else ":memory:"
            case = {"steps": h}
            try:
                out, line = execute(ctx, h, dbfile, case)
            except Exception:
                # one history the implementation cannot run any more must not hide the others
                ctx.disagree("harness exception while running a history on the implementation", case,
                             traceback.format_exc()[-1200:], None)
                continue
            finally:
                if on_disk and os.path.exists(dbfile):
                    os.unlink(dbfile)
            if on_disk:
                ctx.count("history:on-disk-with-reopen")
            cases.append(case); impl.append(out); lines.append(line)
    finally:
        shutil.rmtree(tmp, ignore_errors=True)
    model = ctx.model(lines)
    ctx.compare("BackupDB_v2 history: every call's result, hashed directory string, table dumps", cases, impl, model)
    if hists and impl:
        ctx.sample({"steps": hists[0][:6], "impl": impl[0][:300]})
        if len(impl) > 3:
            ctx.sample({"steps": hists[3][:8], "impl": impl[3][:300]})
