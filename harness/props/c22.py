"""C22 — immutable share storage semantics (storage/immutable.py, storage/server.py)."""
import os

import props.imm_util as U

ID = "C22"
LEAN_PROPS = "Tahoe.Props.C22"
DRIVER = "C22"
GENERATED = ["storage"]
SOURCES = ["src/allmydata/storage/immutable.py", "src/allmydata/storage/server.py",
           "src/allmydata/storage/common.py", "src/allmydata/storage/immutable_schema.py"]
DESIGN_REF = "DESIGN.md §2 C22"
TECHNIQUE = ("Lean 4 theorems over an executable model of ShareFile / BucketWriter / BucketReader / allocate_buckets / "
             "get_buckets, the Foolscap front end (per-writer disconnect watchers), the HTTP PATCH close-on-finished rule, "
             "server restart and the incoming/final directory tree, with a refinement to a map (SI,shnum) -> write-once byte "
             "array with an in-progress flag; differential correspondence of seeded operation histories against a real "
             "StorageServer / FoolscapStorageServer in a temp dir, comparing every result, the internal written-range list, "
             "the raw container bytes on disk and the directory tree after every operation")
LEVEL_TEXT = ("Proved in Lean for all histories (direct calls, Foolscap allocations on connections, connection losses, restarts) "
              "over any number of (SI, shnum): visible_iff_closed / visible_iff_closed_foolscap, read_returns_written, "
              "conflict_rejected_unchanged, aborted_leaves_nothing, timed_out_leaves_nothing, disconnect_leaves_no_upload, "
              "abort_removes_exactly_that_upload (directory level), write_finished_iff_complete / http_patch_closes_only_complete, "
              "timeout_window / timeout_exactly_30_minutes_after_last_write, and refines_spec / refines_spec_foolscap "
              "(reachable-state invariants: invariant_holds, reachable_invariants). The model is tied to the code by comparing "
              "results, _already_written ranges, on-disk container bytes and the directory tree of seeded histories; a fixed "
              "corpus (one history per known mechanism, seeds C22-a..e) runs first.")
LEVEL_NOTE = ("Lean kernel + standard axioms; model hand-written, tied by correspondence; lease records are opaque 72-byte "
              "strings produced by the real serializer; RangeMap is the harness shim; the HTTP route is mirrored by the harness "
              "(bucket.write then bucket.close on finished=True, as http_server.write_share_data does), not driven through klein; "
              "the 30*60 s timeout literal is extracted from the BucketWriter code objects and pinned by layout_constants.")
RULE = ("seeded histories (10-60 ops) of allocate/write/close/abort/disconnect/clock-advance/restart/read/list/dump over 3 storage "
        "indexes (two sharing a prefix directory) and 7 share numbers against a real StorageServer; half of the histories go "
        "through the real FoolscapStorageServer front end (remote_allocate_buckets with a canary following foolscap's "
        "notifyOnDisconnect / dontNotifyOnDisconnect semantics, multi-share requests, remote_write/close/abort on "
        "FoolscapBucketWriter, lost connections), a quarter upload through the HTTP-PATCH-style route in back-to-front / "
        "tail-first / middle-out chunk orders, the rest by direct StorageServer/BucketWriter calls; VERIF_CORPUS_ONLY=1 runs "
        "the fixed corpus only; a case is one operation; distinct = distinct (history prefix digest, op); non-trivial = every "
        "op after the first allocation of the history")
TRUSTED = ["lean/Tahoe/Storage/Immutable.lean and ImmDirs.lean are hand transcriptions of storage/immutable.py and the immutable part of "
           "storage/server.py (incl. FoolscapStorageServer.remote_allocate_buckets / _bucket_writer_closed)",
           "harness/shims/collections_extended (RangeMap stand-in used by BucketWriter._already_written)",
           "lease records are serialised by the real HashedLeaseSerializer (blake2b) and passed to the model as opaque bytes",
           "twisted.internet.task.Clock as the server clock; os.statvfs patched to a simulated disk",
           "harness Canary object standing in for a foolscap RemoteReference (Broker.notifyOnDisconnect / dontNotifyOnDisconnect "
           "semantics: unknown markers ignored, watchers run on connection loss; run immediately instead of via eventually())",
           "harness restart op: a new StorageServer on the same directory and clock; handles, timers and canary registrations of "
           "the old process are discarded by the harness",
           "harness mirror of the HTTP PATCH handler (write, then close when write() answers finished)"]
ASSUMPTIONS = ["single-threaded server (one reactor): operations on the storage directory do not interleave",
               "no other process modifies the storage directory",
               "os.listdir order and set iteration order are inputs of allocate_buckets (passed to the model)",
               "blake2b does not collide on the secrets used (renew-secret match = equality of stored hashes)",
               "correspondence only: the directory-model server component equals the plain front-end run for clock advances "
               "(checked at run time by the driver's `!` marker, not proved)"]

# a fixed corpus of past/hand-made histories runs first
CORPUS = [
    # out-of-order writes, overlap with equal bytes, conflict, close, read clipped at allocated size
    [["A", 0, [0, 1], 10, 0, 10 ** 9], ["W", 0, 5, "0506070809"], ["W", 0, 3, "03040506"], ["W", 0, 4, "ff05"],
     ["R", 0, 0, 0, 100], ["W", 0, 0, "000102"], ["C", 0], ["R", 0, 0, 0, 100], ["R", 0, 0, 8, 100], ["R", 0, 1, 0, 1],
     ["L", 0], ["D"]],
    # hole left unwritten reads as zeros; write past the allocated size; empty write; timeout boundary
    [["A", 1, [3], 8, 1, 10 ** 9], ["W", 0, 6, "aabb"], ["W", 0, 7, "bbcc"], ["W", 0, 2, "-"], ["W", 0, 9, "-"],
     ["T", 1799], ["S"], ["C", 0], ["R", 1, 3, 0, 8], ["T", 1800], ["L", 1], ["D"]],
    # abort / disconnect / timeout leave nothing; re-allocation after abort; second uploader is refused
    [["A", 2, [0, 1, 2], 5, 0, 10 ** 9], ["A", 2, [0, 3], 5, 1, 10 ** 9], ["X", 0], ["Y", 1], ["T", 1800], ["S"], ["D"],
     ["W", 2, 0, "01"], ["C", 0], ["A", 2, [0], 5, 2, 10 ** 9], ["W", 4, 0, "0102030405"], ["C", 4],
     ["A", 2, [0, 1], 5, 1, 10 ** 9], ["L", 2], ["D"]],
    # zero-size share; lease renewal / addition on already-present shares by later allocations
    [["A", 0, [0], 0, 0, 10 ** 9], ["C", 0], ["R", 0, 0, 0, 5], ["T", 100], ["A", 0, [0], 0, 0, 10 ** 9],
     ["A", 0, [0, 1], 3, 1, 50], ["D"], ["A", 0, [0, 1], 3, 2, 71], ["D"]],
]


CORPUS += [
    # Foolscap front end: three shares in one request on connection 1, one closed, one aborted, then the
    # connection is lost: the remaining upload must be aborted, its number allocatable again (seeded C22-b)
    [["A", 0, [0, 1, 2], 5, 0, 10 ** 9, 1], ["W", 0, 0, "0102030405"], ["C", 0], ["X", 1], ["W", 2, 0, "0a"], ["K", 1],
     ["S"], ["D"], ["A", 0, [0, 1, 2], 5, 1, 10 ** 9, 2], ["W", 4, 0, "0b0c"], ["C", 4], ["K", 2], ["S"], ["L", 0], ["D"]],
    # two connections and a direct upload interleaved; losing one connection must not touch the others
    [["A", 1, [0, 1], 4, 0, 10 ** 9, 1], ["A", 1, [2, 3], 4, 1, 10 ** 9, 2], ["A", 2, [0], 4, 2, 10 ** 9],
     ["W", 1, 0, "01"], ["W", 2, 0, "02"], ["C", 1], ["K", 1], ["S"], ["W", 2, 1, "03"], ["W", 4, 0, "09"], ["K", 2], ["S"],
     ["T", 1800], ["S"], ["D"]],
]


CORPUS += [
    # seeded C22-a: two separately written chunks [0,10) and [20,30) with a hole; a write [5,25) that
    # agrees with the first overlapped chunk but differs in the second must be rejected, data unchanged
    [["A", 0, [0], 30, 0, 10 ** 9], ["W", 0, 0, "00010203040506070809"], ["W", 0, 20, "141516171819 1a1b1c1d".replace(" ", "")],
     ["W", 0, 5, "0506070809" + "aa" * 10 + "14ff161718"], ["W", 0, 5, "0506070809" + "aa" * 10 + "1415161718"],
     ["C", 0], ["R", 0, 0, 0, 100], ["D"]],
    # seeded C22-c: the last in-progress share of an SI that already has a completed share ends by
    # abort / by timeout / by disconnect: the completed sibling must stay visible and readable
    [["A", 0, [0, 1], 4, 0, 10 ** 9], ["W", 0, 0, "01020304"], ["C", 0], ["X", 1], ["L", 0], ["R", 0, 0, 0, 4], ["D"]],
    [["A", 1, [0, 1], 4, 0, 10 ** 9], ["W", 0, 0, "01020304"], ["C", 0], ["T", 1800], ["L", 1], ["R", 1, 0, 0, 4], ["D"]],
    [["A", 2, [0, 1], 4, 0, 10 ** 9, 1], ["W", 0, 0, "01020304"], ["C", 0], ["K", 1], ["L", 2], ["R", 2, 0, 0, 4], ["D"]],
    # seeded C28-a (also a C22 reservation clause): a tail-first write must not shrink the reservation
    [["A", 0, [0], 40, 0, 10 ** 9], ["W", 0, 39, "ff"], ["S"], ["X", 0], ["S"]],
    # seeded C28-c: abort while a sibling upload of the same SI / of the same prefix dir is in progress
    [["A", 0, [0, 1], 30, 0, 10 ** 9], ["A", 2, [0], 30, 1, 10 ** 9], ["X", 0], ["S"], ["X", 1], ["S"], ["X", 2], ["S"], ["D"]],
]


CORPUS += [
    # seeded C22-d: write()'s "finished" answer must mean every byte was written.  Tail first / back to front /
    # middle out, direct (answer observed) and through the HTTP PATCH route (which closes on the answer):
    # the share must not become visible before the head is written, and reads must return the written bytes
    [["A", 0, [0], 10, 0, 10 ** 9], ["W", 0, 5, "0506070809"], ["R", 0, 0, 0, 10], ["W", 0, 0, "0001020304"], ["C", 0], ["R", 0, 0, 0, 10]],
    [["A", 1, [0], 10, 0, 10 ** 9], ["H", 0, 5, "0506070809"], ["L", 1], ["R", 1, 0, 0, 10], ["H", 0, 0, "0001020304"], ["R", 1, 0, 0, 10], ["D"]],
    [["A", 2, [3], 9, 1, 10 ** 9], ["H", 0, 6, "060708"], ["H", 0, 3, "030405"], ["L", 2], ["H", 0, 0, "000102"], ["R", 2, 3, 0, 9], ["D"]],
    [["A", 0, [1], 8, 0, 10 ** 9], ["H", 0, 3, "0304"], ["H", 0, 5, "050607"], ["L", 0], ["H", 0, 0, "000102"], ["R", 0, 1, 0, 8]],
]


CORPUS += [
    # seeded C22-e: an upload whose every byte is written but which its client never closed must leave no
    # share behind when the connection is lost / disconnected() runs / the timeout fires
    [["A", 0, [0, 1], 4, 0, 10 ** 9, 1], ["W", 0, 0, "01020304"], ["W", 1, 0, "0506"], ["K", 1], ["L", 0], ["R", 0, 0, 0, 4], ["S"], ["D"]],
    [["A", 1, [0], 4, 0, 10 ** 9], ["W", 0, 0, "01020304"], ["Y", 0], ["L", 1], ["S"], ["A", 1, [0], 4, 1, 10 ** 9], ["D"]],
    [["A", 2, [0], 4, 0, 10 ** 9], ["W", 0, 0, "01020304"], ["T", 1800], ["L", 2], ["S"], ["D"]],
]


CORPUS += [
    # restart (C29 clause 4 seen from C22): uploads in progress are discarded with their reservations, completed
    # shares stay, old handles are dead, the share numbers can be allocated again
    [["A", 0, [0, 1, 2], 4, 0, 10 ** 9, 1], ["W", 0, 0, "01020304"], ["C", 0], ["W", 1, 0, "0506"], ["S"], ["Z"], ["S"], ["L", 0],
     ["W", 1, 2, "07"], ["C", 2], ["X", 1], ["K", 1], ["A", 0, [0, 1, 2], 4, 1, 10 ** 9], ["W", 3, 0, "0a0b0c0d"], ["C", 3],
     ["T", 1800], ["S"], ["L", 0], ["D"]],
]


def digest(prefix_state, op):
    return hash((prefix_state, repr(op)))


def run(ctx):
    n_hist = 0 if os.environ.get("VERIF_CORPUS_ONLY") else ctx.budget(160, 6000)
    cases = []
    if ctx.replay:
        cases = [("replay", ctx.replay["case"]["ops"], True)]
    else:
        cases = [("corpus", h, True) for h in CORPUS]
        for i in range(n_hist):
            cases.append(("gen", U.gen_history(ctx.rng, ctx.rng.choice([10, 25, 40, 60]), foolscap=0.5, http_frac=0.5, restarts=True), False))
    lines, impl, recs = [], [], []
    for kind, ops, concrete in cases:
        conc, line, out, viol = U.run_history(ctx, "C22", ops, concrete=concrete, dirs=True)
        lines.append(line)
        impl.append(out)
        recs.append({"ops": conc})
        seen_alloc = False
        h = 0
        for o in conc:
            h = hash((h, repr(o)))
            ctx.case(h if seen_alloc else None)
            seen_alloc = seen_alloc or o[0] == "A"
        for what, sig, detail in viol:
            ctx.violation(what, {"ops": conc}, sig, detail)
    model = ctx.model(lines)
    ctx.compare("immutable storage history (results, written ranges, container bytes on disk, directory tree after every op)", recs, impl, model)
    ctx.sample({"line": lines[0][:300], "impl": impl[0][:300]})
    if len(lines) > len(CORPUS):
        ctx.sample({"line": lines[len(CORPUS)][:300], "impl": impl[len(CORPUS)][:300]})
