"""C15 — capability strings round-trip and parse canonically (uri.py from_string / to_string)."""
from common import hx
from props import _uri_common as U

ID = "C15"
LEAN_PROPS = "Tahoe.Props.C15"
DRIVER = "C15"
GENERATED = ["uri"]
SOURCES = ["src/allmydata/uri.py", "src/allmydata/util/base32.py"]
DESIGN_REF = "DESIGN.md §2 C15"
TECHNIQUE = ("Lean 4 theorems over an executable byte-level model of every STRING_RE (patterns as data, rendered back to the "
             "regex source and pinned to the texts extracted from uri.py), base32 b2a/a2b, decimal print/parse, from_string "
             "dispatch and to_string; a declarative regex semantics proved equal to the executable matcher; differential "
             "correspondence of from_string/to_string/b2a/a2b on a fixed corpus, generated and mutated cap strings, and "
             "parse ORDERS with cold class-level state (module reloads and fresh processes)")
LEVEL_TEXT = ("Proved in Lean for all byte strings, both contexts and all well-formed caps of the 18 kinds: parse_print / "
              "parse_print_default (object -> string -> same object); accepted_is_own_text + grammar_complete (the parser accepts "
              "exactly the declarative grammar: canonical text ++ nothing / one newline / MDMF ':' extension), unknown_outside, "
              "never_misread, only_one_prefix; matcher_is_regex_semantics + regex_match_unique (the deterministic matcher equals "
              "the declarative regex semantics of the nine patterns, matches are unique); pattern_* / pattern_flags / file_prefixes "
              "/ dir_prefixes / alleged_prefixes / dispatch_order pin the working tree's regex texts, prefixes and dispatch order. "
              "print_parse at full strength is FALSE of code and model (open known finding trailing-newline): refuted by "
              "print_parse_counterexample(_ssk), proved as print_parse_partial for every input not ending in a newline. "
              "asWritten_chk_verifier_junk / asWritten_leading_zeros witness the two defects since repaired in /repo "
              "(commits cf6aab5, de25a62).")
LEVEL_NOTE = ("Lean kernel + standard axioms. Model hand-written and tied by pinned pattern texts plus correspondence; that "
              "CPython's `re` implements the declarative regex semantics is trusted (exercised by correspondence). "
              "print_parse is read modulo one alleged prefix ro./imm., which from_string consumes as context by design. "
              "Order independence of parsing holds by construction in the model and is correspondence-only on the code side.")
RULE = ("a case is one (string, deep_immutable) pair given to uri.from_string and to the driver, one string of an ordered "
        "parse sequence run with cold class state, or one cap object given to to_string; distinct = distinct (deep, string) / "
        "distinct order prefix; non-trivial = the string starts (after an optional ro./imm.) with one of the 18 cap prefixes, "
        "i.e. it reaches a STRING_RE")
TRUSTED = ["lean/Tahoe/Uri/Grammar.lean, Caps.lean are hand transcriptions of uri.py / base32.py; the Piece lists are tied to the "
           "regex source by the pinned `render` theorems (pattern_*)",
           "CPython's `re` module implements the declarative semantics `Matches` (Tahoe/Uri/LemmasRegex.lean) on these patterns",
           "harness/props/_uri_common.py reference grammar (base64 + int from the standard library) used by the monitor",
           "harness/props/_uri_worker.py (parse orders in a reloaded module / fresh process)"]
ASSUMPTIONS = ["number fields have at most 4300 digits: beyond that CPython's int()/%d raise ValueError (int-max-str-digits), "
               "which from_string does not catch; the model has unbounded Nat",
               "k/N/size are non-negative ints and key/hash fields have the lengths the code itself produces (16/32 bytes) — "
               "the well-formedness hypothesis of parse_print",
               "input is bytes (the UTF-8 encoding step for str input is not modelled)",
               "print_parse is read modulo a single leading ro./imm. (from_string strips it as context, ticket #833)",
               "any ':'-introduced suffix of an MDMF-family cap counts as the extension field the MDMF format allows"]

# Diagnostic switch (not used by any registered command): C15_MODEL=as-written compares the tree against the model of
# the *unrepaired* patterns (driver op `fsw`, Tahoe.Uri.specAsWritten) instead of the repaired ones (`fs`).  On the
# unrepaired tree that comparison has 0 disagreements, which is how the as-written recognisers were validated.
import os as _os
CORPUS_ONLY = bool(_os.environ.get("VERIF_CORPUS_ONLY"))   # run only the fixed corpus (no random families)
FS_OP = "fsw" if _os.environ.get("C15_MODEL") == "as-written" else "fs"



def corpus(rng):
    """fixed corpus run first: the probed defect classes of DESIGN §3 (CHK-verifier junk, trailing newline on every
    kind, leading zeros) and the MDMF extension / alleged-prefix forms"""
    from allmydata import uri
    k, f = bytes(range(16)), bytes(range(32))
    chk = uri.CHKFileURI(k, f, 3, 10, 1234).to_string()
    chkv = uri.CHKFileVerifierURI(k, f, 3, 10, 1234).to_string()
    ssk = uri.WriteableSSKFileURI(k, f).to_string()
    mdmf = uri.WriteableMDMFFileURI(k, f).to_string()
    lit = uri.LiteralFileURI(b"hello world").to_string()
    d = uri.DirectoryURI(uri.WriteableSSKFileURI(k, f)).to_string()
    dchk = uri.ImmutableDirectoryURI(uri.CHKFileURI(k, f, 3, 10, 1234)).to_string()
    dchkv = uri.ImmutableDirectoryURIVerifier(uri.CHKFileVerifierURI(k, f, 3, 10, 1234)).to_string()
    out = [chkv + b"junk", chkv + b":", chkv + b"\n", chkv + b"\nxyz", chk + b"\n", ssk + b"\n", lit + b"\n", mdmf + b"\n", d + b"\n",
           chk.replace(b":3:10:", b":03:10:"), chk.replace(b":1234", b":01234"), chkv.replace(b":10:", b":0010:"),
           dchk.replace(b":3:", b":003:"), dchkv + b"x", dchkv.replace(b":3:", b":03:"),
           mdmf + b":3:131073", mdmf + b":3:131073\n", mdmf + b"\n\n", mdmf + b":", chk + b"\n\n", b"URI:LIT:\n", b"URI:LIT:",
           b"ro." + chk, b"imm." + chk + b"\n", b"ro." + ssk, b"imm." + lit, chk[:-4] + b"0", chk[:-4] + b"00"]
    # seed C15-a (widened BASE32CHAR_{3,2,1}bits classes): last character of a base32 field with non-zero padding
    # bits, top padding bit clear — 128-bit field ...'b' (canonical ends in a multiple of 4), 256-bit field ...'b'/'h',
    # LIT bodies of 1/2/4 bytes with a non-canonical tail
    z128, z256 = b"a" * 25, b"a" * 51
    out += [b"URI:SSK:" + z128 + b"b:" + z256 + b"a", b"URI:SSK:" + z128 + b"a:" + z256 + b"b",
            b"URI:SSK-RO:" + z128 + b"a:" + z256 + b"h", b"URI:CHK:" + z128 + b"b:" + z256 + b"a:3:10:5",
            b"URI:MDMF-Verifier:" + z128 + b"c:" + z256 + b"a", b"URI:DIR2:" + z128 + b"b:" + z256 + b"a",
            b"URI:LIT:ab", b"URI:LIT:aaab", b"URI:LIT:aaaaaab", b"URI:DIR2-LIT:ab"]
    # seed C15-b (both alleged prefixes stripped): imm. then ro. in front of immutable / verifier caps
    out += [b"imm.ro." + chk, b"imm.ro." + lit, b"imm.ro." + chkv, b"imm.ro." + dchk, b"ro.imm." + chk, b"ro.ro." + lit,
            b"imm.imm." + lit, b"imm.ro." + ssk]
    return out


def impl_from_string(s, deep):
    from allmydata import uri
    try:
        c = uri.from_string(s, deep_immutable=deep)
    except ValueError as e:  # int-max-str-digits
        return None, "EXC ValueError"
    return c, "%s | %s" % (U.describe(c), U.to_string_or_assert(c))


def has_cap_prefix(s):
    _, t = U.strip_alleged(s)
    return any(t.startswith(p) for _, _, p in U.FILE_KINDS + U.DIR_KINDS)


def strip_zeros(s):
    """leading zeros removed from every all-digit ':'-separated field"""
    parts = s.split(b":")
    return b":".join((p.lstrip(b"0") or b"0") if (p.isdigit() and p.isascii()) else p for p in parts)


def classify_print_parse(expected, got, fd, tag):
    """signature of a print_parse failure: expected = input without alleged prefix, got = c.to_string()"""
    if expected == got + b"\n":
        return "trailing-newline"
    if tag == "CHKV" and expected.startswith(got) and not expected[len(got):len(got) + 1].isdigit():
        return "chk-verifier-trailing-junk"
    if strip_zeros(expected) == got:
        return "leading-zeros"
    if strip_zeros(expected) == got + b"\n":
        return "leading-zeros+trailing-newline"
    if tag == "CHKV" and strip_zeros(expected).startswith(got):
        return "leading-zeros+chk-verifier-trailing-junk"
    return "print-parse-other"


def monitor_string(ctx, s, deep, c):
    """print_parse / unknown_outside on the real from_string result `c` for input `s`."""
    pfx, t = U.strip_alleged(s)
    ref = U.ref_classify(t)
    fd, tag = U.tag_of(c)
    case = {"s": hx(s), "deep": deep}
    if fd == "U":
        # a canonical cap string must be recognised unless the context forbids the kind
        if ref is not None and ref[3] == "exact":
            can_m = (not deep) and pfx != b"imm."
            can_w = (not deep) and pfx == b""
            need_w = ref[1] in U.WRITE_TAGS
            need_m = ref[1] in ("SSKRO", "MDMFRO")
            allowed = (not need_w or can_w) and (not need_m or can_m)
            if allowed:
                ctx.violation("canonical cap string reported as unknown", case, "canonical-rejected-" + ref[0] + ref[1])
        return
    got = c.to_string()
    ok = (got == t)
    ext = (tag in U.MDMF_TAGS and t.startswith(got + b":"))
    sig = None
    if not ok and not ext:
        sig = classify_print_parse(t, got, fd, tag)
        ctx.violation("accepted string does not re-serialize to itself (%s): %r -> %r" % (sig, t[:120], got[:120]), case, sig)
    # unknown_outside: accepted strings must lie in the reference grammar, as the same kind
    if ref is None:
        if sig is None:
            ctx.violation("string outside the cap grammar accepted as %s%s" % (fd, tag), case, "accepted-outside-grammar")
    else:
        if (ref[0], ref[1]) != (fd, tag):
            ctx.violation("string of kind %s%s mis-read as %s%s" % (ref[0], ref[1], fd, tag), case, "mis-read-as-different-kind")
        if ref[3] == "newline" and sig is None:
            ctx.violation("cap + newline accepted", case, "trailing-newline")


def monitor_object(ctx, c):
    """parse_print on a cap object built with the real constructors"""
    from allmydata import uri
    s = c.to_string()
    c2 = uri.from_string(s)
    if type(c2) is not type(c) or U.describe(c2) != U.describe(c) or not (c2 == c) or c2.to_string() != s:
        ctx.violation("from_string(to_string(c)) differs from c", {"cap": U.describe(c)}, "parse-print-" + "".join(U.tag_of(c)))


WORKER = _os.path.join(_os.path.dirname(_os.path.abspath(__file__)), "_uri_worker.py")


def run_worker(orders, reload):
    import json
    import subprocess
    import sys
    from common import InfraError
    p = subprocess.run([sys.executable, WORKER], input=json.dumps({"reload": reload, "orders": [[hx(s) for s in o] for o in orders]}),
                       stdout=subprocess.PIPE, stderr=subprocess.PIPE, text=True, timeout=600)
    if p.returncode != 0:
        raise InfraError("uri worker failed: " + p.stderr[-400:])
    return json.loads(p.stdout)


def run_orders(ctx, replay_order=None):
    """Parse every kind in many different ORDERS with cold class-level state (a parser must not depend on what was
    parsed before): every ordered pair of kinds, random permutations of all 18 (module reloaded before each order),
    and a few orders in really fresh processes.  Each string is the to_string() of a cap built with the real
    constructors, so it must parse back to the same kind and print itself."""
    import random
    rng = ctx.rng
    caps = {}
    for (tag, is_dir) in U.ALL_KINDS:
        # fixed caps: the order corpus (all ordered pairs + one fresh process) does not depend on VERIF_SEED
        c = U.rand_cap(random.Random("C15-order-%s-%s" % (tag, is_dir)), tag, is_dir)
        caps[("D" if is_dir else "F") + tag] = c.to_string()
    kinds = sorted(caps)
    kind_of = {s: k for k, s in caps.items()}
    if replay_order is not None:
        batches = [("fresh", [replay_order])]
        for s in replay_order:
            kind_of.setdefault(s, "?")
    else:
        pairs = [[caps[a], caps[b]] for a in kinds for b in kinds if a != b]
        perms = []
        for _ in range(0 if CORPUS_ONLY else ctx.budget(20, 400)):
            o = [caps[k] for k in kinds]
            rng.shuffle(o)
            perms.append(o)
        batches = [("reload", pairs + perms)]
        # corpus: the DIR2-Verifier-first order of seed C15-c in a really fresh process; then seeded extra orders
        batches.append(("fresh", [[caps["DSSKV"], caps["DCHKV"]] + [caps[k] for k in kinds if k not in ("DSSKV", "DCHKV")]]))
        firsts = kinds[:]
        rng.shuffle(firsts)
        for a in firsts[:(0 if CORPUS_ONLY else ctx.budget(3, 18))]:
            rest = [k for k in kinds if k != a]
            rng.shuffle(rest)
            batches.append(("fresh", [[caps[a]] + [caps[k] for k in rest]]))
    strings = sorted(kind_of)
    model = ctx.model(["fs 0 " + hx(s) for s in strings])
    model_of = dict(zip(strings, model)) if model is not None else None
    for mode, orders in batches:
        results = run_worker(orders, reload=(mode == "reload"))
        for order, res in zip(orders, results):
            for i, (s, out) in enumerate(zip(order, res)):
                prev = kind_of[order[i - 1]] if i else "start"
                case = {"order": [hx(x) for x in order], "index": i, "mode": mode, "kinds": [kind_of[x] for x in order]}
                ctx.case(("order", mode, tuple(kind_of[x] for x in order[:i + 1])))
                ctx.count("order:" + mode)
                want_prefix = ("D " if kind_of[s][0] == "D" else "F ") + kind_of[s][1:] + " "
                if kind_of[s] != "?" and not (out.startswith(want_prefix) and out.endswith("| " + hx(s))):
                    what = "unknown" if out.startswith("U ") else "other"
                    ctx.violation("to_string() of a %s cap parsed back as %r when first parsed after %s" % (kind_of[s], out[:60], prev),
                                  case, "valid-cap-parsed-as-%s:%s:after:%s" % (what, kind_of[s], prev))
                if model_of is not None and model_of[s] != out:
                    ctx.disagree("uri.from_string in order (%s)" % mode, case, out, model_of[s])


def run(ctx):
    from allmydata import uri
    from allmydata.util import base32
    rng = ctx.rng
    n_caps = ctx.budget(32, 1500)      # per kind
    n_mut = ctx.budget(12, 40)         # mutations per cap (of a subset)
    n_rand = ctx.budget(1200, 60000)

    strings = []                        # (label, bytes)
    objs = []
    if ctx.replay and "order" in (ctx.replay.get("case") or {}):
        from common import unhx
        return run_orders(ctx, [unhx(x) for x in ctx.replay["case"]["order"]])
    if not ctx.replay:
        run_orders(ctx)
    if ctx.replay:
        case = ctx.replay.get("case") or {}
        if "s" in case:
            from common import unhx
            strings = [("replay", unhx(case["s"]))]
    else:
        for s in corpus(rng):
            strings.append(("corpus", s))
        for (tag, is_dir) in U.ALL_KINDS:
            for i in range(0 if CORPUS_ONLY else n_caps):
                c = U.rand_cap(rng, tag, is_dir)
                objs.append(c)
                s = c.to_string()
                strings.append(("canonical", s))
                pre = rng.choice(U.PREFIXES)
                if pre:
                    strings.append(("prefixed", pre + s))
                if i < max(6, n_caps // 3):
                    for _ in range(n_mut):
                        lab, m = U.mutate(rng, s)
                        if rng.random() < 0.25:
                            lab2, m = U.mutate(rng, m)
                            lab = lab + "+" + lab2
                        if rng.random() < 0.2:
                            m = rng.choice([b"ro.", b"imm."]) + m
                        strings.append((lab, m))
        for _ in range(0 if CORPUS_ONLY else n_rand):
            strings.append(("random", U.random_string(rng)))

    # --- from_string on every string in both contexts
    lines, impl, cases = [], [], []
    for lab, s in strings:
        for deep in (False, True):
            c, out = impl_from_string(s, deep)
            ctx.count("mut:" + lab.split("+")[0])
            if c is None:
                ctx.count("int-limit-ValueError")
                continue
            ctx.count("result:" + "".join(x or "" for x in U.tag_of(c)) + ("" if U.tag_of(c)[0] != "U" else ":" + U.describe(c)[2:]))
            monitor_string(ctx, s, deep, c)
            ctx.case((deep, s) if has_cap_prefix(s) else None)
            lines.append("%s %d %s" % (FS_OP, 1 if deep else 0, hx(s)))
            impl.append(out)
            cases.append({"s": hx(s), "deep": deep, "label": lab})
    model = ctx.model(lines)
    ctx.compare("uri.from_string(s, deep) kind/fields/error and to_string()", cases, impl, model)

    # --- to_string of constructed objects (well-formed and with odd field lengths), parse_print monitor
    lines, impl, cases = [], [], []
    for c in objs:
        monitor_object(ctx, c)
        lines.append("ts " + U.describe(c))
        impl.append(hx(c.to_string()))
        cases.append({"cap": U.describe(c)})
        ctx.case(("ts", U.describe(c)))
    for _ in range(0 if CORPUS_ONLY else ctx.budget(300, 6000)):
        # odd lengths exercise b2a on every length class; verifier classes assert len(si)==16, so use key-bearing classes
        kind = rng.choice(["CHK", "SSK", "SSKRO", "MDMF", "MDMFRO", "LIT"])
        a, b = U.rand_bytes(rng, rng.randrange(0, 24)), U.rand_bytes(rng, rng.randrange(0, 40))
        if kind == "CHK":
            c = uri.CHKFileURI(a, b, U.rand_nat(rng), U.rand_nat(rng), U.rand_nat(rng, True))
        elif kind == "LIT":
            c = uri.LiteralFileURI(b)
        else:
            c = {"SSK": uri.WriteableSSKFileURI, "SSKRO": uri.ReadonlySSKFileURI, "MDMF": uri.WriteableMDMFFileURI,
                 "MDMFRO": uri.ReadonlyMDMFFileURI}[kind](a, b)
        lines.append("ts " + U.describe(c))
        impl.append(hx(c.to_string()))
        cases.append({"cap": U.describe(c)})
        ctx.case(("ts", U.describe(c)))
    ctx.compare("to_string() of constructed caps", cases, impl, ctx.model(lines))

    # --- base32 and decimal helpers at function granularity
    lines, impl, cases = [], [], []
    for _ in range(0 if CORPUS_ONLY else ctx.budget(400, 8000)):
        b = U.rand_bytes(rng, rng.randrange(0, 45))
        lines.append("b2a " + hx(b)); impl.append(hx(base32.b2a(b))); cases.append({"b2a": hx(b)})
        enc = base32.b2a(b)
        if enc and rng.random() < 0.5:
            enc = enc[:-1] + bytes([rng.choice(U.B32)])     # non-zero spare bits: b32decode truncates
        if base32.could_be_base32_encoded(enc):
            lines.append("a2b " + hx(enc)); impl.append(hx(base32.a2b(enc))); cases.append({"a2b": hx(enc)})
        n = U.rand_nat(rng, True)
        lines.append("dec %d" % n); impl.append(hx(b"%d" % n)); cases.append({"dec": str(n)})
        d = (b"0" * rng.randrange(0, 3)) + (b"%d" % n)
        lines.append("int " + hx(d)); impl.append(str(int(d))); cases.append({"int": hx(d)})
        ctx.case(None, 4)
    ctx.compare("base32.b2a / a2b, %d / int", cases, impl, ctx.model(lines))
    ctx.sample({"string": strings[0][1].decode("latin-1"), "n_strings": len(strings), "n_objects": len(objs)})


def replay(ctx, obj):
    run(ctx)
