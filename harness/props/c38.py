"""C38 — on-disk and wire encodings round-trip (base32, base62, netstrings, URI extension blocks,
lease records, share-container headers)."""
import hashlib
import os
import re
import struct

import common
from common import hx, unhx

ID = "C38"
LEAN_PROPS = "Tahoe.Props.C38"
DRIVER = "C38"
GENERATED = ["encodings"]
SOURCES = ["src/allmydata/util/base32.py", "src/allmydata/util/base62.py", "src/allmydata/util/netstring.py",
           "src/allmydata/uri.py", "src/allmydata/storage/lease.py", "src/allmydata/storage/lease_schema.py",
           "src/allmydata/storage/immutable_schema.py", "src/allmydata/storage/mutable_schema.py",
           "src/allmydata/storage/immutable.py", "src/allmydata/storage/mutable.py"]
DESIGN_REF = "DESIGN.md §2 C38"
TECHNIQUE = ("Lean 4 theorems (56, Mathlib-free) over executable models of every codec in the statement — radix arithmetic, "
             "struct pack/unpack, netstrings incl. the whole split_netstring loop, base32, base62, URI extension blocks incl. "
             "UTF-8 key validity, lease records v1/v2 incl. renewal chains, immutable and mutable container headers: "
             "decode(encode v) = v under explicit range guards, and exactness 'the decoder accepts exactly the image of the "
             "encoder' (…_exact / …_canonical / …_accepted_iff); differential correspondence of every encoder and decoder "
             "(values and exception kinds) on a fixed corpus, edge values and mutation streams against the real functions and "
             "the real ShareFile / MutableShareFile containers; implementation-side monitor written from the statement: "
             "decode(encode v) == v, and nothing that is not an encoding is accepted")
LEVEL_TEXT = ("Proved in Lean for all inputs: round trips base32_decode_encode, base62_decode_encode, netstring_decode_encode, "
              "netstring_split_concat, ueb_decode_encode, lease_immutable/mutable_decode_encode, lease_v2_decode_encode, "
              "lease_renew_roundtrip(_mutable), immutable_header_decode_encode, immutable_header_known_versions, "
              "mutable_header_decode_encode, mutable_header_fields; exactness base32_exact, base62_exact, netstring_exact, "
              "netstring_split_canonical(_trailer), netstring_prefix_free, netstring_concat_unique, ueb_exact, utf8_accept_exact, "
              "lease_immutable_exact, lease_mutable_exact, struct_canonical, immutable_header_canonical, mutable_header_canonical, "
              "mutable_magic_exact, mutable_header_accepted_iff. Alphabets, length tables, struct formats, sizes, offsets and the "
              "container magics are extracted from the source each run and pinned by named theorems (…_pinned). The models are "
              "tied to the code by per-function correspondence including exception kinds. No _partial theorems.")
LEVEL_NOTE = ("Lean kernel + standard axioms only; models hand-written and tied by correspondence. Modelled and sampled, not "
              "verified: Python's struct, base64.b32decode, bytes.isdigit/re canonical-decimal checks and str(…, 'utf-8') (whose "
              "model is proved to accept exactly the image of a UTF-8 encoder, utf8_accept_exact). blake2b enters "
              "lease_v2_decode_encode as an explicit injectivity hypothesis. The decoder variants of the code before the four "
              "repairs (Netstring.split pyLen with the int() model pyInt, Base32.a2b 1, Base62.a2b, Ueb.unpack asIs) are kept as "
              "documentation with …_asis_counterexample evaluations; they are no longer compared with /repo except to label a "
              "disagreement. The UEB decoder enforces neither key order nor the key pattern [a-zA-Z_-]+ (statement silent; "
              "ueb_exact states exactly what is enforced); the immutable header's size field is saturated and documented as unused.")
RULE = ("a case is one encoder or decoder call (or one renewal chain / container history for lease records) on one input: a "
        "fixed-corpus input (one per seeded change and per repaired defect; VERIF_CORPUS_ONLY=1 runs only these), a value at a "
        "range edge, a random value, or a mutation of a valid encoding (truncate / extend / flip / non-alphabet / non-canonical "
        "length / duplicate or unsorted key / trailing bytes / damaged magic); distinct = distinct (operation, input); "
        "non-trivial = the input is not the empty string")
TRUSTED = ["lean/Tahoe/Base/{Radix,Bytes,Struct,Netstring,Base32,Base62}.lean and lean/Tahoe/Codec/{Ueb,Utf8,Records}.lean are hand "
           "transcriptions of the Python functions named in their headers (tied by correspondence, not by translation)",
           "harness/extract_parts/encodings.py (alphabets, struct formats, sizes, offsets, magics read from the live source)",
           "the monitor's reference parsers in harness/props/c38.py (canonical netstring / UEB grammar), hashlib.blake2b as the "
           "reference for the v2 lease digests"]
ASSUMPTIONS = ["assert statements are active (python is not run with -O): split_netstring's truncation / terminator checks and "
               "unpack_extension's terminator check reject through assert",
               "lease expiration times are the integers int(expiration_time) (the record's documented 4-byte seconds field); float "
               "times are quantised by the encoder by design",
               "lease secrets are 32 bytes and node ids 20 bytes (enforced by the storage protocol schemas); other lengths are "
               "silently padded/truncated by struct's 's' format and are outside the round-trip guard (example after lease_immutable_exact)",
               "split_netstring is called with position >= 0",
               "blake2b (v2 lease schema) is injective on the secrets in use (hypothesis of lease_v2_decode_encode); the harness "
               "supplies hashlib.blake2b digests to the model",
               "UEB dictionaries hold integers exactly under the five integer keys and byte strings elsewhere (guard of "
               "ueb_decode_encode; what pack_extension is given by the encoder)"]

B32 = b"abcdefghijklmnopqrstuvwxyz234567"
B62 = b"0123456789ABCDEFGHIJKLMNOPQRSTUVWXYZabcdefghijklmnopqrstuvwxyz"
INTKEYS = ('size', 'segment_size', 'num_segments', 'needed_shares', 'total_shares')
UEB_KEYS = ["size", "segment_size", "num_segments", "needed_shares", "total_shares", "codec_name", "codec_params",
            "tail_codec_params", "crypttext_hash", "crypttext_root_hash", "share_root_hash"]


# ------------------------------------------------------------------------------------------ helpers

def exc_kind(e):
    if isinstance(e, AssertionError):
        return "assertion"
    if isinstance(e, IndexError):
        return "index"
    if isinstance(e, ValueError):      # includes UnicodeDecodeError
        return "value"
    if isinstance(e, struct.error):
        return "struct"
    return "EXC:" + type(e).__name__


def canonical_dec(tok):
    return re.fullmatch(br"0|[1-9][0-9]*", tok) is not None


def lenient_class(tok):
    """classifier of a length / integer token that int() accepts although it is not canonical"""
    if b"-" in tok or b"+" in tok:
        return "sign"
    if tok != tok.strip():
        return "whitespace"
    if b"_" in tok:
        return "underscore"
    if len(tok) > 1 and tok.startswith(b"0"):
        return "leading-zero"
    return "other"


def ref_netstrings(data, pos=0):
    """Reference parser: the maximal list of canonical netstrings starting at pos.
    Returns (elements, end positions, first offending length token or None)."""
    els, ends = [], []
    while pos < len(data):
        c = data.find(b":", pos)
        if c < 0:
            return els, ends, None
        tok = data[pos:c]
        if not canonical_dec(tok):
            return els, ends, tok
        n = int(tok)
        if c + 1 + n >= len(data) or data[c + 1 + n:c + 2 + n] != b",":
            return els, ends, None
        els.append(data[c + 1:c + 1 + n])
        pos = c + 2 + n
        ends.append(pos)
    return els, ends, None


def ref_ueb(data):
    """Reference parser of the documented UEB grammar: (key ':' canonical-netstring)*.
    Returns ('ok', pairs) or ('bad', reason-slug)."""
    pairs = []
    while data:
        c = data.find(b":")
        if c < 0:
            return "bad", "no-colon"
        key, data = data[:c], data[c + 1:]
        c = data.find(b":")
        if c < 0:
            return "bad", "no-colon"
        tok = data[:c]
        if not canonical_dec(tok):
            return "bad", "length:" + lenient_class(tok)
        n = int(tok)
        data = data[c + 1:]
        if len(data) < n + 1 or data[n:n + 1] != b",":
            return "bad", "framing"
        pairs.append((key, data[:n]))
        data = data[n + 1:]
    return "ok", pairs


def mutate(rng, b, alphabet=None):
    """one random mutation of an encoding"""
    r = rng.random()
    b = bytearray(b)
    if r < 0.2 and b:
        del b[rng.randrange(len(b)):]                       # truncate
    elif r < 0.3 and b:
        del b[rng.randrange(len(b))]                        # drop one byte
    elif r < 0.45:
        extra = bytes(rng.choice(alphabet) if alphabet and rng.random() < 0.7 else rng.randrange(256)
                      for _ in range(rng.choice([1, 1, 2, 3])))
        i = rng.choice([len(b), len(b), rng.randrange(len(b) + 1)])
        b[i:i] = extra                                      # extend / insert
    elif r < 0.7 and b:
        i = rng.choice([len(b) - 1, rng.randrange(len(b))])
        b[i] ^= 1 << rng.randrange(8)                       # bit flip (often in the last byte)
    elif r < 0.9 and b:
        i = rng.choice([len(b) - 1, rng.randrange(len(b))])
        if alphabet and rng.random() < 0.6:
            b[i] = rng.choice(alphabet)                     # another alphabet character
        else:
            b[i] = rng.choice(b"=!{/ \n\x00\xffAZaz0189_+-")  # a character that may be outside the alphabet
    else:
        b = b + b                                           # doubled
    return bytes(b)


def rand_bytes(rng, n):
    r = rng.random()
    if r < 0.15:
        return b"\x00" * n
    if r < 0.3:
        return b"\xff" * n
    if r < 0.4 and n:
        return b"\x00" * (n - 1) + b"\x01"
    if r < 0.5 and n:
        return b"\x01" + b"\x00" * (n - 1)
    return bytes(rng.randrange(256) for _ in range(n))


def lenient_forms(rng, n):
    s = b"%d" % n
    forms = [b"0" + s, b"+" + s, b" " + s, s + b" ", b"\t" + s + b"\n", b"00" + s, b"-" + s]
    if n == 0:
        forms.append(b"-0")
    if len(s) > 1:
        forms.append(s[:1] + b"_" + s[1:])
    return rng.choice(forms)


# ------------------------------------------------------------------------------------------ evaluation on the real code

class Impl:
    def __init__(self, ctx):
        self.ctx = ctx
        from allmydata.util import base32, base62, netstring
        from allmydata import uri
        from allmydata.storage import lease, lease_schema, immutable_schema, mutable_schema
        from allmydata.storage import immutable as simm, mutable as smut
        self.base32, self.base62, self.netstring, self.uri = base32, base62, netstring, uri
        self.lease, self.lease_schema = lease, lease_schema
        self.immutable_schema, self.mutable_schema, self.simm, self.smut = immutable_schema, mutable_schema, simm, smut
        self.tmp = os.path.join(common.WORK, "c38-%d" % os.getpid())
        os.makedirs(self.tmp, exist_ok=True)
        self.nfile = 0
        self.b62_lengths = None

    def tmpfile(self, content=None):
        self.nfile += 1
        p = os.path.join(self.tmp, "f%d" % (self.nfile % 8))
        if os.path.exists(p):
            os.unlink(p)
        if content is not None:
            with open(p, "wb") as f:
                f.write(content)
        return p

    def cleanup(self):
        try:
            for f in os.listdir(self.tmp):
                os.unlink(os.path.join(self.tmp, f))
            os.rmdir(self.tmp)
        except OSError:
            pass

    def viol(self, what, case, sig, detail=None):
        self.ctx.count("monitor:" + sig)
        self.ctx.violation(what, case, sig, detail)

    # ---- base32
    def b32enc(self, c):
        x = unhx(c["x"])
        a = self.base32.b2a(x)
        try:
            back = self.base32.a2b(a)
        except Exception as e:
            back = exc_kind(e)
        if back != x:
            self.viol("base32.a2b(b2a(x)) != x", c, "base32-roundtrip", repr(back))
        return hx(a)

    def b32could(self, c):
        return "T" if self.base32.could_be_base32_encoded(unhx(c["x"])) else "F"

    def b32dec(self, c):
        x = unhx(c["x"])
        try:
            v = self.base32.a2b(x)
        except AssertionError:
            return "err"
        except Exception as e:
            return exc_kind(e)
        if self.base32.b2a(v) != x:
            bad = [ch for ch in x if ch not in B32]
            sig = "base32-non-alphabet-accepted" if bad else "base32-nonzero-padding-bits-accepted"
            self.viol("base32.a2b accepts %r (not the encoding of any byte string) and reads it as %r, whose encoding is %r"
                      % (x, v, self.base32.b2a(v)), c, sig)
        return "ok " + hx(v)

    # ---- base62
    def b62enc(self, c):
        x = unhx(c["x"])
        a = self.base62.b2a(x)
        try:
            back = self.base62.a2b(a)
        except Exception as e:
            back = exc_kind(e)
        if back != x:
            self.viol("base62.a2b(b2a(x)) != x", c, "base62-roundtrip", repr(back))
        return hx(a)

    def b62dec(self, c):
        x = unhx(c["x"])
        try:
            v = self.base62.a2b(x)
        except ValueError:
            return "err"
        except Exception as e:
            return exc_kind(e)
        if self.base62.b2a(v) != x:
            if self.b62_lengths is None:
                self.b62_lengths = {len(self.base62.b2a(b"\x00" * n)) for n in range(0, 400)}
            if any(ch not in B62 for ch in x):
                sig = "base62-non-alphabet-accepted"
            elif len(x) not in self.b62_lengths:
                sig = "base62-impossible-length-accepted"
            else:
                sig = "base62-overflowing-value-accepted"
            self.viol("base62.a2b accepts %r (not the encoding of any byte string) and reads it as %r, whose encoding is %r"
                      % (x, v, self.base62.b2a(v)), c, sig)
        return "ok " + hx(v)

    def b62decl(self, c):
        return hx(self.base62.a2b_l(unhx(c["x"]), c["bits"]))

    def b62nums(self, c):
        n = c["n"]
        return "%d %d" % (len(self.base62.b2a(b"\x00" * n)), self.base62.num_octets_that_encode_to_this_many_chars(n))

    # ---- netstring
    def ns(self, c):
        x = unhx(c["x"])
        a = self.netstring.netstring(x)
        tail = unhx(c.get("tail", "-"))
        try:
            back = self.netstring.split_netstring(a + tail, 1)
        except Exception as e:
            back = exc_kind(e)
        if back != ([x], len(a)):
            self.viol("split_netstring(netstring(x) + tail, 1) != ([x], len(netstring(x)))", c, "netstring-roundtrip", repr(back))
        return hx(a)

    def nssplit(self, c):
        data = unhx(c["x"])
        tr = None if c["tr"] is None else unhx(c["tr"])
        try:
            els, pos = self.netstring.split_netstring(data, c["n"], c["pos"], tr)
        except Exception as e:
            return "err:" + exc_kind(e)
        # monitor: whatever was accepted must be a sequence of canonical netstrings
        if c["pos"] <= len(data):
            rels, rends, bad = ref_netstrings(data, c["pos"])
            k = len(els)
            if rels[:k] != els or (k and rends[k - 1] != pos - (len(tr) if tr else 0)):
                sig = "netstring-lenient-length:" + lenient_class(bad) if bad is not None else "netstring-framing"
                self.viol("split_netstring accepts %r and reads %r although the data is not a sequence of canonical netstrings "
                          "(offending length field %r)" % (data, els, bad), c, sig)
        return "ok %d %s" % (pos, ",".join(hx(e) for e in els) or ".")

    def utf8ok(self, c):
        """what unpack_extension does to a key: str(key, "utf-8")"""
        x = unhx(c["x"])
        try:
            t = str(x, "utf-8")
        except UnicodeDecodeError:
            return "F"
        if t.encode("utf-8") != x:
            self.viol("str(key, 'utf-8') accepts bytes that are not the UTF-8 encoding of the result", c, "utf8-noncanonical-accepted")
        return "T"

    def utf8enc(self, c):
        b = "".join(chr(cp) for cp in c["cps"]).encode("utf-8")
        if str(b, "utf-8") != "".join(chr(cp) for cp in c["cps"]):
            self.viol("utf-8 round trip of a key fails", c, "utf8-roundtrip")
        return hx(b)

    def pyint(self, c):
        try:
            return "ok %d" % int(unhx(c["x"]))
        except ValueError:
            return "err"

    # ---- URI extension block
    @staticmethod
    def dict_of(c):
        d = {}
        for k, t, v in c["d"]:
            d[unhx(k).decode("utf-8")] = v if t == "i" else unhx(v)
        return d

    @staticmethod
    def show_dict(d):
        items = []
        for k in sorted(d, key=lambda s: s.encode("utf-8")):
            v = d[k]
            items.append(hx(k.encode("utf-8")) + "=" + ("i%d" % v if isinstance(v, int) else "b" + hx(v)))
        return "ok " + (",".join(items) or ".")

    def uebpack(self, c):
        d = self.dict_of(c)
        try:
            packed = self.uri.pack_extension(d)
        except AssertionError:
            return "err"
        # round trip, under the guard: documented key pattern, integers exactly under the integer keys
        guard = all(re.fullmatch(r"[a-zA-Z_\-]+", k) for k in d) and \
            all(isinstance(v, int) == (k in INTKEYS) for k, v in d.items())
        if guard:
            try:
                back = self.uri.unpack_extension(packed)
            except Exception as e:
                back = exc_kind(e)
            if back != d:
                self.viol("unpack_extension(pack_extension(d)) != d", c, "ueb-roundtrip", repr(back))
        return "ok " + hx(packed)

    def uebunpack(self, c):
        data = unhx(c["x"])
        try:
            d = self.uri.unpack_extension(data)
        except Exception as e:
            return "err:" + exc_kind(e)
        st, ref = ref_ueb(data)
        if st == "bad":
            self.viol("unpack_extension accepts %r, which is not key:netstring,… (%s), and reads it as %r" % (data, ref, d),
                      c, "ueb-lenient-" + ref if ref.startswith("length:") else "ueb-malformed-accepted:" + ref)
        else:
            keys = [k for k, _ in ref]
            if len(set(keys)) != len(keys):
                self.viol("unpack_extension accepts %r with a repeated key and silently keeps the last value: %r" % (data, d),
                          c, "ueb-duplicate-key-accepted")
            else:
                for k, v in ref:
                    ks = k.decode("utf-8")
                    if ks in INTKEYS:
                        if not re.fullmatch(br"0|-?[1-9][0-9]*", v):
                            self.viol("unpack_extension reads the non-canonical integer %r for %r as %r" % (v, ks, d.get(ks)),
                                      c, "ueb-lenient-int-value:" + lenient_class(v))
                        elif d.get(ks) != int(v):
                            self.viol("unpack_extension reads a different integer", c, "ueb-wrong-value")
                    elif d.get(ks) != v:
                        self.viol("unpack_extension reads a different value", c, "ueb-wrong-value")
                if set(d) != {k.decode("utf-8") for k in keys}:
                    self.viol("unpack_extension reads a different key set", c, "ueb-wrong-value")
        return self.show_dict(d)

    # ---- struct (assumption sampling of the Struct model) and records
    def spack(self, c):
        vals = [v if t == "i" else unhx(v) for t, v in c["vals"]]
        try:
            return "ok " + hx(struct.pack(c["fmt"], *vals))
        except struct.error:
            return "err"

    def sunpack(self, c):
        try:
            vs = struct.unpack(c["fmt"], unhx(c["x"]))
        except struct.error:
            return "err"
        return "ok " + " ".join("i%d" % v if isinstance(v, int) else "b" + hx(v) for v in vs)

    def scalc(self, c):
        return str(struct.calcsize(c["fmt"]))

    def mk_lease(self, c):
        return self.lease.LeaseInfo(owner_num=c["o"], renew_secret=unhx(c["r"]), cancel_secret=unhx(c["c"]),
                                    expiration_time=c["e"], nodeid=None if c["n"] is None else unhx(c["n"]))

    def serializer(self, c, mutable):
        ser = c.get("ser", "raw")
        if ser == "raw":
            return None
        return getattr(self.lease_schema, "%s_%s" % (ser, "mutable" if mutable else "immutable"))

    def lease_enc(self, c, mutable):
        li = self.mk_lease(c)
        ser = self.serializer(c, mutable)
        try:
            if ser is None:
                data = li.to_mutable_data() if mutable else li.to_immutable_data()
            else:
                data = ser.serialize(li)
        except struct.error:
            return "err"
        # round trip under the guard (field ranges and widths)
        guard = (0 <= c["o"] < 2 ** 32 and 0 <= c["e"] < 2 ** 32 and len(unhx(c["r"])) == 32 and len(unhx(c["c"])) == 32)
        if guard:
            try:
                if ser is None:
                    back = self.lease.LeaseInfo.from_mutable_data(data) if mutable else self.lease.LeaseInfo.from_immutable_data(data)
                else:
                    back = ser.unserialize(data)
                ok = (back.owner_num == c["o"] and back.get_expiration_time() == c["e"]
                      and back.is_renew_secret(unhx(c["r"])) and back.is_cancel_secret(unhx(c["c"]))
                      and not back.is_renew_secret(unhx(c["c"]) if c["c"] != c["r"] else b"x" * 32)
                      and (not mutable or back.nodeid == unhx(c["n"])))
                if c.get("ser") != "v2":
                    ok = ok and back.renew_secret == unhx(c["r"]) and back.cancel_secret == unhx(c["c"])
            except Exception as e:
                ok, back = False, exc_kind(e)
            if not ok:
                self.viol("lease record does not decode back to the encoded lease", c, "lease-roundtrip", repr(back))
        return "ok " + hx(data)

    def leaseimm(self, c):
        return self.lease_enc(c, False)

    def leasemut(self, c):
        return self.lease_enc(c, True)

    def check_decoded_lease(self, c, dec, mutable, expire, what):
        """The property on a lease value read back from a record: (a) owner, expiration, nodeid as encoded;
        (b) the real secrets are recognised, other secrets are not; (c) the stored secret bytes are the
        cleartext (v1) / its single blake2b hash (v2)."""
        r, cs = unhx(c["r"]), unhx(c["c"])
        other = bytes(b ^ 0x5a for b in r)
        ser = c["ser"]
        inner = dec._lease_info if ser == "v2" else dec
        want_r, want_c = (blake(r), blake(cs)) if ser == "v2" else (r, cs)
        problems = []
        if dec.owner_num != c["o"]:
            problems.append("owner_num %r" % (dec.owner_num,))
        if dec.get_expiration_time() != expire:
            problems.append("expiration_time %r != %r" % (dec.get_expiration_time(), expire))
        if dec.nodeid != (unhx(c["n"]) if mutable else None):
            problems.append("nodeid %r" % (dec.nodeid,))
        if not dec.is_renew_secret(r):
            problems.append("the real renew secret is not recognised")
        if not dec.is_cancel_secret(cs):
            problems.append("the real cancel secret is not recognised")
        if dec.is_renew_secret(other) or (cs != r and dec.is_renew_secret(cs)):
            problems.append("a wrong renew secret is recognised")
        if dec.is_cancel_secret(other) or (cs != r and dec.is_cancel_secret(r)):
            problems.append("a wrong cancel secret is recognised")
        if (inner.renew_secret, inner.cancel_secret) != (want_r, want_c):
            problems.append("stored secret bytes differ from %s" % ("blake2b(secret)" if ser == "v2" else "the cleartext secret"))
        if problems:
            self.viol("%s: the lease record does not decode back to the lease that was encoded: %s" % (what, "; ".join(problems)),
                      c, "lease-roundtrip-after-renew:%s:%s" % (ser, "mut" if mutable else "imm"))
        return not problems

    def leasecycle(self, c):
        """every lease value the code itself produces is round-tripped: (fresh [→ renew]) → encode, then
        decode → renew(e) → encode, repeated; the property is evaluated after every decode"""
        mutable = c["fmt"] == "mut"
        ser = self.serializer(c, mutable)
        li = self.mk_lease(dict(c, e=c["e0"] if c.get("pre") else c["e"]))
        if c.get("pre"):
            li = li.renew(c["e"])        # LeaseInfo.renew on a fresh cleartext lease, then encode
        guard = (0 <= c["o"] < 2 ** 32 and all(0 <= e < 2 ** 32 for e in [c["e"]] + c["renews"])
                 and len(unhx(c["r"])) == 32 and len(unhx(c["c"])) == 32)
        outs = []
        try:
            data = ser.serialize(li)
        except struct.error:
            return "err"
        outs.append(hx(data))
        expire = c["e"]
        for step, e in enumerate(c["renews"]):
            dec = ser.unserialize(data)
            if guard:
                self.check_decoded_lease(c, dec, mutable, expire, "after %d renewals" % step)
            ren = dec.renew(e)
            try:
                data = ser.serialize(ren)
            except struct.error:
                outs.append("err")
                return "ok " + ";".join(outs)
            outs.append(hx(data))
            expire = e
        if guard:
            self.check_decoded_lease(c, ser.unserialize(data), mutable, expire, "after %d renewals" % len(c["renews"]))
        return "ok " + ";".join(outs)

    def leasecontainer(self, c):
        """the same through the real containers: add_lease, renew_lease (several times, with the cleartext
        secret), get_leases; output = the lease record bytes on disk"""
        mutable = c["fmt"] == "mut"
        v = c["v"]
        cc = dict(c, ser="v%d" % v)
        li = self.mk_lease(c)
        fn = self.tmpfile()
        if mutable:
            schema = [s_ for s_ in self.mutable_schema.ALL_SCHEMAS if s_.version == v][0]
            sf = self.smut.MutableShareFile(fn, schema=schema)
            sf.create(unhx(c["n"]), b"w" * 32)
            sf.add_lease(10 ** 6, li)
        else:
            sf = self.simm.ShareFile(fn, max_size=len(unhx(c["data"])), create=True,
                                     schema=self.immutable_schema.schema_from_version(v))
            sf.write_share_data(0, unhx(c["data"]))
            sf.add_lease(li)
        expire = c["e"]
        sig = "lease-roundtrip-after-renew:v%d:%s" % (v, "mut" if mutable else "imm")
        for step, e in enumerate(c["renews"]):
            try:
                sf.renew_lease(unhx(c["r"]), e)
            except IndexError as ex:
                self.viol("renew_lease #%d with the real renew secret fails on a %s v%d container: %s"
                          % (step + 1, c["fmt"], v, str(ex)[:80]), c, sig)
                return "EXC:IndexError at renewal %d" % (step + 1)
            expire = max(expire, e)
            sf = (self.smut.MutableShareFile if mutable else self.simm.ShareFile)(fn)   # reopen, as the server does
            leases = list(sf.get_leases())
            if len(leases) != 1:
                self.viol("container holds %d leases after renewing the only one" % len(leases), c, sig)
                return "EXC:lease count %d" % len(leases)
            self.check_decoded_lease(cc, leases[0], mutable, expire, "container, after %d renew_lease calls" % (step + 1))
        raw = open(fn, "rb").read()
        rec = raw[100:192] if mutable else raw[12 + len(unhx(c["data"])):]
        return "ok " + hx(rec)

    def lease_dec(self, c, mutable):
        data = unhx(c["x"])
        ser = self.serializer(c, mutable)
        try:
            if ser is None:
                li = self.lease.LeaseInfo.from_mutable_data(data) if mutable else self.lease.LeaseInfo.from_immutable_data(data)
            else:
                li = ser.unserialize(data)
                if c.get("ser") == "v2":
                    li = li._lease_info
        except struct.error:
            return "err"
        if len(data) != (92 if mutable else 72):
            self.viol("a lease record of the wrong length is accepted", c, "lease-wrong-length-accepted")
        else:
            re_enc = li.to_mutable_data() if mutable else li.to_immutable_data()
            if re_enc != data:
                self.viol("lease record decodes to a lease whose encoding differs", c, "lease-noncanonical-accepted")
        return "ok %d %s %s %d %s" % (li.owner_num, hx(li.renew_secret), hx(li.cancel_secret), li.get_expiration_time(),
                                      "none" if li.nodeid is None else hx(li.nodeid))

    def unleaseimm(self, c):
        return self.lease_dec(c, False)

    def unleasemut(self, c):
        return self.lease_dec(c, True)

    def immhdr(self, c):
        v, m = c["v"], c["m"]
        if c.get("real"):
            # through the container: ShareFile(create=True) writes the header, reopening reads it
            schema = self.immutable_schema.schema_from_version(v)
            fn = self.tmpfile()
            sf = self.simm.ShareFile(fn, max_size=m, create=True, schema=schema)
            data = open(fn, "rb").read()
            back = self.simm.ShareFile(fn)
            if (back._schema.version, back._num_leases, back._length) != (v, 0, 0):
                self.viol("a freshly created immutable container does not read back (version, 0 leases, 0 bytes)", c,
                          "immutable-header-roundtrip", repr((back._schema.version, back._num_leases, back._length)))
            return "ok " + hx(data)
        try:
            return "ok " + hx(self.immutable_schema._Schema(version=v, lease_serializer=None).header(m))
        except struct.error:
            return "err"

    def rdimmhdr(self, c):
        data = unhx(c["x"])
        fn = self.tmpfile(data)
        try:
            sf = self.simm.ShareFile(fn)
            out = "ok %d %s %d known" % (sf._schema.version, "?", sf._num_leases)
        except struct.error:
            if len(data) >= 12:
                self.viol("a 12-byte immutable header is rejected", c, "immutable-header-rejected")
            return "err"
        except self.simm.UnknownImmutableContainerVersionError:
            (v, u, n) = struct.unpack(">LLL", data[:12])
            return "ok %d %d %d unknown" % (v, u, n)
        (v, u, n) = struct.unpack(">LLL", data[:12])
        if len(data) < 12:
            self.viol("a truncated immutable header is accepted", c, "immutable-header-truncated-accepted")
        if (sf._schema.version, sf._num_leases) != (v, n):
            self.viol("immutable header fields read differently from the bytes on disk", c, "immutable-header-wrong-value")
        return "ok %d %d %d known" % (sf._schema.version, u, sf._num_leases)

    def immvalid(self, c):
        try:
            return "T" if self.simm.ShareFile.is_valid_header(unhx(c["x"])) else "F"
        except struct.error:
            return "err"

    def muthdr(self, c):
        v, n, w = c["v"], unhx(c["n"]), unhx(c["w"])
        schema = [s for s in self.mutable_schema.ALL_SCHEMAS if s.version == v][0]
        fn = self.tmpfile()
        msf = self.smut.MutableShareFile(fn, schema=schema)
        try:
            msf.create(n, w)
        except struct.error:
            return "err"
        data = open(fn, "rb").read()
        if len(n) == 20 and len(w) == 32:
            back = self.smut.MutableShareFile(fn)
            with open(fn, "rb") as f:
                got = (back._schema.version, back._read_write_enabler_and_nodeid(f), back._read_data_length(f),
                       back._read_num_extra_leases(f), list(back.get_leases()))
            if got != (v, (w, n), 0, 0, []):
                self.viol("a freshly created mutable container does not read back its header values", c,
                          "mutable-header-roundtrip", repr(got))
        return "ok " + hx(data)

    def rdmuthdr(self, c):
        data = unhx(c["x"])
        fn = self.tmpfile(data)
        msf = self.smut.MutableShareFile(os.path.join(self.tmp, "does-not-exist"))

        def opt(fn_):
            try:
                with open(fn, "rb") as f:
                    return str(fn_(f))
            except Exception:
                return "x"
        with open(fn, "rb") as f:
            try:
                (w, n) = msf._read_write_enabler_and_nodeid(f)
                head = "ok %s %s" % (hx(n), hx(w))
                if len(data) < 100 or data[:32] not in (self.mutable_schema._magic(1), self.mutable_schema._magic(2)):
                    self.viol("a mutable header that is truncated or has an unknown magic is accepted", c,
                              "mutable-header-malformed-accepted")
                elif (n, w) != (data[32:52], data[52:84]):
                    self.viol("mutable header fields read differently from the bytes on disk", c, "mutable-header-wrong-value")
            except struct.error:
                head = "err:struct"
            except AssertionError:
                head = "err:assertion"
        s = self.mutable_schema.schema_from_header(data[:100])
        # the container classes themselves: a file is a mutable container iff its first 32 bytes are, in
        # full, the magic of one of the schemas
        magics = {self.mutable_schema._magic(1): 1, self.mutable_schema._magic(2): 2}
        exact = magics.get(data[:32])
        try:
            opened = self.smut.MutableShareFile(fn)._schema.version
        except self.smut.UnknownMutableContainerVersionError:
            opened = None
        valid = self.smut.MutableShareFile.is_valid_header(data[:100])
        if (opened, valid, None if s is None else s.version) != (exact, exact is not None, exact):
            if exact is None:
                self.viol("a file whose first 32 bytes %r are not a mutable-container magic is recognised as a v%s mutable container"
                          % (data[:32], opened or (s and s.version)), c, "mutable-header-malformed-accepted")
            else:
                self.viol("a mutable container with the v%d magic is not recognised as such" % exact, c, "mutable-header-rejected")
        return head + " dl=%s elo=%s nx=%s schema=%s" % (opt(msf._read_data_length), opt(msf._read_extra_lease_offset),
                                                        opt(msf._read_num_extra_leases), "x" if s is None else s.version)


# ------------------------------------------------------------------------------------------ driver lines

def blake(b):
    return hashlib.blake2b(b, digest_size=32).digest()


def line_of(c, mode="s"):
    k = c["k"]
    if k in ("b32enc", "b62enc", "pyint", "immvalid", "rdimmhdr", "rdmuthdr"):
        return "%s %s" % (k, c["x"])
    if k == "utf8ok":
        return "utf8ok %s" % c["x"]
    if k == "utf8enc":
        return "utf8enc %s" % (",".join("%d" % cp for cp in c["cps"]) or "-")
    if k == "ns":
        return "ns %s" % c["x"]
    if k in ("b32could", "b32dec"):
        return "%s %d %s" % (k, 0 if mode == "s" else 1, c["x"])
    if k == "b62dec":
        return "b62dec %s %s" % (mode, c["x"])
    if k == "b62decl":
        return "b62decl %s %d" % (c["x"], c["bits"])
    if k == "b62nums":
        return "b62nums %d" % c["n"]
    if k == "nssplit":
        return "nssplit %s %s %d %d %s" % (mode, c["x"], c["n"], c["pos"], "none" if c["tr"] is None else c["tr"])
    if k == "uebpack":
        return " ".join(["uebpack"] + ["%s:%s:%s" % (kk, t, v) for kk, t, v in c["d"]])
    if k == "uebunpack":
        return "uebunpack %s %s" % (mode, c["x"])
    if k == "spack":
        return " ".join(["spack", c["fmt"]] + ["%s%s" % (t, v) for t, v in c["vals"]])
    if k == "sunpack":
        return "sunpack %s %s" % (c["fmt"], c["x"])
    if k == "scalc":
        return "scalc %s" % c["fmt"]
    if k in ("leaseimm", "leasemut"):
        r, cc = c["r"], c["c"]
        if c.get("ser") == "v2":   # the v2 schema stores blake2b digests of the secrets
            r, cc = hx(blake(unhx(r))), hx(blake(unhx(cc)))
        return "%s %d %s %s %d %s" % (k, c["o"], r, cc, c["e"], "none" if c["n"] is None else c["n"])
    if k == "leasecycle":
        r, cc = c["r"], c["c"]
        if c.get("ser") == "v2":
            r, cc = hx(blake(unhx(r))), hx(blake(unhx(cc)))
        return "leasecycle %s %d %s %s %d %s %s" % (c["fmt"], c["o"], r, cc, c["e"], "none" if c["n"] is None else c["n"],
                                                    ",".join("%d" % e for e in c["renews"]))
    if k == "leasecontainer":
        r, cc = c["r"], c["c"]
        if c["v"] == 2:
            r, cc = hx(blake(unhx(r))), hx(blake(unhx(cc)))
        return "%s %d %s %s %d %s" % ("leasemut" if c["fmt"] == "mut" else "leaseimm", c["o"], r, cc,
                                      max([c["e"]] + c["renews"]), c["n"])
    if k in ("unleaseimm", "unleasemut"):
        return "%s %s" % (k, c["x"])
    if k == "immhdr":
        return "immhdr %d %d" % (c["v"], c["m"])
    if k == "muthdr":
        return "muthdr %d %s %s" % (c["v"], c["n"], c["w"])
    raise ValueError(k)


MODAL = ("b32could", "b32dec", "b62dec", "nssplit", "uebunpack")


# ------------------------------------------------------------------------------------------ generators

CORPUS = [
    # DESIGN §3 probes and what was found while building
    {"k": "nssplit", "x": hx(b"03:abc,+2:de,"), "n": 2, "pos": 0, "tr": None},
    {"k": "nssplit", "x": hx(b" 3:abc,"), "n": 1, "pos": 0, "tr": None},
    {"k": "nssplit", "x": hx(b"1_0:abcdefghij,"), "n": 1, "pos": 0, "tr": None},
    {"k": "nssplit", "x": hx(b"-0:,"), "n": 1, "pos": 0, "tr": None},
    {"k": "nssplit", "x": hx(b"3:abc,2:de,"), "n": 2, "pos": 0, "tr": None},
    {"k": "nssplit", "x": hx(b"3:abc,2:de,"), "n": 0, "pos": 0, "tr": None},
    {"k": "nssplit", "x": hx(b"-1:abc,"), "n": 1, "pos": 0, "tr": None},
    {"k": "b62dec", "x": hx(b"!!!!")},
    {"k": "b62dec", "x": hx(b"zz")},
    {"k": "b62dec", "x": hx(b"0000")},
    {"k": "b62dec", "x": hx(b"7tQLFHz")},
    {"k": "b32dec", "x": hx(b"ac")},
    {"k": "b32dec", "x": hx(b"aaai")},
    {"k": "b32dec", "x": hx(b"aaaab")},
    {"k": "b32dec", "x": hx(b"aaaaaae")},
    {"k": "b32dec", "x": hx(b"ae")},
    {"k": "b32could", "x": hx(b"ac")},
    {"k": "uebunpack", "x": hx(b"size:02:12,")},
    {"k": "uebunpack", "x": hx(b"size:2: 7,")},
    {"k": "uebunpack", "x": hx(b"size:1:5,size:1:6,")},
    {"k": "uebunpack", "x": hx(b"k:-5:XY,:0:,")},
    {"k": "uebunpack", "x": hx(b"codec_name:3:crs,size:2:12,")},
    {"k": "uebunpack", "x": hx(b"codec_name:3:crs,size:2:12,x")},
    {"k": "uebunpack", "x": hx(b"codec_name:3:crs,size:2:12,tail_codec_pa")},
    {"k": "uebunpack", "x": hx(b"cod")},
    {"k": "b62dec", "x": hx(b"000")},
    {"k": "b62dec", "x": hx(b"07tQLFHz")},
    {"k": "uebunpack", "x": hx(b"size:2:12,codec_name:3:crs,")},
    {"k": "leasecycle", "fmt": "imm", "ser": "v2", "o": 1, "r": "11" * 32, "c": "22" * 32, "e": 1000, "n": "33" * 20,
     "renews": [2000, 3000]},
    {"k": "leasecycle", "fmt": "mut", "ser": "v2", "o": 1, "r": "11" * 32, "c": "22" * 32, "e": 1000, "n": "33" * 20,
     "renews": [2000], "pre": True, "e0": 5},
    {"k": "leasecontainer", "fmt": "imm", "v": 2, "o": 1, "r": "11" * 32, "c": "22" * 32, "e": 1000, "n": "33" * 20,
     "renews": [2000, 3000], "data": "6162"},
    {"k": "leasecontainer", "fmt": "mut", "v": 2, "o": 1, "r": "11" * 32, "c": "22" * 32, "e": 1000, "n": "33" * 20,
     "renews": [2000, 3000], "data": "-"},
    {"k": "immhdr", "v": 2, "m": 2 ** 32 + 5},
    {"k": "immhdr", "v": 1, "m": 2 ** 32 - 1, "real": True},
    # one input per remaining leniency class of the four repaired decoders
    {"k": "nssplit", "x": hx(b"3 :abc,"), "n": 1, "pos": 0, "tr": hx(b"")},
    {"k": "uebunpack", "x": hx(b"size:+2:12,")},
    {"k": "uebunpack", "x": hx(b"size: 2:12,")},
    {"k": "uebunpack", "x": hx(b"codec_name:1_0:abcdefghij,")},
    {"k": "uebunpack", "x": hx(b"size:3:012,")},
    {"k": "uebunpack", "x": hx(b"size:3:+12,")},
    {"k": "uebunpack", "x": hx(b"size:3:1_2,")},
    {"k": "uebunpack", "x": hx(b"size:2:-0,")},
    {"k": "b32dec", "x": hx(b"aaaaaaaaac")},
    # plain round trips of every encoder (fresh values at range edges)
    {"k": "b32enc", "x": hx(b"\xff" * 20)},
    {"k": "b62enc", "x": hx(b"\xff" * 32)},
    {"k": "b62enc", "x": "-"},
    {"k": "ns", "x": hx(b"3:abc,"), "tail": hx(b"0:,")},
    {"k": "uebpack", "d": [[hx(b"size"), "i", 2 ** 32], [hx(b"codec_name"), "b", hx(b"crs")],
                           [hx(b"crypttext_hash"), "b", hx(b"\x00" * 32)]]},
    {"k": "leaseimm", "o": 2 ** 32 - 1, "r": "11" * 32, "c": "22" * 32, "e": 2 ** 32 - 1, "n": None, "ser": "v2"},
    {"k": "leasemut", "o": 1, "r": "11" * 32, "c": "11" * 32, "e": 0, "n": "33" * 20, "ser": "v1"},
    {"k": "leasecycle", "fmt": "imm", "ser": "v1", "o": 1, "r": "11" * 32, "c": "22" * 32, "e": 1000, "n": "33" * 20,
     "renews": [2000, 3000]},
    {"k": "muthdr", "v": 2, "n": "33" * 20, "w": "44" * 32},
    {"k": "muthdr", "v": 1, "n": "33" * 20, "w": "44" * 32},
    # UTF-8 validity of keys: boundary scalars, overlong, surrogate, > U+10FFFF, truncated
    {"k": "utf8enc", "cps": [0x7f, 0x80, 0x7ff, 0x800, 0xd7ff, 0xe000, 0xffff, 0x10000, 0x10ffff]},
    {"k": "utf8ok", "x": "c3a9e282acf09f9880"},
    {"k": "utf8ok", "x": "c080"}, {"k": "utf8ok", "x": "e0809f"}, {"k": "utf8ok", "x": "eda080"},
    {"k": "utf8ok", "x": "f08f8080"}, {"k": "utf8ok", "x": "f4908080"}, {"k": "utf8ok", "x": "e282"},
    {"k": "uebunpack", "x": hx("clé".encode("utf-8") + b":1:x,")},
    {"k": "uebunpack", "x": hx(b"cl\xe9:1:x,")},
]


def mutable_header_corpus():
    """fixed mutable-container headers: good v1/v2, magic damaged only in its five trailing bytes, and the
    version number spelled non-canonically"""
    from allmydata.storage import mutable_schema
    cs = []
    for v in (1, 2):
        magic = mutable_schema._magic(v)
        body = b"\x33" * 20 + b"\x44" * 32 + struct.pack(">QQ", 0, 468) + b"\x00" * 368 + struct.pack(">L", 0)
        variants = [magic,
                    magic[:31] + bytes([magic[31] ^ 1]),
                    magic[:27] + bytes([magic[27] ^ 0x80]) + magic[28:],
                    magic[:27] + b"\x00" * 5,
                    magic[:25] + b"0%d\n" % v + magic[27:31],          # "v01\n" / "v02\n"
                    magic[:25] + b"3\n" + magic[27:],
                    magic[:26] + b"\r" + magic[27:]]
        for m in variants:
            cs.append({"k": "rdmuthdr", "x": hx(m + body)})
        cs.append({"k": "rdmuthdr", "x": hx(magic)})                 # magic only: a container, but no header to read
    return cs


def gen_base32(rng, n):
    cs = []
    for _ in range(n):
        ln = rng.choice([0, 1, 2, 3, 4, 5, 6, 7, 8, 9, 10, 11, 16, 20, 32, 33, rng.randrange(0, 70)])
        v = rand_bytes(rng, ln)
        cs.append({"k": "b32enc", "x": hx(v)})
        import base64
        enc = base64.b32encode(v).rstrip(b"=").lower()
        cs.append({"k": "b32dec", "x": hx(enc)})
        for _ in range(3):
            m = mutate(rng, enc, B32)
            cs.append({"k": rng.choice(["b32dec", "b32dec", "b32could"]), "x": hx(m)})
        r = bytes(rng.choice(B32) for _ in range(rng.randrange(1, 18)))
        cs.append({"k": "b32dec", "x": hx(r)})
    return cs


def b62_ref_enc(v):
    n = int.from_bytes(v, "big")
    nv = 256 ** len(v)
    out = []
    while nv > 0:
        out.append(B62[n % 62])
        n //= 62
        nv //= 62
    return bytes(reversed(out))


def gen_base62(rng, n):
    cs = [{"k": "b62nums", "n": i} for i in range(0, 45)]
    for _ in range(n):
        ln = rng.choice([0, 1, 2, 3, 4, 5, 6, 7, 8, 16, 20, 32, 33, rng.randrange(0, 80)])
        v = rand_bytes(rng, ln)
        cs.append({"k": "b62enc", "x": hx(v)})
        enc = b62_ref_enc(v)
        cs.append({"k": "b62dec", "x": hx(enc)})
        for _ in range(3):
            cs.append({"k": "b62dec", "x": hx(mutate(rng, enc, B62))})
        # a small digit in front: same value, often an impossible length
        cs.append({"k": "b62dec", "x": hx(rng.choice([b"0", b"0", b"1", b"00"]) + enc)})
        r = bytes(rng.choice(B62 + b"zzzz") for _ in range(rng.randrange(0, 14)))
        cs.append({"k": "b62dec", "x": hx(r)})
        cs.append({"k": "b62decl", "x": hx(rng.choice([enc, r])), "bits": rng.choice([0, 1, 7, 8, 9, 16, 17, 8 * ln, rng.randrange(0, 300)])})
    return cs


def gen_netstring(rng, n):
    cs = []
    for _ in range(n):
        k = rng.choice([1, 1, 2, 3, 4])
        strs = [rand_bytes(rng, rng.choice([0, 1, 2, 9, 10, 11, 99, 100, 101, rng.randrange(0, 40)])) for _ in range(k)]
        if rng.random() < 0.3:
            strs[0] = rng.choice([b"3:abc,", b":", b",", b"0:,", b"12", b"1:", b"\xff\x00"])
        cs.append({"k": "ns", "x": hx(strs[0]), "tail": hx(rng.choice([b"", b"x", b"5:", b",", b"0:,"]))})
        encs = [b"%d:%s," % (len(s), s) for s in strs]
        data = b"".join(encs)
        tail = rng.choice([b"", b"", b"tail", b"0:,", b","])
        nn = rng.choice([k, k, k, k - 1, k + 1, 0, 1])
        if nn < 0:
            nn = 0
        pos = rng.choice([0, 0, 0, len(encs[0]), rng.randrange(len(data) + 3), len(data), len(data) + 1])
        tr = rng.choice([None, None, tail, tail, b"", b"x"])
        cs.append({"k": "nssplit", "x": hx(data + tail), "n": nn, "pos": pos, "tr": None if tr is None else hx(tr)})
        # mutations
        for _ in range(3):
            r = rng.random()
            if r < 0.45:
                i = rng.randrange(k)
                e2 = list(encs)
                e2[i] = lenient_forms(rng, len(strs[i])) + b":" + strs[i] + b","
                m = b"".join(e2)
            elif r < 0.55:
                i = rng.randrange(k)
                e2 = list(encs)
                e2[i] = b"%d:%s," % (len(strs[i]) + rng.choice([-1, 1, 2, 10]), strs[i])
                m = b"".join(e2)
            else:
                m = mutate(rng, data, b"0123456789:,")
            cs.append({"k": "nssplit", "x": hx(m), "n": rng.choice([k, k, 1, 0]), "pos": 0,
                       "tr": rng.choice([None, None, None, hx(b"")])})
    return cs


def rand_scalar(rng):
    c = rng.choice([0, 0x41, 0x7f, 0x80, 0x7ff, 0x800, 0xfff, 0x1000, 0xd7ff, 0xe000, 0xffff, 0x10000, 0x3ffff, 0x40000,
                    0xfffff, 0x100000, 0x10ffff, rng.randrange(0x110000), rng.randrange(0x110000), rng.randrange(0x800)])
    return c if not (0xd800 <= c <= 0xdfff) else 0xd7ff


def gen_utf8(rng, n):
    cs = []
    for _ in range(n):
        cps = [rand_scalar(rng) for _ in range(rng.randrange(0, 5))]
        cs.append({"k": "utf8enc", "cps": cps})
        good = "".join(chr(c) for c in cps).encode("utf-8")
        cs.append({"k": "utf8ok", "x": hx(good)})
        for _ in range(2):
            cs.append({"k": "utf8ok", "x": hx(mutate(rng, good, b"\x80\xbf\xc0\xc1\xc2\xdf\xe0\xed\xef\xf0\xf4\xf5\xa0\x9f\x90\x8f"))})
        cs.append({"k": "utf8ok", "x": hx(bytes(rng.choice(b"\x41\x80\xbf\xc0\xc2\xe0\xa0\x9f\xed\xf0\x90\x8f\xf4\xf5\xff") for _ in range(rng.randrange(1, 6))))})
    return cs


def gen_pyint(rng, n):
    alpha = b"  \t\n\r\x0b\x0c+-__00123456789a\x00\x1c"
    return [{"k": "pyint", "x": hx(bytes(rng.choice(alpha) for _ in range(rng.randrange(0, 7))))} for _ in range(n)]


def rand_int(rng):
    return rng.choice([0, 1, 9, 10, 99, 100, 2 ** 32 - 1, 2 ** 32, 2 ** 64, rng.randrange(0, 10 ** 6), rng.randrange(0, 2 ** 70)])


def gen_ueb(rng, n):
    cs = []
    for _ in range(n):
        keys = rng.sample(UEB_KEYS, rng.randrange(0, len(UEB_KEYS) + 1))
        for _ in range(rng.choice([0, 0, 1, 2])):
            keys.append("".join(rng.choice("abzAZ_-") for _ in range(rng.randrange(1, 6))))
        keys = list(dict.fromkeys(keys))
        rng.shuffle(keys)
        d = []
        for k in keys:
            if k in INTKEYS:
                v = rand_int(rng)
                if rng.random() < 0.05:
                    v = -v
                d.append([hx(k.encode()), "i", v])
            else:
                b = rng.choice([rand_bytes(rng, rng.choice([0, 1, 9, 10, 32])), b"3:abc,", b"a:b,c", b"crs", b"131072-3-10"])
                d.append([hx(k.encode()), "b", hx(b)])
        r = rng.random()
        if r < 0.08 and d:      # a key outside the documented pattern / of the wrong value type
            i = rng.randrange(len(d))
            d[i][0] = hx(rng.choice([b"a b", b"k:", b"size\n", b"k\n\n", b"\xc3\xa9", b"k1"]))
        elif r < 0.12 and d:
            i = rng.randrange(len(d))
            if d[i][1] == "b":
                d[i] = [d[i][0], "i", rand_int(rng)]
        if not any(unhx(e[0]) == b"" for e in d):
            cs.append({"k": "uebpack", "d": d})
        # build the canonical packing ourselves (sorted keys) for the decoder cases
        ents = {}
        for kk, t, v in d:
            kb = unhx(kk)
            if b":" in kb:
                continue
            vb = (b"%d" % v) if t == "i" else unhx(v)
            ents[kb] = vb
        order = sorted(ents)
        packed = b"".join(k + b":%d:%s," % (len(ents[k]), ents[k]) for k in order)
        cs.append({"k": "uebunpack", "x": hx(packed)})
        for _ in range(3):
            r = rng.random()
            if not order:
                m = mutate(rng, packed)
            elif r < 0.3:    # lenient length
                k0 = rng.choice(order)
                m = b"".join(k + b":" + (lenient_forms(rng, len(ents[k])) if k == k0 else b"%d" % len(ents[k])) + b":" + ents[k] + b","
                             for k in order)
            elif r < 0.45:   # lenient integer value
                ik = [k for k in order if k.decode("utf-8", "replace") in INTKEYS]
                if ik:
                    k0 = rng.choice(ik)
                    e2 = dict(ents)
                    e2[k0] = lenient_forms(rng, int(ents[k0]) if not ents[k0].startswith(b"-") else 7)
                    m = b"".join(k + b":%d:%s," % (len(e2[k]), e2[k]) for k in order)
                else:
                    m = mutate(rng, packed)
            elif r < 0.55:   # duplicate key
                k0 = rng.choice(order)
                extra = k0 + b":%d:%s," % (len(ents[k0]) + 1, ents[k0] + b"x")
                m = packed + extra if rng.random() < 0.5 else extra + packed
            elif r < 0.65:   # unsorted
                o2 = list(order)
                rng.shuffle(o2)
                m = b"".join(k + b":%d:%s," % (len(ents[k]), ents[k]) for k in o2)
            elif r < 0.7:    # negative length tricks
                m = packed + b"k:-%d:XY,:0:," % rng.choice([1, 2, 5, 6, 20])
            elif r < 0.78:   # trailing bytes without ':' after the last entry / cut inside a key name
                if rng.random() < 0.5:
                    m = packed + rng.choice([b"x", b"\x00", b",", b"size", b"tail_codec_pa", bytes([rng.randrange(256)])]).replace(b":", b";")
                else:
                    k0 = rng.choice(order)
                    m = packed + k0[:rng.randrange(0, len(k0) + 1)]
            else:
                m = mutate(rng, packed, b"0123456789:,")
            cs.append({"k": "uebunpack", "x": hx(m)})
    return cs


def gen_lease_cycles(rng, n):
    """renewal chains on lease records (pure serializers) and through the real containers"""
    cs = []
    for i in range(n):
        r_, c_ = rand_bytes(rng, 32), rand_bytes(rng, 32)
        if rng.random() < 0.1:
            c_ = r_
        nid = rand_bytes(rng, 20)
        o = rng.choice([1, 1, 2, 2 ** 32 - 1, rng.randrange(1, 2 ** 32)])
        e = rng.choice([0, 1, 2 ** 31, rng.randrange(2 ** 32 - 10), rng.randrange(10 ** 9, 2 * 10 ** 9)])
        k = rng.choice([1, 1, 2, 3])
        renews = [rng.choice([e + j + 1, rng.randrange(2 ** 32), 2 ** 32 - 1, 0]) for j in range(k)]
        if rng.random() < 0.06:
            renews[rng.randrange(k)] = rng.choice([2 ** 32, -1])       # the encoder refuses it
        fmt = ["imm", "mut"][i % 2]
        ser = ["v1", "v2", "v2"][i % 3]
        c = {"k": "leasecycle", "fmt": fmt, "ser": ser, "o": o, "r": hx(r_), "c": hx(c_), "e": e,
             "n": hx(nid), "renews": renews}
        if rng.random() < 0.3:
            c["pre"] = True
            c["e0"] = rng.randrange(2 ** 32)
        cs.append(c)
        if i % 3 == 0:
            up = sorted(rng.sample(range(e + 1, e + 1000), rng.choice([2, 2, 3])))
            if rng.random() < 0.3:
                up.insert(1, e)      # not later than the current expiry: renew_lease leaves the record alone
            if up[-1] < 2 ** 32:
                cs.append({"k": "leasecontainer", "fmt": fmt, "v": rng.choice([1, 2, 2]), "o": o, "r": hx(r_), "c": hx(c_),
                           "e": e, "n": hx(nid), "renews": up, "data": hx(rand_bytes(rng, rng.choice([0, 1, 17])))})
    return cs


FORMATS = [">L", ">Q", ">H", ">B", ">LLL", ">L32s32sL", ">LL32s32s20s", ">32s20s32sQQ", ">BQ32s16s", ">H3sB", ">2L", ">0s", ">LI"]


def fields_of(fmt):
    out = []
    for cnt, ch in re.findall(r"(\d*)([a-zA-Z])", fmt[1:]):
        if ch == "s":
            out.append(("s", int(cnt) if cnt else 1))
        else:
            out += [("u", {"B": 1, "H": 2, "L": 4, "I": 4, "Q": 8}[ch])] * (int(cnt) if cnt else 1)
    return out


def gen_struct(rng, n):
    cs = [{"k": "scalc", "fmt": f} for f in FORMATS]
    for _ in range(n):
        fmt = rng.choice(FORMATS)
        vals = []
        for t, w in fields_of(fmt):
            if t == "u":
                vals.append(["i", rng.choice([0, 1, 256 ** w - 1, 256 ** w - 1, 256 ** w, -1, rng.randrange(256 ** w), rng.randrange(256 ** w)])])
            else:
                vals.append(["b", hx(rand_bytes(rng, rng.choice([w, w, w, w, max(0, w - 1), w + 1, 0])))])
        if rng.random() < 0.05:
            vals = vals[:-1] if rng.random() < 0.5 else vals + [["i", 1]]
        cs.append({"k": "spack", "fmt": fmt, "vals": vals})
        size = struct.calcsize(fmt)
        x = rand_bytes(rng, size)
        if rng.random() < 0.3:
            x = mutate(rng, x)
        cs.append({"k": "sunpack", "fmt": fmt, "x": hx(x)})
    return cs


def gen_records(rng, n):
    cs = []
    for _ in range(n):
        o = rng.choice([0, 1, 1, 2 ** 32 - 1, 2 ** 32, -1, rng.randrange(2 ** 32)])
        e = rng.choice([0, 1, 2 ** 31, 2 ** 32 - 1, 2 ** 32, -1, rng.randrange(2 ** 32), rng.randrange(2 ** 32)])
        ln = rng.choice([32, 32, 32, 32, 32, 32, 31, 33, 0])
        r_, c_ = rand_bytes(rng, ln), rand_bytes(rng, rng.choice([32, 32, 32, ln]))
        nid = rand_bytes(rng, 20)
        ser = rng.choice(["raw", "v1", "v2"])
        cs.append({"k": "leaseimm", "o": o, "r": hx(r_), "c": hx(c_), "e": e, "n": rng.choice([None, hx(nid)]), "ser": ser})
        cs.append({"k": "leasemut", "o": o, "r": hx(r_), "c": hx(c_), "e": e, "n": hx(nid) if rng.random() < 0.95 else None, "ser": ser})
        for kind, size in (("unleaseimm", 72), ("unleasemut", 92)):
            x = rand_bytes(rng, size)
            if rng.random() < 0.4:
                x = mutate(rng, x)
            cs.append({"k": kind, "x": hx(x), "ser": rng.choice(["raw", "v1", "v2"])})
        # immutable header
        m = rng.choice([0, 1, 2 ** 32 - 2, 2 ** 32 - 1, 2 ** 32, 2 ** 32 + 1, 2 ** 40, rng.randrange(2 ** 33), rng.randrange(2 ** 20)])
        if rng.random() < 0.5:
            cs.append({"k": "immhdr", "v": rng.choice([1, 2]), "m": m, "real": True})
        else:
            cs.append({"k": "immhdr", "v": rng.choice([0, 1, 2, 3, 2 ** 32 - 1, 2 ** 32, -1]), "m": rng.choice([m, m, -1])})
        hdr = struct.pack(">LLL", rng.choice([1, 2, 2, 2, 0, 3, 2 ** 32 - 1]), rng.randrange(2 ** 32), rng.choice([0, 0, 1, 2, 3]))
        body = rand_bytes(rng, rng.choice([0, 0, 10, 72, 144, 200]))
        x = hdr + body
        if rng.random() < 0.3:
            x = mutate(rng, hdr) + body if rng.random() < 0.5 else x[:rng.randrange(0, 13)]
        cs.append({"k": "rdimmhdr", "x": hx(x)})
        cs.append({"k": "immvalid", "x": hx(x[:rng.choice([0, 3, 4, 12, len(x)])])})
        # mutable header
        wl = rng.choice([32, 32, 32, 32, 31, 33])
        nl = rng.choice([20, 20, 20, 20, 19, 21])
        v = rng.choice([1, 2])
        w_, n_ = rand_bytes(rng, wl), rand_bytes(rng, nl)
        cs.append({"k": "muthdr", "v": v, "n": hx(n_), "w": hx(w_)})
        from allmydata.storage import mutable_schema
        good = mutable_schema._header(mutable_schema._magic(v), rng.choice([468, 468, 468, 100, 472, 0, 2 ** 40]),
                                      rand_bytes(rng, 20), rand_bytes(rng, 32))
        good = good[:84] + struct.pack(">Q", rng.choice([0, 0, 5, 2 ** 63])) + good[92:]
        r = rng.random()
        if r < 0.4:
            x = good
        elif r < 0.6:
            x = good[:rng.choice([0, 31, 32, 84, 92, 99, 100, 467, 468, 471])]
        elif r < 0.8:
            i = rng.choice([rng.randrange(0, 40), rng.randrange(27, 32), rng.randrange(25, 32)])
            x = good[:i] + bytes([good[i] ^ (1 << rng.randrange(8))]) + good[i + 1:]
        else:
            x = mutate(rng, good)
        cs.append({"k": "rdmuthdr", "x": hx(x)})
    return cs


# ------------------------------------------------------------------------------------------ run

def evaluate(ctx, impl, cases):
    outs = []
    for c in cases:
        try:
            out = getattr(impl, c["k"])(c)
        except Exception as e:   # an exception class the model does not know: shows up as a disagreement
            out = "EXC:%s:%s" % (type(e).__name__, str(e)[:80])
        outs.append(out)
        x = c.get("x")
        key = None
        if x is None:
            key = (c["k"], repr(sorted((k, repr(v)) for k, v in c.items())))
        elif x != "-":
            key = (c["k"], x, c.get("n"), c.get("pos"), c.get("tr"), c.get("bits"), c.get("fmt"), c.get("ser"))
        ctx.case(key)
        ctx.count("op:" + c["k"])
        ctx.count("out:%s:%s" % (c["k"], out.split(" ")[0].split(":")[0] if out[:2] in ("ok", "er", "EX") else "value"))
    return outs


def run(ctx):
    impl = Impl(ctx)
    try:
        if ctx.replay:
            cases = [ctx.replay["case"]]
        else:
            rng = ctx.rng
            cases = list(CORPUS) + mutable_header_corpus()   # fixed corpus first, independent of the seed
        if not ctx.replay and not os.environ.get("VERIF_CORPUS_ONLY"):
            cases += gen_base32(rng, ctx.budget(150, 6000))
            cases += gen_base62(rng, ctx.budget(120, 4000))
            cases += gen_netstring(rng, ctx.budget(200, 8000))
            cases += gen_pyint(rng, ctx.budget(300, 20000))
            cases += gen_utf8(rng, ctx.budget(150, 8000))
            cases += gen_ueb(rng, ctx.budget(150, 6000))
            cases += gen_struct(rng, ctx.budget(200, 8000))
            cases += gen_records(rng, ctx.budget(100, 3000))
            cases += gen_lease_cycles(rng, ctx.budget(150, 4000))
        impl_outs = evaluate(ctx, impl, cases)
        model_s = ctx.model([line_of(c, "s") for c in cases])
        ctx.compare("encoder/decoder output (value or exception kind), real code vs Lean model", cases, impl_outs, model_s)
        # the decoders that have a lenient variant in the model (`p`: Python int(), unchecked alphabet, s8 table as it is):
        # when the implementation differs from the strict model, say whether it is exactly the lenient model
        modal = [i for i, c in enumerate(cases) if c["k"] in MODAL]
        model_p = ctx.model([line_of(cases[i], "p") for i in modal])
        if model_s is not None and model_p is not None:
            n_p = n_neither = 0
            for j, i in enumerate(modal):
                if impl_outs[i] != model_s[i]:
                    if impl_outs[i] == model_p[j]:
                        n_p += 1
                    else:
                        n_neither += 1
            if n_p or n_neither:
                ctx.note("decoder cases where the implementation differs from the checked (strict) model: %d equal the pre-repair (as-is) "
                         "model, %d equal neither" % (n_p, n_neither))
            ctx.count("lenient-model-agreement", n_p)
        for c, o in list(zip(cases, impl_outs))[:400:57]:
            ctx.sample({"case": c, "impl": o[:160]})
    finally:
        impl.cleanup()
