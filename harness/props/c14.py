"""C14 — mutable check and repair preserve the newest content (mutable/checker.py, repairer.py)."""
ID = "C14"
LEAN_PROPS = "Tahoe.Props.C14"
DRIVER = "C14"
GENERATED = []
SOURCES = ["src/allmydata/mutable/checker.py", "src/allmydata/mutable/repairer.py",
           "src/allmydata/mutable/servermap.py", "src/allmydata/mutable/publish.py"]
DESIGN_REF = "DESIGN.md §2 C14"
TECHNIQUE = ("Lean 4 theorems over executable models of MutableChecker._make_checker_results/_count_shares/"
             "_got_mapupdate_results (incl. the verifier's mark_bad_share calls), Repairer._got_full_servermap and "
             "MutableFileNode._get_version_from_servermap on top of the ServerMap model (C11); differential correspondence "
             "of seeded servermaps through the real MutableChecker methods, the real Repairer._got_full_servermap (±force, "
             "±writekey) and the real _get_version_from_servermap; grid scenario families (damage, grids shaped by servers "
             "going offline, the grid changing between check and repair, damaged key fields, a corrupt and an intact share "
             "on one server), a fixed corpus first; implementation-side monitors from the statement against the share "
             "files on disk")
LEVEL_TEXT = ("Proved in Lean for all servermaps: healthy_iff and healthy_with_verify_iff (healthy <-> among the shares the "
              "verifier did not mark bad exactly one version, with >= k and >= N distinct share numbers), "
              "repair_refuses_newer_unrecoverable, repair_refuses_merge, repair_republishes_best (best version, seqnum above "
              "the whole map), download_version_exact and repair_uploads_best_or_nothing (what is downloaded is the chosen "
              "version or the repair fails). Tied to checker.py / repairer.py / filenode.py at function level and on grid "
              "scenarios.")
LEVEL_NOTE = ("Lean kernel + standard axioms; hand-transcribed decision functions tied by correspondence; that a republish in "
              "which no request fails stores all N share numbers is C47's fault_free_publish_stores_all; WHICH shares the "
              "verifier marks bad is C10's hash checking plus the field checks repaired in /repo (93bab9f encrypted private "
              "key, 5d94ff9 verification key) — monitored on the grid, not proved; byte-level equality of download and "
              "upload is monitored only")
RULE = ("fixed corpus first (VERIF_CORPUS_ONLY=1 runs only it), one scenario per seeded change / repaired defect; then "
        "(a)/(b) seeded servermaps as in C11 through check, check after verifier marks, repair (every force/writekey "
        "combination) and get-version — non-trivial = >= 2 versions present; (c) grid scenarios: k 1..3, N <= 8, 2..10 "
        "servers, SDMF and MDMF, 1..4 versions, then damage (deleted shares, stale shares, a competing version with an "
        "equal seqnum, a flipped byte in block data / block-hash-tree root / signed prefix, servers down), check (±verify), "
        "repair (±force), final check + download; (d) versions written while stretches of the permuted server list are "
        "offline (stale head), then check / repair / check_and_repair and download_version of every version; (e) check, "
        "then a server leaves / a share disappears / the server returns, then repair (for check_and_repair at the boundary "
        "of its halves); (f) a flipped byte in one share's encrypted private key or verification key, check(verify) and "
        "check_and_repair(verify); (g) several shares per server, the only share of the newest version next to a share "
        "with an invalid signature, both listing orders — one case per check and per repair")
TRUSTED = ["lean/Tahoe/Mutable/CheckRepair.lean is a hand transcription of the checker/repairer/get-version decision logic",
           "harness/grid.py; ground truth = share files on the servers that are present, read through "
           "allmydata.storage.mutable.MutableShareFile and the layout header structs"]
ASSUMPTIONS = ["health is judged against the servers that answer (MODE_CHECK asks every server); shares on servers that "
               "are down are invisible to the checker and to the monitor alike",
               "without verify a share whose block data is damaged but whose header is intact counts as a share of its "
               "version (the checker does not read it): where this makes the difference the monitor accepts both answers",
               "list(unrecoverable)[0] in _make_checker_results is an arbitrary set element: the counters of a file with "
               "no recoverable version and several unrecoverable ones are not compared",
               "a server that fails DURING the repair's own publish is outside the statement's quantifier (Publish does not "
               "re-place the share of a failed request: such a repair succeeds with N-1 shares); observed, not flagged",
               "with two damaged shares the verifier lists only the first it meets (health is still False): observed, not "
               "demanded by the statement"]

import json
import os
import struct

from props import _mutable_common as mc
from props import c11


# ----------------------------------------------------------------------------- (a) checker, (b) repairer on seeded maps

class FakeNode:
    def __init__(self, writekey=True):
        from allmydata import uri
        self._uri = uri.WriteableSSKFileURI(b"w" * 16, b"f" * 32).to_string()
        self.writekey = b"w" * 16 if writekey else None
        self.calls = []

    def get_uri(self):
        return self._uri

    def get_storage_index(self):
        return b"s" * 16

    def get_writekey(self):
        return self.writekey

    def download_version(self, smap, version, fetch_privkey=False):
        from twisted.internet import defer
        self.calls.append(("download", version))
        return defer.succeed(b"contents")

    def upload(self, data, smap):
        self.calls.append(("upload", smap.highest_seqnum() + 1))
        return None


def impl_check(sm):
    from allmydata.mutable.checker import MutableChecker
    from allmydata.monitor import Monitor
    # the real constructor: whatever internal attributes the class keeps exist in the shape it gives them
    ch = MutableChecker(FakeNode(), None, None, Monitor())
    ch._got_mapupdate_results(sm)
    cr = ch._make_checker_results(sm)
    return check_string(cr, ch.need_repair)


def impl_check_results(sm):
    from allmydata.mutable.checker import MutableChecker
    from allmydata.monitor import Monitor
    ch = MutableChecker(FakeNode(), None, None, Monitor())
    return ch._make_checker_results(sm)


def check_string(cr, need_repair):
    nrec, nun = cr.get_version_counter_recoverable(), cr.get_version_counter_unrecoverable()
    counters = "%d/%d/%d/%d/%d" % (cr.get_share_counter_good(), cr.get_encoding_needed(), cr.get_encoding_expected(),
                                   cr.get_host_counter_good_shares(), cr.get_share_counter_wrong())
    if nrec == 0 and nun > 1:
        counters = "*"
    return "%s;%s;%s;%s;%d;%d" % ("T" if cr.is_healthy() else "F", "T" if cr.is_recoverable() else "F",
                                  "T" if need_repair else "F", counters, nrec, nun)


def canon_model_check(out):
    f = out.split(";")
    if len(f) == 6 and f[4] == "0" and int(f[5]) > 1:
        f[3] = "*"
    return ";".join(f)


def impl_repair(sm, vers, force, writekey):
    from allmydata.mutable.repairer import Repairer, MustForceRepairError, RepairRequiresWritecapError
    node = FakeNode(writekey)
    try:
        r = Repairer(node, impl_check_results(sm), None, None, None)
    except Exception:
        r = Repairer.__new__(Repairer)
    r.node = node
    try:
        d = r._got_full_servermap(sm, force)
    except MustForceRepairError as e:
        return "MustForceRepairError:" + ("newer" if "newer" in str(e) else "merge")
    except RepairRequiresWritecapError:
        return "RepairRequiresWritecapError"
    box = []
    d.addBoth(box.append)
    rr = box[0]
    if not r.node.calls:
        return "unrepairable" if not rr.get_successful() else "successful-without-publish"
    (_d, version), (_u, seq) = r.node.calls
    return "republish:%d:%d" % (vers.index(version), seq)


def impl_getver(sm, vers, want):
    """the real MutableFileNode._get_version_from_servermap on a map made in the requested mode (so no new survey)"""
    from twisted.python.failure import Failure
    from allmydata.mutable.filenode import MutableFileNode
    from allmydata.mutable.common import MODE_READ
    node = MutableFileNode.__new__(MutableFileNode)
    sm.set_last_update(MODE_READ, 0)
    box = []
    node._get_version_from_servermap(MODE_READ, sm, want).addBoth(box.append)
    r = box[0]
    if isinstance(r, Failure):
        return type(r.value).__name__
    return str(vers.index(r[1]))


def ref_health(known):
    """the statement: a single recoverable version with N distinct shares and no other versions"""
    by = mc.ref_distinct(known)
    if len(by) != 1:
        return False
    (v, shs), = by.items()
    return len(shs) >= v[5] and len(shs) >= v[6]


def monitor_repair_decision(ctx, known, force, out, case, where):
    rec = mc.ref_recoverable(known)
    unrec = set(known.values()) - rec
    top = max([v[0] for v in rec], default=-1)
    newer = any(v[0] > top for v in unrec)
    seqs = [v[0] for v in rec]
    merge = len(seqs) != len(set(seqs))
    if not force and rec and newer and out.startswith("republish"):
        ctx.violation("repair(force=False) proceeds although an unrecoverable version newer than every recoverable one "
                      "is visible", case, "repair-discards-newer-unrecoverable-" + where)
    if not force and merge and out.startswith("republish"):
        ctx.violation("repair(force=False) picks between recoverable versions with equal seqnum", case,
                      "repair-picks-among-equal-seqnums-" + where)
    if out.startswith("republish"):
        best = max(rec, key=lambda v: (v[0], v[1]))
        return best
    return None


def run_function_level(ctx, cases):
    servers = [mc.FakeServer(i) for i in range(16)]
    clines, cimpl, ccases, rlines, rimpl, rcases = [], [], [], [], [], []
    for (vers, ops) in cases:
        sm = c11.build_smap(vers, ops, servers)
        toks = "%s %s" % (mc.vtable(vers), " ".join(c11.op_tokens(ops)))
        jc = {"vers": [mc.enc_ver(v) for v in vers], "ops": [list(o) for o in ops]}
        known = c11.ref_known(vers, ops)
        nv = len(set(known.values()))
        try:
            out = impl_check(sm)
        except Exception:
            import traceback
            out = "harness-exception"
            ctx.disagree("the real MutableChecker raised on this servermap", dict(jc, kind="check"),
                         traceback.format_exc()[-800:], None)
            ctx.count("check-harness-exception")
            continue
        clines.append("check " + toks)
        cimpl.append(out)
        ccases.append(dict(jc, kind="check"))
        if (out[0] == "T") != ref_health(known):
            ctx.violation("checker says healthy=%s; the map holds %d version(s)" % (out[0], nv), dict(jc, kind="check"),
                          "healthy-" + ("false-positive" if out[0] == "T" else "false-negative") + "-function")
        ctx.case(("check", toks) if nv >= 2 else None)
        ctx.count("check-healthy:" + out[0])
        for force in (False, True):
            for wk in ((True, False) if len(rlines) % 5 == 0 else (True,)):
                try:
                    o = impl_repair(sm, vers, force, wk)
                except Exception as e:
                    o = "harness-exception:" + type(e).__name__
                    ctx.count("repair-harness-exception")
                rlines.append("repair %s %s %s" % ("T" if force else "F", "T" if wk else "F", toks))
                rimpl.append(o)
                rc = dict(jc, kind="repair", force=force, wk=wk)
                rcases.append(rc)
                best = monitor_repair_decision(ctx, known, force, o, rc, "function")
                if best is not None:
                    f = o.split(":")
                    if vers[int(f[1])][:2] != best[:2] or vers[int(f[1])] not in mc.ref_recoverable(known):
                        ctx.violation("repair republishes a version that is not the best recoverable one", rc,
                                      "repair-republishes-non-best-function")
                    if any(v[0] >= int(f[2]) for v in known.values()):
                        ctx.violation("repair republishes under a seqnum not above every share in the map", rc,
                                      "repair-seqnum-not-above-map-function")
                ctx.case(("repair", rlines[-1]) if nv >= 2 else None)
                ctx.count("repair-decision:" + o.split(":")[0] + (":" + o.split(":")[1] if o.startswith("Must") else ""))
    # _get_version_from_servermap: every version of the table (located or not) and "no particular version"
    glines, gimpl, gcases = [], [], []
    for (vers, ops) in cases:
        sm = c11.build_smap(vers, ops, servers)
        toks = "%s %s" % (mc.vtable(vers), " ".join(c11.op_tokens(ops)))
        known = c11.ref_known(vers, ops)
        rec = mc.ref_recoverable(known)
        for want in [None] + list(range(len(vers)))[:3]:
            gc = {"kind": "getver", "vers": [mc.enc_ver(v) for v in vers], "ops": [list(o) for o in ops], "want": want}
            try:
                o = impl_getver(sm, vers, None if want is None else vers[want])
            except Exception as e:
                o = "harness-exception:" + type(e).__name__
            glines.append("getver %s %s" % ("N" if want is None else want, toks))
            gimpl.append(o)
            gcases.append(gc)
            ctx.case(("getver", glines[-1]) if len(set(known.values())) >= 2 else None)
            ctx.count("getver-%s:%s" % ("best" if want is None else ("recoverable" if vers[want] in rec else "unrecoverable"),
                                        "error" if o.endswith("Error") else "version"))
            if want is not None and o.isdigit() and int(o) != want:
                ctx.violation("a request for one version was answered with another version", gc,
                              "get-version-returned-other-version-function")
            if want is not None and vers[want] not in rec and o.isdigit():
                ctx.violation("a version the servermap cannot recover was handed out", gc,
                              "get-version-unrecoverable-function")
    # verify: the verifier's mark_bad_share calls, then _make_checker_results on the same map
    vlines, vimpl, vcases = [], [], []
    for n_, (vers, ops) in enumerate(cases):
        known = c11.ref_known(vers, ops)
        keys = sorted(known)
        if not keys:
            continue
        marks = [keys[(7 * n_) % len(keys)]] + ([keys[(3 * n_ + 1) % len(keys)]] if n_ % 3 == 0 else [])
        marks = sorted(set(marks))
        sm = c11.build_smap(vers, ops, servers)
        for (srv_, sh_) in marks:
            sm.mark_bad_share(servers[srv_], sh_, b"\x00")
        try:
            o = impl_check(sm)
        except Exception as e:
            o = "harness-exception:" + type(e).__name__
        vlines.append("checkv %s %s %s" % (",".join("%d.%d" % m for m in marks), mc.vtable(vers), " ".join(c11.op_tokens(ops))))
        vimpl.append(o)
        vc = {"kind": "check", "vers": [mc.enc_ver(v) for v in vers], "ops": [list(o_) for o_ in ops], "marks": marks}
        vcases.append(vc)
        left = {key: v for key, v in known.items() if key not in marks}
        if (o[0] == "T") != ref_health(left):
            ctx.violation("after the verifier's marks the checker says healthy=%s; the unmarked shares hold %d version(s)" % (
                o[0], len(set(left.values()))), vc, "healthy-after-verify-marks-function")
        ctx.case(("checkv", vlines[-1]) if len(set(known.values())) >= 2 else None)
    vm = ctx.model(vlines)
    if vm is not None:
        ctx.compare("_make_checker_results after the verifier's mark_bad_share calls (afterVerify)", vcases, vimpl,
                    [canon_model_check(m) for m in vm])
    gm = ctx.model(glines)
    if gm is not None:
        ctx.compare("MutableFileNode._get_version_from_servermap (requested version / best / UnrecoverableFileError)",
                    gcases, gimpl, gm)
    model = ctx.model(clines + rlines)
    if model is not None:
        ctx.compare("MutableChecker._got_mapupdate_results/_make_checker_results/_count_shares (healthy, recoverable, "
                    "need_repair, counters)", ccases, cimpl, [canon_model_check(m) for m in model[:len(clines)]])
        ctx.compare("Repairer._got_full_servermap (refusals, version republished, new seqnum)", rcases, rimpl,
                    model[len(clines):])
    if clines:
        ctx.sample({"check": clines[-1][:300], "impl": cimpl[-1]})
        ctx.sample({"repair": rlines[-1][:300], "impl": rimpl[-1]})


# ----------------------------------------------------------------------------- (c) grid scenarios

def gen_scenario(rng):
    k = rng.randrange(1, 4)
    n = rng.randrange(k, 9)
    S = rng.randrange(2, 11)
    fmt = rng.choice("sm")
    nver = rng.randrange(1, 5)
    damage = []
    hidden = rng.random() < 0.25
    if hidden:
        # damage that the servermap update cannot see (block data / block-hash-tree root): only verify finds it
        for _ in range(rng.randrange(1, 3)):
            damage.append((rng.choice(["flip-data", "flip-hash"]), rng.randrange(n), rng.randrange(1 << 16)))
    for _ in range(0 if hidden else rng.randrange(0, 4)):
        r = rng.random()
        if r < 0.30:
            damage.append(("del", sorted(rng.sample(range(n), rng.randrange(1, n + 1)))))
        elif r < 0.55:
            damage.append(("stale", rng.randrange(0, nver), sorted(rng.sample(range(S), rng.randrange(1, S + 1)))))
        elif r < 0.70:
            damage.append(("fork", sorted(rng.sample(range(S), rng.randrange(1, S + 1)))))
        elif r < 0.85:
            damage.append(("flip-data", rng.randrange(n), rng.randrange(1 << 16)))
        elif r < 0.93:
            damage.append(("flip-prefix", rng.randrange(n), rng.randrange(1, 41)))
        else:
            damage.append(("down", sorted(rng.sample(range(S), rng.randrange(1, min(S, 3) + 1)))))
    return {"k": k, "n": n, "servers": S, "fmt": fmt, "sched": rng.randrange(1 << 30),
            "policy": rng.choice(["random", "random", "fifo"]),
            "contents": [rng.randbytes(rng.choice([6, 20, 33])).hex() for _ in range(nver)],
            "damage": damage, "verify": True if hidden else rng.random() < 0.5, "force": rng.random() < 0.4}


def data_region(path):
    """(container offset of the share body, [start, end) of the block data inside the share)"""
    from allmydata.storage.mutable import MutableShareFile
    m = MutableShareFile(path)
    hdr = m.readv([(0, 200)])[0]
    if hdr[0] == 0:
        (_v, _seq, _rh, _iv, _k, _n, _seg, _dl, o_sig, o_shc, o_bht, o_data, o_priv, o_eof) = \
            struct.unpack(">BQ32s16s BBQQ LLLLQQ", hdr[:struct.calcsize(">BQ32s16s BBQQ LLLLQQ")])
        return m.DATA_OFFSET, o_data, o_priv, o_bht
    fmt = ">BQ32sBBQQ QQQQQQQQ"
    f = struct.unpack(fmt, hdr[:struct.calcsize(fmt)])
    o_data, o_bht = f[12], f[13]
    return m.DATA_OFFSET, o_data, o_bht, o_bht


def flip(path, off):
    with open(path, "r+b") as f:
        f.seek(off)
        b = f.read(1)
        if not b:
            return False
        f.seek(off)
        f.write(bytes([b[0] ^ 0x01]))
    return True


def run_scenario(ctx, sc, acc):
    import grid
    from twisted.python.failure import Failure
    from allmydata.mutable import publish
    from allmydata.mutable.publish import MutableData
    from allmydata.mutable.repairer import MustForceRepairError
    from allmydata.interfaces import SDMF_VERSION, MDMF_VERSION
    from allmydata.monitor import Monitor
    case = {"kind": "scenario", "sc": sc}
    saved_seg = publish.DEFAULT_MUTABLE_MAX_SEGMENT_SIZE
    publish.DEFAULT_MUTABLE_MAX_SEGMENT_SIZE = 16
    try:
        with grid.Runtime(seed=sc["sched"], policy=sc["policy"]) as rt:
            g = mc.make_grid("c14", rt, sc["servers"], 2, sc["k"], sc["n"])
            sidx = mc.server_number(g)
            try:
                c = g.clients[0]
                contents = [bytes.fromhex(x) for x in sc["contents"]]
                node = rt.wait(c.create_mutable_file(MutableData(contents[0]),
                                                     version=MDMF_VERSION if sc["fmt"] == "m" else SDMF_VERSION,
                                                     unique_keypair=mc.keypair()))
                si = node.get_storage_index()
                registry = {}                       # (seq, roothash) -> contents

                def note_version(data):
                    for cs in mc.disk_state(g, si).values():
                        if cs and cs[0] != "?" and (cs[1], cs[2]) not in registry:
                            registry[(cs[1], cs[2])] = data
                snaps = [None]
                note_version(contents[0])
                for data in contents[1:]:
                    snaps.append(mc.snapshot_files(g, si))
                    rt.wait(node.overwrite(MutableData(data)))
                    note_version(data)
                corrupt_data, corrupt_prefix, down = set(), set(), set()
                flipped = {}
                for d in sc["damage"]:
                    ctx.count("grid-damage:" + d[0])
                    if d[0] == "del":
                        for (i, sh, p) in g.share_files(si):
                            if sh in d[1]:
                                os.unlink(p)
                                corrupt_data.discard((i, sh)); corrupt_prefix.discard((i, sh)); flipped.pop((i, sh), None)
                    elif d[0] == "stale":
                        snap = snaps[min(d[1], len(snaps) - 1)]
                        if snap:
                            mc.restore_files(snap, [key for key in snap if key[0] in d[2]])
                            corrupt_data -= {key for key in snap if key[0] in d[2]}
                            corrupt_prefix -= {key for key in snap if key[0] in d[2]}
                            for key in snap:
                                if key[0] in d[2]:
                                    flipped.pop(key, None)
                    elif d[0] == "fork":
                        # a competing version with the seqnum of the current one: roll every share back to the
                        # previous version, publish again, then put the current version back on a server subset
                        if len(snaps) >= 2 and snaps[-1]:
                            cur = mc.snapshot_files(g, si)
                            for (i, sh, p) in g.share_files(si):
                                os.unlink(p)
                            mc.restore_files(snaps[-1])
                            alt = b"fork:" + contents[-1]
                            try:
                                rt.wait(node.overwrite(MutableData(alt)))
                                note_version(alt)
                            except Exception as e:
                                ctx.count("grid-fork-failed:" + mc.exc_name(e))
                            mc.restore_files(cur, [key for key in cur if key[0] in d[1]])
                            # only the files copied back from `cur` keep their damage
                            corrupt_data = {key for key in corrupt_data if key[0] in d[1] and key in cur}
                            corrupt_prefix = {key for key in corrupt_prefix if key[0] in d[1] and key in cur}
                            flipped = {key: v for key, v in flipped.items() if key[0] in d[1] and key in cur}
                    elif d[0] in ("flip-data", "flip-prefix", "flip-hash"):
                        files = [(i, sh, p) for (i, sh, p) in g.share_files(si) if sh == d[1]]
                        for (i, sh, p) in files[:1]:
                            base, lo, hi, bht = data_region(p)
                            if d[0] == "flip-hash":
                                # the root of the block hash tree (always needed: it is this share's leaf of the share
                                # hash tree)
                                off = base + bht + d[2] % 32
                                if flip(p, off):
                                    flipped.setdefault((i, sh), set()).symmetric_difference_update({off})
                            # flipping the same bit twice restores the share: track the flipped offsets
                            elif d[0] == "flip-data":
                                if hi > lo and flip(p, base + lo + d[2] % (hi - lo)):
                                    flipped.setdefault((i, sh), set()).symmetric_difference_update({base + lo + d[2] % (hi - lo)})
                            elif d[0] == "flip-prefix":
                                if flip(p, base + d[2]):          # inside seqnum / root hash of the signed prefix
                                    flipped.setdefault((i, sh), set()).symmetric_difference_update({base + d[2]})
                            offs = flipped.get((i, sh), set())
                            (corrupt_prefix.add if any(o < base + 41 for o in offs) else corrupt_prefix.discard)((i, sh))
                            (corrupt_data.add if any(o >= base + 41 for o in offs) else corrupt_data.discard)((i, sh))
                    elif d[0] == "down":
                        down |= set(d[1])
                for i in g.wrappers:
                    g.wrappers[i].broken = (i in down)

                def truth(count_data_corrupt):
                    """{(seq, roothash): set(shnums)} over servers that are up, from the files"""
                    by = {}
                    for (i, sh), cs in mc.disk_state(g, si).items():
                        if i in down or not cs or cs[0] == "?" or (i, sh) in corrupt_prefix:
                            continue
                        if (i, sh) in corrupt_data and not count_data_corrupt:
                            continue
                        by.setdefault((cs[1], cs[2]), set()).add(sh)
                    return by

                def healthy_of(by):
                    if len(by) != 1:
                        return False
                    (_key, shs), = by.items()
                    return len(shs) >= sc["k"] and len(shs) >= sc["n"]

                def do_check(verify, tag):
                    try:
                        cr = rt.wait(node.check(Monitor(), verify=verify))
                    except Exception as e:
                        ctx.count("grid-check-error:" + mc.exc_name(e))
                        return None
                    # a flipped prefix byte changes the checkstring: such a share shows up as another "version" on
                    # disk but is (rightly) rejected by the signature check; both views agree it is not a good share
                    want_strict, want_lenient = healthy_of(truth(False)), healthy_of(truth(True))
                    got = cr.is_healthy()
                    wants = {want_strict} if verify else {want_strict, want_lenient}
                    ctx.case(("gcheck", tag, verify, got, tuple(sorted((k2[0], len(v)) for k2, v in truth(True).items()))))
                    ctx.count("grid-check-%s-healthy:%s" % (tag, got))
                    if got not in wants:
                        ctx.violation("check(verify=%s) says healthy=%s; on the servers that are up: %r" % (
                            verify, got, sorted((k2[0], sorted(v)) for k2, v in truth(not verify).items())), case,
                            "healthy-%s-grid-%s%s" % ("false-positive" if got else "false-negative", tag,
                                                      "-verify" if verify else ""))
                    if verify and corrupt_data and not corrupt_prefix:
                        strict = truth(False)
                        recs = [key for key, shs in strict.items() if len(shs) >= sc["k"]]
                        if recs and cr.is_recoverable():
                            best = max(recs, key=lambda key: (key[0], key[1]))
                            ctx.count("grid-verify-with-hidden-corruption")
                            bad_in_best = len(truth(True).get(best, ())) > len(strict[best])
                            if bad_in_best and cr.get_share_counter_good() > len(strict[best]):
                                # observed on the unchanged tree: verify reports only the first corrupt share it meets
                                # (2 damaged shares -> 1 listed); health is still False, which is all the statement asks
                                ctx.count("grid-verify-missed-some-corrupt-shares(not in the statement)")
                            if bad_in_best and cr.get_share_counter_good() >= sc["n"]:
                                ctx.violation("check(verify=True) counts %d good shares (N=%d) although share(s) %r of the best "
                                              "version are corrupt on disk" % (cr.get_share_counter_good(), sc["n"],
                                                                               sorted(corrupt_data)), case,
                                              "verify-counts-corrupt-share-as-good-" + tag)
                    # correspondence: the servermap inside the results through the model
                    sm = cr.get_servermap()
                    vers = mc.versions_of(sm)
                    acc["lines"].append("check %s %s" % (mc.vtable(vers), " ".join(mc.smap_ops(sm, vers, sidx))))
                    acc["impl"].append(check_string(cr, None))
                    acc["cases"].append({"kind": "grid-check", "sc": sc, "tag": tag})
                    return cr

                cr = do_check(sc["verify"], "before")
                if cr is not None:
                    before = truth(True)
                    rec_before = {key: shs for key, shs in truth(False).items() if len(shs) >= sc["k"]}
                    disk_before = mc.disk_state(g, si)
                    try:
                        rr = rt.wait(node.repair(cr, force=sc["force"]))
                        outcome = "ok" if rr.get_successful() else "unsuccessful"
                    except MustForceRepairError as e:
                        outcome = "MustForce:" + ("newer" if "newer" in str(e) else "merge")
                    except Exception as e:
                        outcome = "error:" + mc.exc_name(e)
                    ctx.count("grid-repair:" + outcome)
                    ctx.case(("grepair", sc["force"], outcome, tuple(sorted((k2[0], len(v)) for k2, v in before.items()))))
                    vis = truth(False)                                  # after repair
                    top = max([key[0] for key in rec_before], default=-1)
                    newer_unrec = [key for key, shs in truth_before_unrec(before, rec_before) if key[0] > top]
                    seqs = [key[0] for key in rec_before]
                    merge = len(seqs) != len(set(seqs))
                    if outcome == "ok":
                        if not sc["force"] and rec_before and newer_unrec and not corrupt_data:
                            ctx.violation("repair(force=False) succeeded although version(s) %r were visible, unrecoverable and "
                                          "newer than every recoverable version" % sorted(k2[0] for k2 in newer_unrec), case,
                                          "repair-discards-newer-unrecoverable-grid")
                        if not sc["force"] and merge and not corrupt_data:
                            ctx.violation("repair(force=False) succeeded although two recoverable versions share a seqnum",
                                          case, "repair-picks-among-equal-seqnums-grid")
                        if rec_before and not corrupt_data and not corrupt_prefix:
                            best = max(rec_before, key=lambda key: (key[0], key[1]))
                            want = registry.get(best)
                            for i in g.wrappers:
                                g.wrappers[i].broken = (i in down)
                            try:
                                got = rt.wait(g.clients[1].create_node_from_uri(node.get_uri()).download_best_version())
                            except Exception as e:
                                got = "error:" + mc.exc_name(e)
                            if want is not None and got != want:
                                ctx.violation("after a successful repair the file reads %r, the best version before repair "
                                              "held %r" % (got[:24], want[:24]), case, "repair-changed-contents")
                            cr2 = do_check(False, "after")
                            newest = max(vis, key=lambda key: key[0]) if vis else None
                            up = [i for i in g.wrappers if i not in down]
                            if cr2 is not None and not cr2.is_healthy() and len(up) >= 1 and newest is not None:
                                ctx.count("grid-repair-ok-but-not-healthy-after")
                                if len(vis.get(newest, ())) < sc["n"] and not down:
                                    ctx.violation("repair reported success but the newest version has %d of %d distinct shares" % (
                                        len(vis.get(newest, ())), sc["n"]), case, "repair-success-without-N-shares")
                    elif outcome.startswith("MustForce"):
                        if sc["force"]:
                            ctx.violation("repair(force=True) raised MustForceRepairError", case, "forced-repair-refused")
                        if mc.disk_state(g, si) != disk_before:
                            ctx.violation("a refused repair modified shares", case, "refused-repair-wrote")
            finally:
                g.close()
    except grid.Stuck as e:
        ctx.count("grid-stuck")
    except Exception:
        import traceback
        ctx.disagree("grid scenario could not be driven to the end", case, traceback.format_exc()[-800:], None)
        ctx.count("grid-harness-exception")
    finally:
        publish.DEFAULT_MUTABLE_MAX_SEGMENT_SIZE = saved_seg



# ----------------------------------------------------------------------------- (d) grids shaped by servers going offline

def gen_offline(rng):
    """Versions written while different stretches of the file's permuted server list are offline (so that old
    shares stay behind on servers that later come back), then check / repair by a second client."""
    S = rng.randrange(5, 13)
    k = rng.randrange(1, 4)
    n = rng.randrange(k, min(6, S - 1) + 1)
    nver = rng.randrange(2, 5)
    offline = []
    stale_head = rng.random() < 0.6
    for j in range(nver):
        if stale_head and j == nver - 2:
            # the head servers are online for the older version ...
            a = rng.randrange(k, min(2 * k, S - 2) + 1)
            b = rng.randrange(a, min(S - 1, a + rng.randrange(0, S)) + 1)
            offline.append(list(range(a, b)))
        elif stale_head and j == nver - 1:
            # ... and offline when the newest version is written
            a = rng.randrange(max(1, k), min(S - 1, 2 * k + 1) + 1)
            offline.append(list(range(0, a)))
        elif rng.random() < 0.5:
            a = rng.randrange(0, S)
            offline.append(list(range(a, min(S - 1 + (1 if a else 0), a + rng.randrange(0, S)))))
        else:
            offline.append(sorted(rng.sample(range(S), rng.randrange(0, S - 1))))
    offline = [[x for x in o if x < S][:S - 1] for o in offline]
    return {"family": "offline", "servers": S, "k": k, "n": n, "fmt": rng.choice("sm"),
            "sched": rng.randrange(1 << 30), "policy": rng.choice(["fifo", "random", "random", "lifo"]),
            "contents": [(b"version %d " % j + rng.randbytes(rng.choice([4, 20, 40]))).hex() for j in range(nver)],
            "offline": offline, "how": rng.choice(["repair", "repair", "check_and_repair"]),
            "verify": rng.random() < 0.3, "force": rng.random() < 0.3}


def run_offline_scenario(ctx, sc):
    import grid
    from allmydata.mutable import publish
    from allmydata.mutable.publish import MutableData
    from allmydata.mutable.common import MODE_CHECK, MODE_READ, derive_mutable_keys
    from allmydata.mutable.retrieve import Retrieve
    from allmydata.mutable.repairer import MustForceRepairError
    from allmydata.interfaces import SDMF_VERSION, MDMF_VERSION
    from allmydata.monitor import Monitor
    from allmydata.uri import WriteableSSKFileURI
    from allmydata.util.consumer import MemoryConsumer
    case = {"kind": "scenario", "sc": sc}
    S, k, n = sc["servers"], sc["k"], sc["n"]
    saved_seg = publish.DEFAULT_MUTABLE_MAX_SEGMENT_SIZE
    publish.DEFAULT_MUTABLE_MAX_SEGMENT_SIZE = 16
    try:
        with grid.Runtime(seed=sc["sched"], policy=sc["policy"]) as rt:
            g = mc.make_grid("c14o", rt, S, 2, k, n)
            try:
                pub, priv = mc.keypair()
                writekey, _enc, fingerprint = derive_mutable_keys((pub, priv))
                si = WriteableSSKFileURI(writekey, fingerprint).storage_index
                num = {g.serverid(i): i for i in range(S)}
                perm = [num[srv.get_serverid()] for srv in g.broker.get_servers_for_psi(si)]
                writer = g.clients[0]
                contents = [bytes.fromhex(x) for x in sc["contents"]]
                registry = {}
                node = None
                for j, data in enumerate(contents):
                    off = [perm[x] for x in sc["offline"][j]]
                    for i in off:
                        g.remove_server(i)
                    try:
                        if node is None:
                            node = rt.wait(writer.create_mutable_file(
                                MutableData(data), version=MDMF_VERSION if sc["fmt"] == "m" else SDMF_VERSION,
                                unique_keypair=(pub, priv)))
                        else:
                            rt.wait(node.overwrite(MutableData(data)))
                        ctx.count("offline-publish-ok")
                    except grid.Stuck:
                        raise
                    except Exception as e:
                        ctx.count("offline-publish-error:" + mc.exc_name(e))
                    for i in off:
                        g.add_server(i)
                    for cs in mc.disk_state(g, si).values():
                        if cs and cs[0] != "?" and (cs[1], cs[2]) not in registry:
                            registry[(cs[1], cs[2])] = data
                if node is None:
                    return
                rnode = g.clients[1].create_node_from_uri(node.get_uri())

                def full_view():
                    """(full MODE_CHECK servermap, best recoverable verinfo, its contents read through Retrieve on that map)"""
                    smap = rt.wait(rnode.get_servermap(MODE_CHECK))
                    best = smap.best_recoverable_version()
                    data = None
                    if best is not None:
                        m = MemoryConsumer()
                        try:
                            rt.wait(Retrieve(rnode, g.clients[1].storage_broker, smap.copy(), best).download(m))
                            data = b"".join(m.chunks)
                        except grid.Stuck:
                            raise
                        except Exception as e:
                            data = ("error", mc.exc_name(e))
                    return smap, best, data

                smap0, best0, data0 = full_view()
                head = [key for key in [(perm.index(i), sh) for (i, sh, _p) in g.share_files(si)]]
                ctx.count("offline-versions-on-grid:%d" % min(3, len(set(smap0.make_versionmap()))))
                # ---- download_version(map, v): only v's contents, or an error
                readmap = rt.wait(rnode.get_servermap(MODE_READ))
                rrec = readmap.recoverable_versions()
                for v in list(smap0.make_versionmap()):
                    try:
                        got = rt.wait(rnode.download_version(readmap, v))
                        err = None
                    except grid.Stuck:
                        raise
                    except Exception as e:
                        got, err = None, mc.exc_name(e)
                    want = registry.get((v[0], v[1]))
                    ctx.case(("dlver", k, n, S, v in rrec, err))
                    ctx.count("offline-download_version-%s:%s" % ("located" if v in rrec else "not-in-map", err or "data"))
                    if got is not None and want is not None and got != want:
                        other = [key for key, c in registry.items() if c == got]
                        ctx.violation("download_version(servermap, version seq %d) returned the contents of %s" % (
                            v[0], "version seq %d" % other[0][0] if other else "no published version"), case,
                            "download-version-returned-other-version" + ("" if v in rrec else "-for-unlocated-version"))
                # ---- check, then repair
                try:
                    cr = rt.wait(rnode.check(Monitor(), verify=sc["verify"]))
                except grid.Stuck:
                    raise
                except Exception as e:
                    ctx.count("offline-check-error:" + mc.exc_name(e))
                    return
                nvers = len(set(cs[1:3] for cs in mc.disk_state(g, si).values() if cs and cs[0] != "?"))
                if cr.is_healthy() and nvers > 1:
                    ctx.violation("check says healthy although shares of %d versions are on the grid" % nvers, case,
                                  "healthy-false-positive-grid-offline")
                disk_before = mc.disk_state(g, si)
                try:
                    if sc["how"] == "repair":
                        rr = rt.wait(rnode.repair(cr, force=sc["force"]))
                        success = bool(rr.get_successful())
                        outcome = "ok" if success else "unsuccessful"
                    else:
                        crr = rt.wait(rnode.check_and_repair(Monitor(), verify=sc["verify"]))
                        success = bool(crr.get_repair_successful()) if crr.get_repair_attempted() else False
                        outcome = "ok" if success else ("unsuccessful" if crr.get_repair_attempted() else "not-attempted")
                except grid.Stuck:
                    raise
                except MustForceRepairError:
                    success, outcome = False, "MustForce"
                except Exception as e:
                    success, outcome = False, "error:" + mc.exc_name(e)
                ctx.count("offline-%s:%s" % (sc["how"], outcome))
                smap1, best1, data1 = full_view()
                ctx.case(("orepair", sc["how"], sc["force"], outcome, k, n, S, best0 and best0[0], best1 and best1[0]))
                if success:
                    if isinstance(data0, bytes) and data1 != data0:
                        older = [key for key, c in registry.items() if c == data1 and best0 is not None and key[0] < best0[0]]
                        ctx.violation("%s reported success; before it the best recoverable version (seq %s) held %r, afterwards "
                                      "the best version (seq %s) holds %r" % (
                                          sc["how"], best0 and best0[0], data0[:24], best1 and best1[0],
                                          data1[:24] if isinstance(data1, bytes) else data1), case,
                                      "repair-republished-older-content" if older else "repair-changed-contents")
                elif outcome != "not-attempted":
                    if mc.disk_state(g, si) != disk_before:
                        ctx.violation("a repair that did not report success (%s) changed shares" % outcome, case,
                                      "failed-repair-wrote")
                # whatever the repair reported: the newest recoverable contents are not replaced by older ones
                if isinstance(data0, bytes) and isinstance(data1, bytes) and data1 != data0 and not success:
                    ctx.violation("after a repair that reported %s the best recoverable contents changed" % outcome, case,
                                  "contents-changed-by-unsuccessful-repair")
            finally:
                g.close()
    except grid.Stuck:
        ctx.count("grid-stuck")
    except Exception:
        import traceback
        ctx.disagree("offline-grid scenario could not be driven to the end", case, traceback.format_exc()[-800:], None)
        ctx.count("grid-harness-exception")
    finally:
        publish.DEFAULT_MUTABLE_MAX_SEGMENT_SIZE = saved_seg



# ----------------------------------------------------------------------------- (e) the grid changes between check and repair

def gen_gap(rng):
    S = rng.randrange(3, 9)
    k = rng.randrange(1, 4)
    n = rng.randrange(k, min(6, S) + 1)
    how = rng.choice(["repair", "repair", "check_and_repair"])
    return {"family": "gap", "servers": S, "k": k, "n": n, "fmt": rng.choice("sm"), "sched": rng.randrange(1 << 30),
            "policy": rng.choice(["fifo", "random", "lifo"]), "nver": rng.randrange(1, 3),
            "predamage": rng.choice(["none", "delete-one"]) if how == "repair" else "delete-one",
            "between": rng.choice(["server-leaves", "server-leaves", "share-deleted", "leaves-and-returns", "nothing"]),
            "which": rng.randrange(64), "how": how, "verify": rng.random() < 0.4, "force": rng.random() < 0.3}


def run_gap_scenario(ctx, sc):
    """check, then the grid changes (a server that held a share leaves / a share file disappears / the server comes
    back), then repair; for check_and_repair the change happens at the boundary between its two halves.
    Monitor: a repair that reports success leaves N distinct shares of the best version on the servers that were
    there for it, and a fresh check of those servers says healthy."""
    import grid
    from allmydata.mutable.publish import MutableData
    from allmydata.mutable.repairer import MustForceRepairError
    from allmydata.mutable import checker as CK
    from allmydata.interfaces import SDMF_VERSION, MDMF_VERSION
    from allmydata.monitor import Monitor
    case = {"kind": "scenario", "sc": sc}
    k, n = sc["k"], sc["n"]
    try:
        with grid.Runtime(seed=sc["sched"], policy=sc["policy"]) as rt:
            g = mc.make_grid("c14g", rt, sc["servers"], 2, k, n)
            try:
                node = rt.wait(g.clients[0].create_mutable_file(
                    MutableData(b"gap scenario, version 0 " * 3), version=MDMF_VERSION if sc["fmt"] == "m" else SDMF_VERSION,
                    unique_keypair=mc.keypair()))
                for j in range(1, sc["nver"]):
                    rt.wait(node.overwrite(MutableData(b"gap scenario, version %d " % j * 3)))
                si = node.get_storage_index()
                files = g.share_files(si)
                if sc["predamage"] == "delete-one" and len(files) > k:
                    os.unlink(files[(sc["which"] + 1) % len(files)][2])
                    files = g.share_files(si)
                victim = files[sc["which"] % len(files)]            # (server, shnum, path) of a share of the best version
                gone = set()

                def change_grid():
                    if sc["between"] in ("server-leaves", "leaves-and-returns") and victim[0] in g.storage:
                        g.remove_server(victim[0])
                        gone.add(victim[0])
                        if sc["between"] == "leaves-and-returns":
                            g.add_server(victim[0])
                            gone.discard(victim[0])
                    elif sc["between"] == "share-deleted" and os.path.exists(victim[2]):
                        os.unlink(victim[2])
                success, outcome = False, None
                try:
                    if sc["how"] == "repair":
                        cr = rt.wait(node.check(Monitor(), verify=sc["verify"]))
                        change_grid()
                        rr = rt.wait(node.repair(cr, force=sc["force"]))
                        success = bool(rr.get_successful())
                    else:
                        # the change happens when the check half is done and before the repair half starts: a
                        # call-through wrapper at that boundary.  (A server that FAILS DURING the repair's own publish is
                        # outside the statement's quantifier: Publish does not re-place the share of a request that
                        # failed, so such a repair succeeds with N-1 shares.)
                        orig_maybe = CK.MutableCheckAndRepairer._maybe_repair

                        def maybe_repair(self_, pre):
                            change_grid()
                            return orig_maybe(self_, pre)
                        CK.MutableCheckAndRepairer._maybe_repair = maybe_repair
                        try:
                            crr = rt.wait(node.check_and_repair(Monitor(), verify=sc["verify"]))
                        finally:
                            CK.MutableCheckAndRepairer._maybe_repair = orig_maybe
                        success = bool(crr.get_repair_attempted() and crr.get_repair_successful())
                    outcome = "ok" if success else "unsuccessful"
                except grid.Stuck:
                    raise
                except MustForceRepairError:
                    outcome = "MustForce"
                except Exception as e:
                    outcome = "error:" + mc.exc_name(e)
                ctx.count("gap-%s-%s:%s" % (sc["how"], sc["between"], outcome))
                # what the servers that were there for the repair hold now
                by = {}
                for (i, sh), cs in mc.disk_state(g, si).items():
                    if i not in gone and cs and cs[0] != "?":
                        by.setdefault((cs[1], cs[2]), set()).add(sh)
                newest = max(by, key=lambda key: key[0]) if by else None
                have = len(by.get(newest, ()))
                ctx.case(("gap", sc["how"], sc["between"], outcome, k, n, sc["servers"], have))
                if success:
                    present = [i for i in g.storage if i not in gone]
                    if have < n and present:
                        ctx.violation("%s reported success; the best version (seq %s) has %d of %d distinct shares on the "
                                      "servers that were present" % (sc["how"], newest and newest[0], have, n), case,
                                      "repair-success-but-fewer-than-N-shares")
                    try:
                        cr2 = rt.wait(g.clients[1].create_node_from_uri(node.get_uri()).check(Monitor(), verify=False))
                        if not cr2.is_healthy() and present:
                            ctx.violation("%s reported success but a fresh check of the servers that were present says "
                                          "unhealthy (%s)" % (sc["how"], cr2.get_summary()), case,
                                          "repair-success-but-unhealthy-after")
                    except grid.Stuck:
                        raise
                    except Exception as e:
                        ctx.count("gap-postcheck-error:" + mc.exc_name(e))
            finally:
                g.close()
    except grid.Stuck:
        ctx.count("grid-stuck")
    except Exception:
        import traceback
        ctx.disagree("check/repair-gap scenario could not be driven to the end", case, traceback.format_exc()[-800:], None)
        ctx.count("grid-harness-exception")


GAP_CORPUS = [
    # C14-d: a server that held a share of the best version leaves between check and repair (both formats, +-verify),
    # also at the boundary inside check_and_repair; and a share file that disappears in between
    {"family": "gap", "servers": 5, "k": 2, "n": 4, "fmt": "s", "sched": 41, "policy": "fifo", "nver": 2,
     "predamage": "none", "between": "server-leaves", "which": 1, "how": "repair", "verify": False, "force": False},
    {"family": "gap", "servers": 5, "k": 2, "n": 4, "fmt": "m", "sched": 42, "policy": "random", "nver": 1,
     "predamage": "delete-one", "between": "server-leaves", "which": 0, "how": "repair", "verify": True, "force": False},
    {"family": "gap", "servers": 6, "k": 1, "n": 3, "fmt": "s", "sched": 43, "policy": "fifo", "nver": 1,
     "predamage": "delete-one", "between": "server-leaves", "which": 0, "how": "check_and_repair", "verify": False,
     "force": False},
    {"family": "gap", "servers": 6, "k": 2, "n": 4, "fmt": "m", "sched": 44, "policy": "lifo", "nver": 2,
     "predamage": "delete-one", "between": "server-leaves", "which": 2, "how": "check_and_repair", "verify": True,
     "force": False},
    {"family": "gap", "servers": 5, "k": 2, "n": 4, "fmt": "s", "sched": 45, "policy": "fifo", "nver": 1,
     "predamage": "none", "between": "share-deleted", "which": 1, "how": "repair", "verify": False, "force": False},
]



# ----------------------------------------------------------------------------- (f) damage inside the encrypted private key

def gen_privkey(rng):
    k = rng.randrange(1, 4)
    return {"family": "privkey", "k": k, "n": rng.randrange(k, 7), "servers": rng.randrange(2, 8), "fmt": rng.choice("sm"),
            "sched": rng.randrange(1 << 30), "policy": rng.choice(["fifo", "random", "lifo"]), "which": rng.randrange(64),
            "off": rng.randrange(8, 1200), "order": rng.choice([["check", "car"], ["car", "check"], ["car"], ["check"]]),
            "size": rng.choice([30, 100, 3000]), "field": rng.choice(["privkey", "privkey", "vkey"])}


def run_privkey_scenario(ctx, sc):
    """one byte flipped inside a share's encrypted private key (outside the signed prefix, invisible to the servermap
    update); check(verify=True) and the check half of check_and_repair(verify=True) must both say unhealthy"""
    import grid
    from allmydata.mutable.publish import MutableData
    from allmydata.interfaces import SDMF_VERSION, MDMF_VERSION
    from allmydata.monitor import Monitor
    from allmydata.storage.mutable import MutableShareFile
    case = {"kind": "scenario", "sc": sc}
    try:
        with grid.Runtime(seed=sc["sched"], policy=sc["policy"]) as rt:
            g = mc.make_grid("c14p", rt, sc["servers"], 2, sc["k"], sc["n"])
            try:
                node = rt.wait(g.clients[0].create_mutable_file(
                    MutableData(bytes(i % 251 for i in range(sc["size"]))),
                    version=MDMF_VERSION if sc["fmt"] == "m" else SDMF_VERSION, unique_keypair=mc.keypair()))
                files = g.share_files(node.get_storage_index())
                (i, sh, path) = files[sc["which"] % len(files)]
                base = MutableShareFile(path).DATA_OFFSET
                field = sc.get("field", "privkey")
                hdr = MutableShareFile(path).readv([(0, 200)])[0]
                if field == "vkey":
                    # the verification (public) key: SDMF [107, offsets.signature), MDMF [verification_key, .._end)
                    if sc["fmt"] == "m":
                        f_ = struct.unpack(">BQ32sBBQQ QQQQQQQQ", hdr[:123])
                        start, length = f_[10], f_[11] - f_[10]
                    else:
                        start, length = 107, struct.unpack(">L", hdr[75:79])[0] - 107
                    off = start + sc["off"] % max(1, length)
                elif sc["fmt"] == "m":
                    off = 123 + sc["off"]            # MDMF: enc_privkey follows the 123-byte header
                else:
                    off = data_region(path)[2] + sc["off"]   # SDMF: enc_privkey offset from the share's offset table
                if not flip(path, base + off):
                    return
                verdicts = {}
                for step in sc["order"]:
                    try:
                        if step == "check":
                            cr = rt.wait(node.check(Monitor(), verify=True))
                        else:
                            cr = rt.wait(node.check_and_repair(Monitor(), verify=True)).get_pre_repair_results()
                    except grid.Stuck:
                        raise
                    except Exception as e:
                        ctx.count("privkey-%s-error:%s" % (step, mc.exc_name(e)))
                        break
                    ctx.case((field, sc["fmt"], step, cr.is_healthy(), sc["k"], sc["n"]))
                    ctx.count("%s-%s-%s-healthy:%s" % (field, sc["fmt"], step, cr.is_healthy()))
                    verdicts[step] = (cr.is_healthy(), cr.get_share_counter_good())
                    flagged = any(loc[2] == sh for loc in cr.get_corrupt_shares())
                    if cr.is_healthy() or not flagged:
                        ctx.violation("%s(verify=True) says healthy=%s, %d good shares, corrupt shares %r although the %s of share "
                                      "%d on server %d is damaged" % (
                                          "check" if step == "check" else "check_and_repair", cr.is_healthy(),
                                          cr.get_share_counter_good(), sorted(loc[2] for loc in cr.get_corrupt_shares()),
                                          "encrypted private key" if field == "privkey" else "verification key", sh, i), case,
                                      "verify-misses-corrupt-" + ("encprivkey" if field == "privkey" else "verification-key"))
                    if len(verdicts) == 2 and verdicts["check"] != verdicts["car"]:
                        ctx.violation("check(verify=True) and check_and_repair(verify=True) disagree on one grid state: %r" % verdicts,
                                      case, "verify-check-and-repair-disagree")
                    if step == "car":
                        break                        # the repair half has rewritten the shares
            finally:
                g.close()
    except grid.Stuck:
        ctx.count("grid-stuck")
    except Exception:
        import traceback
        ctx.disagree("privkey scenario could not be driven to the end", case, traceback.format_exc()[-800:], None)
        ctx.count("grid-harness-exception")


PRIVKEY_CORPUS = [
    {"family": "privkey", "k": 3, "n": 10, "servers": 10, "fmt": "m", "sched": 5, "policy": "fifo", "which": 3, "off": 777,
     "order": ["car"], "size": 100},
    {"family": "privkey", "k": 3, "n": 10, "servers": 10, "fmt": "m", "sched": 5, "policy": "fifo", "which": 3, "off": 777,
     "order": ["check"], "size": 100},
    {"family": "privkey", "k": 2, "n": 4, "servers": 4, "fmt": "s", "sched": 6, "policy": "fifo", "which": 1, "off": 43,
     "order": ["check", "car"], "size": 100},
    # the verification key: a client that does not know the public key yet rejects such a share
    {"family": "privkey", "field": "vkey", "k": 2, "n": 4, "servers": 5, "fmt": "s", "sched": 7, "policy": "fifo", "which": 0,
     "off": 40, "order": ["check", "car"], "size": 100},
    {"family": "privkey", "field": "vkey", "k": 2, "n": 4, "servers": 5, "fmt": "m", "sched": 8, "policy": "fifo", "which": 2,
     "off": 40, "order": ["car"], "size": 100},
]



# ----------------------------------------------------------------------------- (g) a corrupt and an intact share on one server

def gen_sameserver(rng):
    S = rng.randrange(2, 6)
    k = rng.randrange(2, 4)
    n = rng.randrange(max(S + 1, k + 2), 11)
    return {"family": "sameserver", "servers": S, "k": k, "n": n, "fmt": rng.choice("sm"), "sched": rng.randrange(1 << 30),
            "policy": rng.choice(["fifo", "random", "lifo"]), "nver": rng.randrange(2, 4), "which": rng.randrange(64),
            "bad_first": rng.random() < 0.5, "how": rng.choice(["repair", "check_and_repair", "repair"]),
            "verify": rng.random() < 0.3}


def run_sameserver_scenario(ctx, sc):
    """Several shares per server.  Every share is rolled back to the previous version except one, which is then the only
    share of the newest version; another share ON THE SAME SERVER gets a flipped byte in its signed prefix (invalid
    signature).  Both orders of the server's listing (corrupt share before / after the newest one).
    Monitor (statement): the file is not healthy; repair without force does not discard the newer unrecoverable version
    -- it does not report success and changes no share file."""
    import grid
    from allmydata.mutable.publish import MutableData
    from allmydata.mutable.repairer import MustForceRepairError
    from allmydata.interfaces import SDMF_VERSION, MDMF_VERSION
    from allmydata.monitor import Monitor
    from allmydata.storage.mutable import MutableShareFile
    case = {"kind": "scenario", "sc": sc}
    k, n = sc["k"], sc["n"]

    def raw(files):
        res = {}
        for (_i, _sh, path) in files:
            with open(path, "rb") as f:
                res[path] = f.read()
        return res
    try:
        with grid.Runtime(seed=sc["sched"], policy=sc["policy"]) as rt:
            g = mc.make_grid("c14s", rt, sc["servers"], 2, k, n)
            try:
                node = rt.wait(g.clients[0].create_mutable_file(
                    MutableData(b"same-server scenario, version 0 " * 2), version=MDMF_VERSION if sc["fmt"] == "m" else SDMF_VERSION,
                    unique_keypair=mc.keypair()))
                si = node.get_storage_index()
                for j in range(1, sc["nver"] - 1):
                    rt.wait(node.overwrite(MutableData(b"same-server scenario, version %d " % j * 2)))
                older = raw(g.share_files(si))
                rt.wait(node.overwrite(MutableData(b"same-server scenario, NEWEST version " * 2)))
                by_server = {}
                for (i, sh, path) in g.share_files(si):
                    by_server.setdefault(i, {})[sh] = path
                multi = sorted(i for i in by_server if len(by_server[i]) >= 2)
                if not multi:
                    return
                srv = multi[sc["which"] % len(multi)]
                # the order in which this server hands out its shares is the order in which the client looks at them
                listing = [sh for sh in g.storage[srv].slot_readv(si, [], [(0, 1)]).keys() if sh in by_server[srv]]
                a, b = listing[0], listing[1 + (sc["which"] // 7) % (len(listing) - 1)]
                (bad_sh, new_sh) = (a, b) if sc["bad_first"] else (b, a)
                bad_path, new_path = by_server[srv][bad_sh], by_server[srv][new_sh]
                for path, content in older.items():
                    if path != new_path:
                        with open(path, "wb") as f:
                            f.write(content)
                flip(bad_path, MutableShareFile(bad_path).DATA_OFFSET + 1 + 8 + 5)      # inside the root hash: bad signature
                newest = mc.share_checkstring(new_path)
                ctx.count("sameserver-%s" % ("corrupt-listed-first" if sc["bad_first"] else "corrupt-listed-second"))
                rnode = g.clients[1].create_node_from_uri(node.get_uri())
                before = raw(g.share_files(si))
                outcome, success = None, False
                try:
                    if sc["how"] == "repair":
                        cr = rt.wait(rnode.check(Monitor(), verify=sc["verify"]))
                        ctx.count("sameserver-check-sees-%d-unrecoverable" % min(cr.get_version_counter_unrecoverable(), 2))
                        if cr.is_healthy():
                            ctx.violation("check says healthy although the grid holds two versions and a share with an invalid "
                                          "signature", case, "healthy-false-positive-sameserver")
                        rr = rt.wait(rnode.repair(cr, force=False))
                        success = bool(rr.get_successful())
                    else:
                        crr = rt.wait(rnode.check_and_repair(Monitor(), verify=sc["verify"]))
                        if crr.get_pre_repair_results().is_healthy():
                            ctx.violation("check_and_repair's check says healthy although the grid holds two versions and a share "
                                          "with an invalid signature", case, "healthy-false-positive-sameserver")
                        success = bool(crr.get_repair_attempted() and crr.get_repair_successful())
                    outcome = "ok" if success else "unsuccessful"
                except grid.Stuck:
                    raise
                except MustForceRepairError:
                    outcome = "MustForce"
                except Exception as e:
                    outcome = "error:" + mc.exc_name(e)
                ctx.count("sameserver-%s:%s" % (sc["how"], outcome))
                after = raw(g.share_files(si))
                changed = sorted(path for path in set(before) | set(after) if before.get(path) != after.get(path))
                ctx.case(("sameserver", sc["how"], sc["bad_first"], outcome, k, n, sc["servers"], len(changed)))
                # the newest version (seq newest[1]) has one validly signed share: unrecoverable (k >= 2) and newer than the
                # recoverable one -- a repair without force has to leave it alone
                if success or changed:
                    ctx.violation("%s without force %s and rewrote %d share files although a validly signed share of a newer, "
                                  "unrecoverable version (seq %s, share %d on server %d) was on the grid%s" % (
                                      sc["how"], "reported success" if success else "ended with " + str(outcome), len(changed),
                                      newest and newest[1], new_sh, srv,
                                      "; that share was overwritten" if after.get(new_path) != before.get(new_path) else ""),
                                  case, "repair-overwrote-newer-unrecoverable")
            finally:
                g.close()
    except grid.Stuck:
        ctx.count("grid-stuck")
    except Exception:
        import traceback
        ctx.disagree("same-server scenario could not be driven to the end", case, traceback.format_exc()[-800:], None)
        ctx.count("grid-harness-exception")


SAMESERVER_CORPUS = [
    # C14-e: 5 servers, 3-of-10 (two shares per server); both listing orders, both formats, repair and check_and_repair
    {"family": "sameserver", "servers": 5, "k": 3, "n": 10, "fmt": f, "sched": 50 + j, "policy": "fifo", "nver": 3,
     "which": j, "bad_first": bf, "how": how, "verify": False}
    for j, (f, bf, how) in enumerate([("s", True, "repair"), ("s", False, "repair"), ("m", True, "repair"),
                                      ("m", True, "check_and_repair"), ("s", True, "check_and_repair"),
                                      ("m", False, "check_and_repair")])
]


def truth_before_unrec(before, rec_before):
    return [(key, shs) for key, shs in before.items() if key not in rec_before]



# fixed corpus (runs first, independent of the seed): one scenario per known mechanism
GRID_CORPUS = [
    # C14-b: damage that only verify can see; every other share intact (SDMF and MDMF; block data and hash-tree root)
    {"k": 1, "n": 3, "servers": 4, "fmt": "s", "sched": 11, "policy": "fifo", "contents": ["00112233445566778899aabb"],
     "damage": [["flip-data", 1, 7]], "verify": True, "force": False},
    {"k": 2, "n": 4, "servers": 5, "fmt": "m", "sched": 12, "policy": "fifo",
     "contents": ["00112233445566778899aabb", "ffeeddccbbaa99887766554433221100ffee"],
     "damage": [["flip-hash", 2, 5]], "verify": True, "force": False},
    # C14-a on the grid: the single surviving share number of the newest version is held by several servers
    {"k": 2, "n": 3, "servers": 3, "fmt": "s", "sched": 13, "policy": "fifo",
     "contents": ["0011223344556677", "8899aabbccddeeff0011"], "damage": [["stale", 0, [1, 2]]], "verify": False,
     "force": False},
]
OFFLINE_CORPUS = [
    # C14-c: k stale shares at the head of the permuted list, the newest version further down
    {"family": "offline", "servers": 12, "k": 2, "n": 4, "fmt": "s", "sched": 1, "policy": "fifo",
     "contents": ["4f4c4420636f6e74656e7473", "4e455720636f6e74656e7473206d75737420737572766976652061207265706169"],
     "offline": [[2, 3, 4, 5, 6, 7], [0, 1]], "how": "repair", "verify": False, "force": False},
    {"family": "offline", "servers": 10, "k": 1, "n": 2, "fmt": "m", "sched": 27665844, "policy": "random",
     "contents": ["76657273696f6e2030208c2a1b2d7a7992d7c6118dbf7eacb3efd856b042",
                  "76657273696f6e2031204950cabf34f2eb07c6cf4f77a59baf9883c84f2c3b548f4f575a286e8314cdc83d6adb025c88bb18"],
     "offline": [[5], [0, 2, 4, 6, 7, 8, 9]], "how": "repair", "verify": False, "force": False},
    {"family": "offline", "servers": 12, "k": 2, "n": 4, "fmt": "m", "sched": 2, "policy": "fifo",
     "contents": ["4f4c4420636f6e74656e7473", "4e455720636f6e74656e7473206d75737420737572766976652061207265706169"],
     "offline": [[2, 3, 4, 5, 6, 7], [0, 1]], "how": "check_and_repair", "verify": False, "force": False},
]


def replay_case(replay):
    """the case of a replay file: a violation's case, or the case of the first recorded disagreement"""
    if replay.get("case"):
        return replay["case"]
    for d in replay.get("correspondence_disagreements", []) + replay.get("disagreements", []):
        if d.get("case"):
            return d["case"]
    raise KeyError("replay file holds no case")

def run(ctx):
    cases, scs = [], []
    if ctx.replay:
        c = replay_case(ctx.replay)
        if c.get("kind") in ("check", "repair", "getver"):
            cases = [(c11.parse_replay_vers(c["vers"]), [tuple(o) for o in c["ops"]])]
        elif c["sc"].get("family") == "offline":
            run_offline_scenario(ctx, c["sc"])
            return
        elif c["sc"].get("family") == "gap":
            run_gap_scenario(ctx, c["sc"])
            return
        elif c["sc"].get("family") == "privkey":
            run_privkey_scenario(ctx, c["sc"])
            return
        elif c["sc"].get("family") == "sameserver":
            run_sameserver_scenario(ctx, c["sc"])
            return
        else:
            sc = c["sc"]
            sc["damage"] = [tuple(d) for d in sc["damage"]]
            scs = [sc]
    else:
        import os
        corpus_only = bool(os.environ.get("VERIF_CORPUS_ONLY"))
        cases = c11._corpus()
        for _ in range(0 if corpus_only else ctx.budget(500, 10000)):
            vers = c11.gen_versions(ctx.rng)
            cases.append((vers, c11.gen_map_ops(ctx.rng, vers)))
        scs = [json.loads(json.dumps(sc)) for sc in GRID_CORPUS]
        for sc in scs:
            sc["damage"] = [tuple(d) for d in sc["damage"]]
        scs += [gen_scenario(ctx.rng) for _ in range(0 if corpus_only else ctx.budget(70, 1200))]
    run_function_level(ctx, cases)
    acc = {"lines": [], "impl": [], "cases": []}
    for sc in scs:
        run_scenario(ctx, sc, acc)
    if not ctx.replay:
        for sc in OFFLINE_CORPUS:
            run_offline_scenario(ctx, json.loads(json.dumps(sc)))
        for _ in range(0 if corpus_only else ctx.budget(40, 600)):
            run_offline_scenario(ctx, gen_offline(ctx.rng))
        for sc in GAP_CORPUS:
            run_gap_scenario(ctx, dict(sc))
        for _ in range(0 if corpus_only else ctx.budget(40, 600)):
            run_gap_scenario(ctx, gen_gap(ctx.rng))
        for sc in PRIVKEY_CORPUS:
            run_privkey_scenario(ctx, dict(sc))
        for _ in range(0 if corpus_only else ctx.budget(15, 300)):
            run_privkey_scenario(ctx, gen_privkey(ctx.rng))
        for sc in SAMESERVER_CORPUS:
            run_sameserver_scenario(ctx, dict(sc))
        for _ in range(0 if corpus_only else ctx.budget(25, 400)):
            run_sameserver_scenario(ctx, gen_sameserver(ctx.rng))
    model = ctx.model(acc["lines"])
    if model is not None:
        # need_repair is internal to the checker object on the grid path: compare the other fields
        def strip(s):
            f = s.split(";")
            f[2] = "*"
            return ";".join(f)
        ctx.compare("check results of grid scenarios vs the model applied to the servermap inside the results",
                    acc["cases"], [strip(x) for x in acc["impl"]], [strip(canon_model_check(m)) for m in model])
    if acc["lines"]:
        ctx.sample({"grid-check": acc["lines"][-1][:300], "impl": acc["impl"][-1]})
