"""C27 — the share crawler covers every bucket each cycle (storage/crawler.py ShareCrawler)."""
import hashlib
import json
import os
import random
import shutil

import common

ID = "C27"
LEAN_PROPS = "Tahoe.Props.C27"
DRIVER = "C27"
GENERATED = ["gc"]
SOURCES = ["src/allmydata/storage/crawler.py"]
DESIGN_REF = "DESIGN.md §2 C27"
TECHNIQUE = ("Lean 4 invariant proofs over a slice-level state machine of ShareCrawler (oracle stream for the time-slice checks, "
             "kill = revert to the saved state with an empty bucket cache, directory listings as a per-slice set that the crawler "
             "orders itself) and over a process machine with an explicit state file (save_state / load_state, atomicity of the "
             "write as a parameter, kills inside the write); differential correspondence against a real ShareCrawler subclass "
             "driven through the real start_slice() with a scripted clock, scripted kills (after any process_bucket call, at four "
             "points inside the state write), restarts and orderly stopService() with re-instantiation from the real state file, "
             "directory listings presented in scripted order")
LEVEL_TEXT = ("covers_at_least_once (every oracle stream, every kill/restart pattern, changing listings), "
              "exactly_once_without_kill, at_most_once_without_kill and cycle_numbers_increment are proved for all schedules and "
              "any number >= 2 of prefixes (the code has 1024: num_prefixes_pinned); state_file_tracks_memory, "
              "proc_refines_slice_machine, load_save_round_trip and the _proc versions of coverage / exactly-once for processes "
              "restarted from the state file; with the atomic (tmp + rename) write, cycle_numbers_increment_atomic and "
              "save_kill_is_kill_or_restart also for kills inside the state write; slice_calls_beyond_marker and "
              "sorted_listing_is_covered for the resume marker. Counterexamples prove why the hypotheses are there: "
              "single_prefix_stale_cache, kill_repeats_work, nonatomic_save_resets_cycle_numbers, unsorted_listing_skips_buckets.")
LEVEL_NOTE = ("The driver runs the process machine and the harness compares the process_bucket log, the state file and the "
              "in-memory state of the (re-created) crawler after every event; which write discipline the code implements is "
              "observed on a probe save and passed to the driver. Hypotheses: at least two prefixes, bucket names start with their "
              "prefix (last-complete-bucket is not reset between prefixes). Kills are modelled at process_bucket-call granularity "
              "and at four points of the state write. Subclass state in the state file: for the lease crawler see C26 "
              "(histogram_survives_state_file, gcrun); other subclass keys correspondence only. Not covered: timing "
              "(allowed_cpu_percentage, sleep times).")
RULE = ("a case is one event (slice / killed slice / slice or stopService killed inside the state write / restart / orderly stop) of "
        "a schedule run on the real ShareCrawler over a real directory tree; distinct = distinct (state file before, listing, "
        "oracle, kill point) tuples; non-trivial = the slice made at least one process_bucket call or was interrupted/killed")
TRUSTED = ["lean/Tahoe/Storage/Crawler.lean is a hand transcription of start_slice / start_current_prefix / process_prefixdir / "
           "save_state / load_state / _LeaseStateSerializer.save",
           "the harness replaces the module attributes crawler.os (listdir / scandir hand out entries in a scripted order: native, "
           "ascending, descending or a seeded permutation) and crawler._dump_json_to_file / _LeaseStateSerializer.save (kill after "
           "the truncating open, after half the bytes, after the complete write, after save returned); whether save writes the "
           "state path itself (in place) or a sibling + rename is OBSERVED on a probe save and passed to the driver (a0 / a1)",
           "the harness scripts the clock by replacing the module attribute crawler.time and advancing it from the "
           "process_bucket / finished_prefix hooks (the time check is the next statement after each hook); a kill is an exception "
           "that leaves start_slice before save_state, after which the crawler object is discarded and re-created from the state file"]
ASSUMPTIONS = ["bucket directory names start with the two-character prefix of the directory they live in",
               "directory contents change only between slices (the crawler runs synchronously inside a slice)",
               "rename() of the state file is atomic (whether save_state uses tmp + rename at all is observed, not assumed)"]

B32 = "abcdefghijklmnopqrstuvwxyz234567"


class Killed(BaseException):
    pass


class FakeTime:
    def __init__(self):
        self.now = 1000.0

    def time(self):
        return self.now


class Script:
    """Per-slice script shared with the crawler subclass."""

    def __init__(self, ft):
        self.ft = ft
        self.log = []
        self.arm(set(), None, 0)

    save_kill = None        # None or "t"/"h"/"w"/"r": kill inside the next state write at that point
    order = None            # how directory listings are presented to the crawler: None (native), "asc", "desc", int seed

    def permute(self, names):
        names = list(names)
        if self.order is None:
            return names
        names.sort()
        if self.order == "desc":
            names.reverse()
        elif self.order != "asc":
            random.Random("c27-order-%s-%s" % (self.order, ",".join(names))).shuffle(names)
        return names

    def arm(self, oracle, kill_after, kill_style):
        self.oracle = oracle
        self.kill_after = kill_after      # None or number of completed process_bucket calls
        self.kill_style = kill_style
        self.check_idx = 0
        self.calls = 0
        self.slice_log = []

    def checkpoint(self):
        i = self.check_idx
        self.check_idx += 1
        if i in self.oracle:
            self.ft.now += 2.0     # > cpu_slice: the check that follows reports "slice exceeded"


def make_crawler_class():
    from allmydata.storage.crawler import ShareCrawler

    class LoggingCrawler(ShareCrawler):
        cpu_slice = 1.0

        def __init__(self, server, statefile, script):
            self.script = script
            ShareCrawler.__init__(self, server, statefile)

        def process_bucket(self, cycle, prefix, prefixdir, storage_index_b32):
            sc = self.script
            if sc.kill_after is not None and sc.calls >= sc.kill_after and sc.kill_style == 0:
                raise Killed()
            sc.slice_log.append((cycle, prefix, storage_index_b32))
            sc.calls += 1
            if sc.kill_after is not None and sc.calls >= sc.kill_after and sc.kill_style == 1:
                raise Killed()      # the call completed; killed before last-complete-bucket is updated
            sc.checkpoint()

        def finished_prefix(self, cycle, prefix):
            self.script.checkpoint()

        def save_state(self):
            if self.script.kill_after is not None:
                raise Killed()      # the slice had fewer calls: killed just before its save_state
            ShareCrawler.save_state(self)

    return LoggingCrawler


class Srv:
    def __init__(self, sharedir):
        self.sharedir = sharedir


class _Entries(list):
    def __enter__(self):
        return self

    def __exit__(self, *a):
        return False

    def close(self):
        pass


class OsProxy:
    """Stands in for the `os` module inside allmydata.storage.crawler: listdir / scandir hand out the directory
    entries in the order the script chooses (a directory listing is a SET; no order may be relied upon)."""

    def __init__(self, script_ref):
        self._script_ref = script_ref

    def __getattr__(self, name):
        return getattr(os, name)

    def listdir(self, path="."):
        return self._script_ref().permute(os.listdir(path))

    def scandir(self, path="."):
        with os.scandir(path) as it:
            ents = {e.name: e for e in it}
        return _Entries(ents[n] for n in self._script_ref().permute(list(ents)))


class World:
    def __init__(self, ctx):
        from allmydata.storage import crawler
        self.crawler_mod = crawler
        self.saved_time = crawler.time
        self.ft = FakeTime()
        crawler.time = self.ft
        self.root = os.path.join(common.WORK, "c27-%d" % os.getpid())
        shutil.rmtree(self.root, ignore_errors=True)
        os.makedirs(self.root)
        self.cls = make_crawler_class()
        self.n = 0
        self.script = Script(self.ft)          # the script currently in charge (listing order, save faults)
        self.saved_os = crawler.os
        crawler.os = OsProxy(lambda: self.script)
        # fault injection / observation of the state write
        self.saved_dump = crawler._dump_json_to_file
        self.saved_save = crawler._LeaseStateSerializer.save
        self.write_log = []                    # (written path == state path?) per _dump_json_to_file call of a save
        world = self

        def dump(js, afile):
            sc = world.script
            cur = world.current_save_path
            if cur is not None:
                world.write_log.append(afile.path == cur)
            pt = sc.save_kill if cur is not None else None
            if pt in ("t", "h"):
                data = json.dumps(js).encode("utf8")
                with afile.open("wb") as f:
                    if pt == "h":
                        f.write(data[:max(1, len(data) // 2)])
                sc.save_kill = None
                raise Killed()
            world.saved_dump(js, afile)
            if pt == "w":
                sc.save_kill = None
                raise Killed()

        def save(serializer, data):
            world.current_save_path = serializer._path.path
            try:
                res = world.saved_save(serializer, data)
            finally:
                world.current_save_path = None
            if world.script.save_kill == "r":
                world.script.save_kill = None
                raise Killed()
            return res

        self.current_save_path = None
        crawler._dump_json_to_file = dump
        crawler._LeaseStateSerializer.save = save
        probe = self.cls(Srv(self.root), os.path.join(self.root, "probe.state"), self.script)
        self.prefixes = list(probe.prefixes)
        # which write discipline does the code implement?  atomic = never writes the state path itself
        self.write_log = []
        probe.save_state()
        self.atomic = bool(self.write_log) and not any(self.write_log)
        ctx.count("state-write:" + ("tmp+rename" if self.atomic else "in-place"))

    def close(self):
        self.crawler_mod.time = self.saved_time
        self.crawler_mod.os = self.saved_os
        self.crawler_mod._dump_json_to_file = self.saved_dump
        self.crawler_mod._LeaseStateSerializer.save = self.saved_save
        shutil.rmtree(self.root, ignore_errors=True)


def read_state(statefile, rank, prefixes):
    path = statefile + ".json" if not statefile.endswith(".json") else statefile
    try:
        with open(path, "rb") as f:
            st = json.load(f)
    except (OSError, ValueError):          # missing or unreadable (truncated) state file: load_state's except branch
        return "N/N/0/N", None
    lcp = st["last-complete-prefix"]
    nxt = 0 if lcp is None else prefixes.index(lcp) + 1
    lcb = st["last-complete-bucket"]

    def o(x):
        return "N" if x is None else str(x)
    return "%s/%s/%d/%s" % (o(st["current-cycle"]), o(st["last-cycle-finished"]), nxt,
                            "N" if lcb is None else str(rank[lcb])), st


def mem_state(c, rank):
    """the in-memory crawler (self.state + last_complete_prefix_index) in the driver's notation"""
    st = c.state
    lcb = st["last-complete-bucket"]

    def o(x):
        return "N" if x is None else str(x)
    return "m%s/%s/%d/%s" % (o(st["current-cycle"]), o(st["last-cycle-finished"]), c.last_complete_prefix_index + 1,
                             "N" if lcb is None else str(rank[lcb]))


def run_schedule(ctx, world, sched):
    """sched = {"names": [bucket names], "events": [event]}; event =
    {"k": "s"|"k"|"r"|"g", "ls": [names present], "o": [check indices], "kill": K, "style": 0|1}.
    Returns (impl output string, driver line)."""
    world.n += 1
    base = os.path.join(world.root, "w%d" % world.n)
    sharedir = os.path.join(base, "shares")
    os.makedirs(sharedir)
    statefile = os.path.join(base, "crawler.state")
    names = sorted(set(sched["names"]))
    rank = {n: i for i, n in enumerate(names)}
    pidx = {p: i for i, p in enumerate(world.prefixes)}
    script = Script(world.ft)
    world.script = script
    srv = Srv(sharedir)
    c = world.cls(srv, statefile, script)
    present = set()
    outs, toks = [], []
    history = []     # for the monitor: (cycle worked on, listing set or None, killed?, slice log, state after)
    for ev in sched["events"]:
        state_before, st_before = read_state(statefile, rank, world.prefixes)
        if ev["k"] in ("r", "g", "x"):
            if ev["k"] == "g":
                c.stopService()        # orderly shutdown between slices: calls save_state
            elif ev["k"] == "x":       # stopService whose state write is hit by a kill at point ev["pt"]
                script.save_kill = ev["pt"]
                try:
                    c.stopService()
                    raise AssertionError("scripted kill inside save_state did not happen")
                except Killed:
                    pass
                script.save_kill = None
            c = world.cls(srv, statefile, script)
            outs.append("-/" + read_state(statefile, rank, world.prefixes)[0] + "/" + mem_state(c, rank))
            toks.append(ev["k"] + ev.get("pt", ""))
            history.append((None, None, False, [], read_state(statefile, rank, world.prefixes)[1], ev["k"]))
            ctx.case(("stop-kill", state_before, ev["pt"]) if ev["k"] == "x" else None)
            ctx.count({"r": "event:restart", "g": "event:graceful-stop", "x": "event:kill-in-stop-save:" + ev.get("pt", "")}[ev["k"]])
            continue
        want = set(ev["ls"])
        for n in sorted(present - want):
            os.rmdir(os.path.join(sharedir, n[:2], n))
        # created in an order unrelated to the names (native listings are then not ascending on most filesystems)
        for n in sorted(want - present, key=lambda x: hashlib.sha256(x.encode()).digest()):
            os.makedirs(os.path.join(sharedir, n[:2], n))
        present = want
        script.order = ev.get("ord")
        # listing in the order os.listdir reports it (the model sorts, as the code does)
        by_prefix = {}
        for p in sorted(set(n[:2] for n in names)):
            d = os.path.join(sharedir, p)
            if os.path.isdir(d):
                l = world.crawler_mod.os.listdir(d)       # the order the crawler will be shown
                if l:
                    by_prefix[p] = l
        listing = ",".join("%d:%s" % (pidx[p], ".".join(str(rank[n]) for n in by_prefix[p])) for p in sorted(by_prefix, key=lambda p: pidx[p])) or "-"
        oracle = ",".join(str(i) for i in sorted(set(ev["o"]))) or "-"
        working_on = None
        if st_before is None:
            working_on = 0
        elif st_before["current-cycle"] is not None:
            working_on = st_before["current-cycle"]
        else:
            working_on = 0 if st_before["last-cycle-finished"] is None else st_before["last-cycle-finished"] + 1
        if ev["k"] == "s":
            script.arm(set(ev["o"]), None, 0)
            c.start_slice()
            toks.append("s/%s/%s" % (oracle, listing))
            killed = False
        elif ev["k"] == "w":       # complete slice whose final state write is hit by a kill at point ev["pt"]
            script.arm(set(ev["o"]), None, 0)
            script.save_kill = ev["pt"]
            try:
                c.start_slice()
                raise AssertionError("scripted kill inside save_state did not happen")
            except Killed:
                pass
            script.save_kill = None
            c = world.cls(srv, statefile, script)
            toks.append("w%s/%s/%s" % (ev["pt"], oracle, listing))
            killed = True
        else:
            script.arm(set(ev["o"]), ev["kill"], ev.get("style", 0))
            try:
                c.start_slice()
                raise AssertionError("scripted kill did not happen")
            except Killed:
                pass
            script.kill_after = None
            c = world.cls(srv, statefile, script)      # restart from the state file
            toks.append("k%d/%s/%s" % (ev["kill"], oracle, listing))
            killed = True
        lg = list(script.slice_log)
        state_after, st_after = read_state(statefile, rank, world.prefixes)
        outs.append((",".join("%d.%d.%d" % (cy, pidx[p], rank[b]) for (cy, p, b) in lg) or "-") + "/" + state_after
                    + "/" + mem_state(c, rank))
        history.append((working_on, set(want), killed, lg, st_after, ev["k"]))
        nontrivial = bool(lg) or killed or bool(ev["o"])
        ctx.case((state_before, listing, oracle, ev.get("kill"), ev["k"], ev.get("pt")) if nontrivial else None)
        ctx.count("event:" + {"s": "slice", "k": "killed", "w": "kill-in-slice-save:" + ev.get("pt", "")}[ev["k"]])
        if ev.get("ord") is not None:
            ctx.count("listing-order:" + ("seeded" if isinstance(ev["ord"], int) else ev["ord"]))
        if any(len(v) > 1 for v in by_prefix.values()):
            ctx.count("slices-with-shared-prefix-dir")
        if st_after is not None and st_after["current-cycle"] is not None and not killed:
            ctx.count("slice-interrupted")
    monitor(ctx, sched, history)
    shutil.rmtree(base, ignore_errors=True)
    return ";".join(outs), "crawl %d a%d %s" % (len(world.prefixes), 1 if world.atomic else 0, " ".join(toks))


def monitor(ctx, sched, history):
    """The statement, on the real crawler's observations only."""
    # cycle numbers: last-cycle-finished goes None -> 0 -> 1 …, one step at a time; calls carry the cycle being worked on
    prev = None
    for (working_on, ls, killed, lg, st, kind) in history:
        lcf = None if st is None else st["last-cycle-finished"]
        if lcf != prev:
            exp = 0 if prev is None else prev + 1
            if lcf != exp:
                if prev is not None and (lcf is None or lcf < prev):
                    ctx.violation("last-cycle-finished went back / was reset: completed cycle numbers would repeat", sched,
                                  "cycle-number-reset-after-kill-in-state-write" if kind in ("w", "x") else "cycle-number-reset")
                else:
                    ctx.violation("last-cycle-finished does not increase by one", sched, "cycle-number-step")
            prev = lcf
        for (cy, p, b) in lg:
            if cy != working_on:
                ctx.violation("process_bucket called with a cycle number other than last-cycle-finished+1", sched, "cycle-number-in-call")
    finished = prev
    if finished is None:
        return
    for c in range(finished + 1):
        evs = [h for h in history if h[0] == c]
        if not evs:
            ctx.violation("a cycle number was skipped", sched, "cycle-number-skipped")
            continue
        always = set.intersection(*[h[1] for h in evs])
        anykill = any(h[2] for h in evs)
        calls = [b for h in evs for (cy, p, b) in h[3] if cy == c]
        for b in sorted(always):
            n = calls.count(b)
            if n == 0:
                shared = any(o != b and o[:2] == b[:2] for o in always)
                ctx.violation("a bucket present throughout a completed cycle was never processed in it", sched,
                              "bucket-never-processed:same-prefix" if shared else
                              "bucket-not-covered" + ("-after-kill" if anykill else ""))
            elif n > 1 and not anykill:
                ctx.violation("a bucket was processed more than once in a cycle without a mid-slice kill", sched,
                              "bucket-processed-twice-without-kill")
        ctx.count("cycles-checked")
        ctx.count("cycles-with-kill" if anykill else "cycles-without-kill")


# ------------------------------------------------------------------ generation

def gen_names(rng, prefixes, nprefix, nbuckets):
    choice = set()
    pool = [0, 1, 2, len(prefixes) - 1, len(prefixes) - 2] + [rng.randrange(len(prefixes)) for _ in range(4)]
    while len(choice) < nprefix:
        choice.add(rng.choice(pool))
    ps = sorted(choice)
    names = set()
    while len(names) < nbuckets:
        p = prefixes[rng.choice(ps)]
        names.add(p + "".join(rng.choice(B32) for _ in range(rng.choice([1, 2, 24]))))
    return sorted(names)


def checks_of_interest(prefixes, names):
    """Indices (within an uninterrupted slice from the start of a cycle) of every time check that follows a bucket,
    and of the checks after the prefixes that hold buckets, their neighbours, the first and the last prefix."""
    pidx = {p: i for i, p in enumerate(prefixes)}
    per = {}
    for n in names:
        per[pidx[n[:2]]] = per.get(pidx[n[:2]], 0) + 1
    res, idx = set(), 0
    for i in range(len(prefixes)):
        k = per.get(i, 0)
        for _ in range(k):
            res.add(idx)
            idx += 1
        if k or (i + 1 in per) or (i - 1 in per) or i in (0, len(prefixes) - 1):
            res.add(idx)
        idx += 1
    return sorted(res), idx


def systematic(world, names, tier_all):
    """one interruption at each interesting check, then a kill at every point of the following slice, then run to
    the end of the cycle and through one more cycle"""
    checks, total = checks_of_interest(world.prefixes, names)
    nb = len(names)
    scheds = []
    for c in checks:
        for k in range(nb + 2):
            for style in (0, 1):
                if style == 1 and k == 0:
                    continue
                ev = [{"k": "s", "ls": names, "o": [c]},
                      {"k": "k", "ls": names, "o": [], "kill": k, "style": style},
                      {"k": "s", "ls": names, "o": []},
                      {"k": "s", "ls": names, "o": []},
                      {"k": "s", "ls": names, "o": []}]
                scheds.append({"names": names, "events": ev})
        # interruption only, then a restart between slices
        scheds.append({"names": names, "events": [{"k": "s", "ls": names, "o": [c]}, {"k": "r"},
                                                  {"k": "s", "ls": names, "o": []}, {"k": "s", "ls": names, "o": []}]})
        # interruption at c, then a slice / a stopService whose state write is killed at each point
        if c in checks[:3]:
            for pt in "thwr":
                scheds.append({"names": names, "events": [{"k": "s", "ls": names, "o": []}, {"k": "s", "ls": names, "o": [c]},
                                                          {"k": "w", "pt": pt, "ls": names, "o": [0]},
                                                          {"k": "s", "ls": names, "o": []}, {"k": "s", "ls": names, "o": []}]})
                scheds.append({"names": names, "events": [{"k": "s", "ls": names, "o": []}, {"k": "s", "ls": names, "o": [c]},
                                                          {"k": "x", "pt": pt},
                                                          {"k": "s", "ls": names, "o": []}, {"k": "s", "ls": names, "o": []}]})
        # interruption only, then an orderly stopService() + new process
        scheds.append({"names": names, "events": [{"k": "s", "ls": names, "o": [c]}, {"k": "g"},
                                                  {"k": "s", "ls": names, "o": [0]}, {"k": "g"},
                                                  {"k": "s", "ls": names, "o": []}, {"k": "s", "ls": names, "o": []}]})
        # interrupted at c and again at the first check of the next slice
        scheds.append({"names": names, "events": [{"k": "s", "ls": names, "o": [c]}, {"k": "s", "ls": names, "o": [0]},
                                                  {"k": "s", "ls": names, "o": []}, {"k": "s", "ls": names, "o": []}]})
    return scheds


def gen_random(rng, world, names):
    checks, total = checks_of_interest(world.prefixes, names)
    present = set(n for n in names if rng.random() < 0.8)
    evs = []
    for _ in range(rng.choice([3, 5, 8, 12])):
        r = rng.random()
        if rng.random() < 0.3:       # listing changes between slices
            for n in names:
                if rng.random() < 0.2:
                    present.symmetric_difference_update([n])
        o = []
        for _ in range(rng.choice([0, 0, 1, 1, 2, 3])):
            o.append(rng.choice(checks) if rng.random() < 0.8 else rng.randrange(total + 2))
        # later interruptions of one slice are counted from its own first check: also use small indices
        if rng.random() < 0.4:
            o.append(rng.randrange(0, 4))
        if r < 0.03:
            evs.append({"k": "x", "pt": rng.choice("thwr")})
        elif r < 0.07:
            evs.append({"k": "r"})
        elif r < 0.14:
            evs.append({"k": "g"})
        elif r < 0.35:
            evs.append({"k": "k", "ls": sorted(present), "o": o, "kill": rng.randrange(0, len(names) + 2), "style": rng.choice([0, 1])})
        elif r < 0.42:
            evs.append({"k": "w", "pt": rng.choice("thwr"), "ls": sorted(present), "o": o})
        else:
            evs.append({"k": "s", "ls": sorted(present), "o": o})
    order = rng.choice([None, None, "desc", "asc", rng.randrange(1000)])
    for ev in evs:
        if "ls" in ev and order is not None:
            ev["ord"] = order
    for ev in evs:
        if ev["k"] == "k" and ev["kill"] == 0:
            ev["style"] = 0
    return {"names": names, "events": evs}


def corpus(world):
    P = world.prefixes
    a, b, z = P[0], P[1], P[-1]
    n1 = [a + "aa", a + "ab", b + "aa", z + "77"]
    return [
        # interruption after the last bucket of a prefix, then after the prefix, kill, finish
        {"names": n1, "events": [{"k": "s", "ls": n1, "o": [1]}, {"k": "s", "ls": n1, "o": [0]},
                                 {"k": "k", "ls": n1, "o": [], "kill": 1, "style": 1}, {"k": "s", "ls": n1, "o": []},
                                 {"k": "s", "ls": n1, "o": []}]},
        # interruption after the very last prefix of the cycle: the next slice only finishes the cycle
        {"names": n1, "events": [{"k": "s", "ls": n1, "o": [len(P) + 3]}, {"k": "r"}, {"k": "s", "ls": n1, "o": []},
                                 {"k": "s", "ls": n1, "o": []}]},
        # a bucket that appears / disappears between slices
        {"names": n1, "events": [{"k": "s", "ls": n1[:2], "o": [0]}, {"k": "s", "ls": n1, "o": [0]},
                                 {"k": "s", "ls": n1[1:], "o": []}, {"k": "s", "ls": n1, "o": []}]},
        # killed in the very first slice (no state file yet)
        {"names": n1, "events": [{"k": "k", "ls": n1, "o": [], "kill": 2, "style": 0}, {"k": "s", "ls": n1, "o": []}]},
    ] + regression_corpus(P)


def regression_corpus(P):
    """Minimal histories for resume mechanisms that were once broken by seeded changes (seeded/C27-a,b,c):
    each must be decided by the monitor on its own, whatever the random stream does."""
    a, b = P[0], P[1]
    res = []
    n3 = [a + "aa", a + "ab", a + "ac"]
    for mid in ([], [{"k": "r"}], [{"k": "g"}]):
        # (a) the slice ends inside a prefix after bucket X and X is gone when the crawl resumes: the bucket after X
        #     (present throughout) must still be processed - same process, lost process, orderly stop
        res.append({"names": n3, "events": [{"k": "s", "ls": n3, "o": [0]}] + mid +
                    [{"k": "s", "ls": n3[1:], "o": []}, {"k": "s", "ls": n3[1:], "o": []}]})
        # same with the marker being the middle bucket
        res.append({"names": n3, "events": [{"k": "s", "ls": n3, "o": [1]}] + mid +
                    [{"k": "s", "ls": [n3[0], n3[2]], "o": []}, {"k": "s", "ls": [n3[0], n3[2]], "o": []}]})
    nb = [a + "aa", b + "aa", b + "ab", P[2] + "aa"]
    for stop in ("r", "g"):
        # (b) a new process in the middle of a cycle, one prefix complete, the next one partly done (checks: 0 after
        #     P0/aa, 1 after prefix 0, 2 after P1/aa) or not started: it must resume IN that prefix, not after it
        res.append({"names": nb, "events": [{"k": "s", "ls": nb, "o": [2]}, {"k": stop},
                                            {"k": "s", "ls": nb, "o": []}, {"k": "s", "ls": nb, "o": []}]})
        res.append({"names": nb, "events": [{"k": "s", "ls": nb, "o": [1]}, {"k": stop},
                                            {"k": "s", "ls": nb, "o": []}, {"k": "s", "ls": nb, "o": []}]})
        # (c) one prefix spans two slice ends in the same process, then a new process: the state file must carry the
        #     marker of the SECOND slice (no bucket twice without a mid-slice kill)
        res.append({"names": n3, "events": [{"k": "s", "ls": n3, "o": [0]}, {"k": "s", "ls": n3, "o": [0]}, {"k": stop},
                                            {"k": "s", "ls": n3, "o": []}, {"k": "s", "ls": n3, "o": []}]})
    # (d, seeded/C26-d) MANY buckets in ONE prefix directory, listed in descending / seeded order: the crawler must order
    #     the listing itself; whole cycles, also with an interruption + restart inside the directory
    for nb, suffixes in ((6, "aqbzc7"), (22, "mzalbkcjdiehfg2y3x4w5v")):
        many = [P[5] + ch + "x" * 5 for ch in suffixes[:nb]] + [P[6] + "aa"]
        for order in ("desc", 7, 11):
            res.append({"names": many, "events": [{"k": "s", "ls": many, "o": [], "ord": order},
                                                  {"k": "s", "ls": many, "o": [], "ord": order}]})
            res.append({"names": many, "events": [{"k": "s", "ls": many, "o": [2], "ord": order}, {"k": "r"},
                                                  {"k": "s", "ls": many, "o": [1], "ord": order},
                                                  {"k": "s", "ls": many, "o": [], "ord": order},
                                                  {"k": "s", "ls": many, "o": [], "ord": order}]})
    # (d, seeded/C27-d) a kill INSIDE the state write, at each point, after two completed cycles / inside a cycle / in
    #     stopService: cycle numbers must go on (…1, 2, 3), never reset
    for pt in "thwr":
        res.append({"names": n3, "events": [{"k": "s", "ls": n3, "o": []}, {"k": "s", "ls": n3, "o": []},
                                            {"k": "w", "pt": pt, "ls": n3, "o": []},
                                            {"k": "s", "ls": n3, "o": []}, {"k": "s", "ls": n3, "o": []}]})
        res.append({"names": n3, "events": [{"k": "s", "ls": n3, "o": []}, {"k": "s", "ls": n3, "o": [0]},
                                            {"k": "w", "pt": pt, "ls": n3, "o": [0]},
                                            {"k": "s", "ls": n3, "o": []}, {"k": "s", "ls": n3, "o": []}]})
        res.append({"names": n3, "events": [{"k": "s", "ls": n3, "o": []}, {"k": "s", "ls": n3, "o": [1]},
                                            {"k": "x", "pt": pt},
                                            {"k": "s", "ls": n3, "o": []}, {"k": "s", "ls": n3, "o": []}]})
    return res


def run(ctx):
    common.setup_impl_path()
    world = World(ctx)
    try:
        _run(ctx, world)
    finally:
        world.close()


def _run(ctx, world):
    rng = ctx.rng
    if len(world.prefixes) != 1024:
        ctx.note("the crawler has %d prefixes" % len(world.prefixes))
    scheds = []
    if ctx.replay:
        scheds = [ctx.replay["case"]]
    else:
        scheds += corpus(world)
        only_corpus = bool(os.environ.get("VERIF_CORPUS_ONLY"))     # knob: fixed corpus only
        nsets = 0 if only_corpus else ctx.budget(2, 40)
        for i in range(nsets):
            nb = rng.choice([2, 3, 4]) if ctx.tier != "thorough" else rng.choice([1, 2, 3, 4, 5, 6])
            names = gen_names(rng, world.prefixes, rng.choice([1, 2, 3]), nb)
            scheds += systematic(world, names, ctx.tier == "thorough")
        for i in range(0 if only_corpus else ctx.budget(250, 6000)):
            names = gen_names(rng, world.prefixes, rng.choice([1, 2, 3, 4]), rng.choice([1, 2, 3, 4, 5, 6]))
            scheds.append(gen_random(rng, world, names))
    impl, lines = [], []
    for s in scheds:
        a, l = run_schedule(ctx, world, s)
        impl.append(a)
        lines.append(l)
    model = ctx.model(lines)
    ctx.compare("schedule: process_bucket log and state file after every event", scheds, impl, model)
    ctx.sample({"line": lines[0][:300], "impl": impl[0][:300]})
    ctx.sample({"line": lines[-1][:300], "impl": impl[-1][:300]})
    ctx.note("%d schedules (%d systematic/corpus)" % (len(scheds), len(scheds) - ctx.budget(250, 6000)))
